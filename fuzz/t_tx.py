"""Fuzz target: field-level transaction decoded from fuzzer bytes -> C06 round-trip check (strict=False)."""
PROP = 'C06'


def _script(fdp, kinds):
    from ref import wire
    k = fdp.ConsumeIntInRange(0, kinds)
    if k == 0:
        return b''
    if k == 1:
        return bytes([fdp.ConsumeIntInRange(0, 255)])
    if k == 2:
        h = fdp.ConsumeBytes(20).ljust(20, b'\x11')
        return b'\x76\xa9\x14' + h + b'\x88\xac'
    if k == 3:
        return b'\x00\x14' + fdp.ConsumeBytes(20).ljust(20, b'\x22')
    if k == 4:
        return b'\x00\x20' + fdp.ConsumeBytes(32).ljust(32, b'\x33')
    if k == 5:
        return b'\x51\x20' + fdp.ConsumeBytes(32).ljust(32, b'\x44')
    if k == 6:
        return b'\xa9\x14' + fdp.ConsumeBytes(20).ljust(20, b'\x55') + b'\x87'
    if k == 7:
        return b'\x6a' + wire.push_data(fdp.ConsumeBytes(fdp.ConsumeIntInRange(0, 40)))
    # push-wellformed mix of opcodes and pushes
    items = []
    for _ in range(fdp.ConsumeIntInRange(1, 6)):
        if fdp.ConsumeBool():
            items.append(fdp.ConsumeIntInRange(0x4f, 0xff))
        else:
            n = fdp.ConsumeIntInRange(1, 80)
            items.append(fdp.ConsumeBytes(n).ljust(n, b'\x66'))
    return wire.script_build(items)


def decode(fdp):
    from ref import wire
    version = fdp.ConsumeIntInRange(0, 0xffffffff) if fdp.ConsumeBool() else fdp.ConsumeIntInRange(1, 2)
    locktime = fdp.ConsumeIntInRange(0, 0xffffffff) if fdp.ConsumeBool() else 0
    segwit = fdp.ConsumeBool()
    coinbase = fdp.ConsumeIntInRange(0, 7) == 0
    n_in = 1 if coinbase else fdp.ConsumeIntInRange(1, 3)
    vin = []
    for _ in range(n_in):
        if coinbase:
            prev, n = '00' * 32, 0xffffffff
            ss = fdp.ConsumeBytes(fdp.ConsumeIntInRange(2, 40)).ljust(2, b'\x03')
            wit = [bytes(32)] if segwit else []
        else:
            prev = fdp.ConsumeBytes(32).ljust(32, b'\x77').hex()
            if prev == '00' * 32:
                prev = '01' + prev[2:]
            n = fdp.ConsumeIntInRange(0, 0xfffffffe) if fdp.ConsumeBool() else fdp.ConsumeIntInRange(0, 3)
            kind = fdp.ConsumeIntInRange(0, 2)
            wit = []
            if kind == 0:
                ss = b''
                if segwit:
                    for _i in range(fdp.ConsumeIntInRange(1, 4)):
                        ln = fdp.ConsumeIntInRange(0, 73)
                        wit.append(fdp.ConsumeBytes(ln).ljust(ln, b'\x88'))
            elif kind == 1:
                ss = _script(fdp, 8)
            else:
                ss = wire.script_build([fdp.ConsumeBytes(71).ljust(71, b'\x30'), fdp.ConsumeBytes(33).ljust(33, b'\x02')])
        seq = fdp.ConsumeIntInRange(0, 0xffffffff) if fdp.ConsumeBool() else 0xffffffff
        vin.append({'prev': prev, 'n': n, 'ss': ss.hex(), 'seq': seq, 'wit': [w.hex() for w in wit]})
    vout = []
    for _ in range(fdp.ConsumeIntInRange(1, 3)):
        vout.append({'v': fdp.ConsumeIntInRange(0, 2100000000000000), 'spk': _script(fdp, 8).hex()})
    return {'kind': 'tx', 'strict': False, 'tx': {'version': version, 'locktime': locktime, 'vin': vin, 'vout': vout}}


def check(ctx, case):
    from props import c06_roundtrip
    c06_roundtrip.check_tx(ctx, case)
