"""Fuzz target: raw bytes -> if the reference parser accepts them as a canonical transaction, the library must
parse (strict=False) and round-trip them (C06). Seed corpus: real transactions from the repository's tests."""
PROP = 'C06'


def decode(fdp):
    from ref import wire
    from props import txgen
    raw = fdp.ConsumeBytes(fdp.remaining_bytes())
    try:
        t = wire.Tx.parse(raw)
    except Exception:
        return None
    if not t.vout or not t.vin or t.serialize(force_witness=getattr(t, 'segwit_flag', False)) != raw:
        return None
    if getattr(t, 'segwit_flag', False) and not t.has_witness():
        return None
    if any(o.value < 0 for o in t.vout):
        return None      # negative amounts: the library reads the field unsigned, consensus rejects the transaction
    return {'kind': 'tx', 'strict': False, 'tx': txgen.case_from_tx(t)}


def check(ctx, case):
    from props import c06_roundtrip
    c06_roundtrip.check_tx(ctx, case)


def seed_corpus():
    import json
    import os
    from vlib import env
    out = []
    path = os.path.join(env.REPO_DIR, 'tests', 'transactions_raw.json')
    try:
        d = json.load(open(path))

        def walk(x):
            if isinstance(x, dict):
                for v in x.values():
                    walk(v)
            elif isinstance(x, (list, tuple)):
                for v in x:
                    walk(v)
            elif isinstance(x, str) and len(x) > 100:
                try:
                    out.append(bytes.fromhex(x))
                except ValueError:
                    pass
        walk(d)
    except Exception:
        pass
    return out
