"""Fuzz target: damaged checksummed strings -> C11 decoders with the strict reference decoders as oracle."""
PROP = 'C11'
_seeds = None
B58 = '123456789ABCDEFGHJKLMNPQRSTUVWXYZabcdefghijkmnopqrstuvwxyz'
B32 = 'qpzry9x8gf2tvdw0s3jn54khce6mua7l'
EXTRA = '0OIl bB1!-_'


def _mk_seeds():
    from ref import address as raddr, bip32, ec
    out = []
    nets = ['bitcoin', 'testnet', 'litecoin', 'dogecoin', 'bitcoinlib_test', 'regtest']
    for i, n in enumerate(nets):
        h = bytes([i + 1]) * 20
        out.append(('addr', raddr.addr_p2pkh(h, n), n))
        out.append(('addr', raddr.addr_p2sh(bytes(19) + bytes([i]), n), n))
        if not n.startswith('dogecoin'):
            out.append(('addr', raddr.addr_witness(0, h, n), n))
            out.append(('addr', raddr.addr_witness(1, bytes([i + 3]) * 32, n), n))
        out.append(('wif', raddr.wif(0x1234567 + i, n, True), n))
        out.append(('wif', raddr.wif(0x7654321 + i, n, False), n))
    m = bip32.master(bytes(range(16)))
    for n in ('bitcoin', 'testnet', 'litecoin'):
        for e in raddr.xkey_versions(n)[:4]:
            out.append(('xkey', m.xkey(e['version'], e['private']), n))
    return out


def decode(fdp):
    global _seeds
    if _seeds is None:
        _seeds = _mk_seeds()
    kind, s, net = _seeds[fdp.ConsumeIntInRange(0, len(_seeds) - 1)]
    chars = list(s)
    alpha = B32 if (kind == 'addr' and '1' in s[:5] and s[0] not in '123LMmn9ADQt') else B58
    for _ in range(fdp.ConsumeIntInRange(0, 3)):
        if not chars:
            break
        pos = fdp.ConsumeIntInRange(0, len(chars) - 1)
        op = fdp.ConsumeIntInRange(0, 4)
        c = (alpha + EXTRA)[fdp.ConsumeIntInRange(0, len(alpha) + len(EXTRA) - 1)]
        if op == 0:
            chars[pos] = c
        elif op == 1:
            chars.insert(pos, c)
        elif op == 2:
            del chars[pos]
        elif op == 3 and pos + 1 < len(chars):
            chars[pos], chars[pos + 1] = chars[pos + 1], chars[pos]
        else:
            chars[pos] = chars[pos].swapcase()
    s2 = ''.join(chars)
    if kind == 'addr':
        entry = fdp.PickValueInList(['addr_base58_to_pubkeyhash', 'addr_bech32_to_pubkeyhash', 'addr_to_pubkeyhash',
                                     'deserialize_address', 'Address.parse'])
    elif kind == 'wif':
        entry = fdp.PickValueInList(['Key', 'HDKey'])
    else:
        entry = fdp.PickValueInList(['HDKey', 'HDKey.from_wif'])
    return {'kind': kind, 's': s2, 'entry': entry, 'net': net if fdp.ConsumeBool() else None}


def check(ctx, case):
    from props import c11_checksums
    c11_checksums.DISPATCH[case['kind']](ctx, case)
