"""atheris driver: python -m fuzz.driver <target> --found DIR -- <libFuzzer args>

Each target module provides decode(fdp) -> case (JSON-able) and check(ctx, case) (raises Discrepancy). The
semantic oracle runs *inside* the target; a Discrepancy is written to DIR as a replay case and re-raised so
that libFuzzer stops and reports it. State is per-process; every check function is stateless.
"""
import hashlib
import json
import os
import sys
import time


def main():
    argv = sys.argv[1:]
    target_name = argv[0]
    found = argv[argv.index('--found') + 1]
    lf_args = argv[argv.index('--') + 1:]
    sys.path.insert(0, os.path.dirname(os.path.dirname(os.path.abspath(__file__))))
    from vlib import env
    env.activate('fuzz-%s' % target_name)
    import atheris
    with atheris.instrument_imports(include=['bitcoinlib.encoding', 'bitcoinlib.keys', 'bitcoinlib.scripts',
                                             'bitcoinlib.transactions', 'bitcoinlib.blocks', 'bitcoinlib.networks']):
        import bitcoinlib.transactions  # noqa
        import bitcoinlib.blocks  # noqa
    import logging
    logging.getLogger('bitcoinlib').setLevel(logging.CRITICAL)
    import importlib
    target = importlib.import_module('fuzz.t_' + target_name)
    from vlib.core import Ctx, Discrepancy
    from vlib.findings import load_findings
    ctx = Ctx(target.PROP, 'thorough', 0, 1, env.seed_int(), load_findings(target.PROP), time.time() + 10 ** 6)
    os.makedirs(found, exist_ok=True)
    stats = {'decoded': 0, 'nontrivial': 0}

    def _write_stats():
        with open(os.path.join(found, 'stats.json'), 'w') as f:
            json.dump({'decoded': stats['decoded'], 'known_hits': ctx.known_hits, 'refusals': ctx.refusals}, f)

    def test_one_input(data):
        fdp = atheris.FuzzedDataProvider(data)
        case = target.decode(fdp)
        if case is None:
            return
        stats['decoded'] += 1
        if stats['decoded'] % 500 == 0:
            _write_stats()
        try:
            target.check(ctx, case)
        except Discrepancy as d:
            if d.bucket in ctx.suppressed:
                return
            name = hashlib.sha1(d.bucket.encode()).hexdigest()[:12] + '.json'
            with open(os.path.join(found, name), 'w') as f:
                json.dump({'bucket': d.bucket, 'message': d.message, 'case': d.case}, f, default=str)
            ctx.suppressed.add(d.bucket)
            raise

    atheris.Setup([sys.argv[0]] + lf_args, test_one_input)
    atheris.Fuzz()      # does not return (libFuzzer exits the process)


if __name__ == '__main__':
    main()
