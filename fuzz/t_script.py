"""Fuzz target: script item sequence decoded from fuzzer bytes -> C18 script round-trip check."""
PROP = 'C18'
ENTRIES = ['parse', 'parse_bytes', 'parse_hex', 'parse_bytesio', 'parse_str_hex']


def decode(fdp):
    items = []
    for _ in range(fdp.ConsumeIntInRange(1, 14)):
        k = fdp.ConsumeIntInRange(0, 3)
        if k == 0:
            op = fdp.ConsumeIntInRange(0x4f, 0xff)
            items.append(op)
        elif k == 1:
            items.append(0)
        else:
            n = fdp.PickValueInList([1, 2, 3, 4, 20, 32, 33, 64, 65, 71, 72]) if k == 2 else fdp.ConsumeIntInRange(1, 90)
            items.append(fdp.ConsumeBytes(n).ljust(n, b'\x5a').hex())
    return {'kind': 'script', 'items': items, 'entry': fdp.PickValueInList(ENTRIES), 'strict': fdp.ConsumeBool()}


def check(ctx, case):
    from props import c18_wire
    c18_wire.check_script(ctx, case)
