"""C19 - Script.evaluate agrees with Bitcoin consensus for the opcodes the library implements.

Oracle: ref/interp (consensus rules, written from interpreter.cpp). The library's verdict comes from
evaluate() on the program; its final stack from a second run with an OP_1 sentinel appended (evaluate
pops the top element to decide validity).
"""
import itertools

from vlib.core import Discrepancy

LEVEL = 'exploration'
TECHNIQUE = ('exhaustive per-opcode stacks over a value alphabet + Hypothesis grammar programs with nested '
             'conditionals + reference-signed standard spends; differential against ref/interp')
RULE = ('(1) every opcode the library implements x all stacks of depth 0..arity+1 over the alphabet {"", 01, 02, 03, '
        '81, 00, 80, 7f, ff00, 0100, 5-byte, 20-byte}; (2) Hypothesis programs from a grammar with nested '
        'IF/NOTIF/ELSE/ENDIF (depth<=3), pushes and opcodes, length<=30 (thorough<=80); (3) P2PK, P2PKH, bare and '
        'P2SH-flattened m-of-n spends with real reference-made signatures in valid and broken variants; (4) '
        'CLTV/CSV against an env grid. Non-trivial: (1) depth>=2 or a non-minimal/negative-zero item, (2) a '
        'conditional and >=3 opcodes, (3)/(4) all; distinct by program + initial stack. [(1b) every opcode byte at top level / in a taken / in an untaken branch x 13 stacks; (1c) the four ordering-comparison methods called directly x all stacks of depth <= 3; grammar programs contain every other opcode byte as a rare atom] [a sub-range of a program may be wrapped into a nested command list] [alphabet and pushes include multi-byte zeros and negative zeros; CSV grid with meaningless sequence bits]')
ASSUMPTIONS = ['ref/interp.py implements consensus (no policy flags); opcodes for which Stack has no method may '
               'raise (reported as unimplemented)',
               'Script.evaluate flattens P2SH: OP_CHECKMULTISIG verifies and pushes env_data["redeemscript"]; bare '
               'multisig is therefore compared on the verdict and on the stack below that element only']
SHARDS = {'quick': 16, 'thorough': 16}
WALL_CAP = {'quick': 600, 'thorough': 3000}

ALPHABET = ['', '01', '02', '03', '81', '00', '80', '7f', 'ff00', '0100', '0102030405', '11' * 20, '0080']

# opcode -> arity used for the exhaustive part (stack depth explored = 0..arity+1)
UNARY = ['OP_VERIFY', 'OP_IFDUP', 'OP_DROP', 'OP_DUP', 'OP_SIZE', 'OP_1ADD', 'OP_1SUB', 'OP_NEGATE', 'OP_ABS',
         'OP_NOT', 'OP_0NOTEQUAL', 'OP_RIPEMD160', 'OP_SHA1', 'OP_SHA256', 'OP_HASH160', 'OP_HASH256', 'OP_DEPTH',
         'OP_NOP', 'OP_NOP1', 'OP_NOP4', 'OP_NOP10', 'OP_RETURN', 'OP_IF', 'OP_NOTIF']
BINARY = ['OP_2DROP', 'OP_2DUP', 'OP_NIP', 'OP_OVER', 'OP_SWAP', 'OP_TUCK', 'OP_EQUAL', 'OP_EQUALVERIFY', 'OP_ADD',
          'OP_SUB', 'OP_BOOLAND', 'OP_BOOLOR', 'OP_NUMEQUAL', 'OP_NUMEQUALVERIFY', 'OP_NUMNOTEQUAL', 'OP_MIN',
          'OP_MAX', 'OP_PICK', 'OP_ROLL']
TERNARY = ['OP_3DUP', 'OP_ROT', 'OP_WITHIN']
QUAD = ['OP_2OVER', 'OP_2SWAP']
HEX = ['OP_2ROT']

# findings: opcode -> finding id
OP_FINDINGS = {
    'OP_SUB': 'C19-op_sub-operand-order', 'OP_WITHIN': 'C19-op_within-operand-order',
    'OP_2SWAP': 'C19-op_2swap-order', 'OP_TUCK': 'C19-op_tuck-copy-not-inserted',
    'OP_PICK': 'C19-op_pick-roll-off-by-one', 'OP_ROLL': 'C19-op_pick-roll-off-by-one',
}


def _lib():
    from bitcoinlib.scripts import Script
    return Script


def _items(case_items):
    return [it if isinstance(it, int) else bytes.fromhex(it) for it in case_items]


def _nested(items, nest):
    """The command list with items[a:b] wrapped into a sub-list - the shape Script.parse gives a pushed redeem script
    and Script() accepts from callers; evaluation is defined on the flattened list."""
    if not nest:
        return list(items)
    a = nest[0] % (len(items) + 1)
    b = min(len(items), a + nest[1])
    if b <= a:
        return list(items)
    return list(items[:a]) + [list(items[a:b])] + list(items[b:])


_AGAIN = None


def _run_lib(items, message, env, nest=None):
    """-> (verdict: True/False/'raise', exception, final_stack or None)"""
    Script = _lib()
    flat = items
    items = _nested(items, nest)
    s = None
    try:
        s = Script(list(items))
        v = s.evaluate(message=message, env_data=dict(env) if env is not None else None)
        verdict, exc = bool(v), None
    except Exception as e:
        verdict, exc = 'raise', e
    # the same object evaluated once more: a verdict is a function of program, message and environment, not of what an
    # earlier evaluation left behind
    global _AGAIN
    _AGAIN = None
    if s is not None:
        try:
            first_stack = [bytes(x) for x in s.stack]
        except Exception:
            first_stack = None
        try:
            v2 = s.evaluate(message=message, env_data=dict(env) if env is not None else None)
            verdict2 = bool(v2)
        except Exception as e:
            verdict2 = 'raise'
        try:
            second_stack = [bytes(x) for x in s.stack]
        except Exception:
            second_stack = None
        if verdict2 != verdict:
            _AGAIN = 'first evaluation %r, second evaluation of the same object %r' % (verdict, verdict2)
        elif verdict is True and first_stack != second_stack:
            _AGAIN = 'stack after the first evaluation %r, after the second %r' % (first_stack, second_stack)
    stack = None
    try:
        s2 = Script(list(items) + [0x51])
        if s2.evaluate(message=message, env_data=dict(env) if env is not None else None):
            stack = [bytes(x) for x in s2.stack]
    except Exception:
        stack = None
    return verdict, exc, stack


def _wrong_model(opname, stack):
    """The exact wrong function observed for the recorded findings: returns the final stack the library is
    known to produce for `stack` (list of bytes, top last), or None if no model applies / it would fail."""
    from ref.wire import scriptnum_decode as dec, scriptnum_encode as enc
    st = list(stack)
    try:
        if opname == 'OP_SUB':
            if len(st) < 2 or len(st[-1]) > 4 or len(st[-2]) > 4:
                return None
            b = st.pop()
            a = st.pop()
            return st + [enc(dec(b) - dec(a))]          # top - second
        if opname == 'OP_WITHIN':
            if len(st) < 3 or any(len(x) > 4 for x in st[-3:]):
                return None
            x = dec(st.pop())
            vmin = dec(st.pop())
            vmax = dec(st.pop())
            return st + [b'\x01' if vmin <= x < vmax else b'']   # reads (max min x) instead of (x min max)
        if opname == 'OP_2SWAP':
            if len(st) < 2:
                return None
            a = st.pop()
            b = st.pop()
            st[-2:-2] = [a, b]          # x1 x2 x3 x4 -> x4 x3 x1 x2; no failure below four items
            return st
        if opname == 'OP_TUCK':
            if len(st) < 2:
                return None
            return st + [st[-2]]                        # x1 x2 -> x1 x2 x1
        if opname in ('OP_PICK', 'OP_ROLL'):
            if len(st) < 1:
                return None
            n = dec(st.pop())
            if n == 0:
                idx = 0                                  # -0 == 0 addresses the bottom
            else:
                idx = -n
            v = st[idx]
            if opname == 'OP_ROLL':
                st.pop(idx)
            return st + [v]
    except (IndexError, ValueError):
        return None
    return None


def check_program(ctx, case):
    """Generic differential: verdict and final stack of one program."""
    from ref import interp
    items = _items(case['items'])
    message = bytes.fromhex(case['message']) if case.get('message') else None
    env = case.get('env')
    checker = None
    if message is not None or env is not None:
        e = env or {}
        checker = _EnvChecker(message, e)
    ref_ok, ref_stack, ref_why = interp.eval_items(items, checker)
    ref_exec_ok = ref_ok or ref_why in ('empty stack', 'false on top')
    verdict, exc, lib_stack = _run_lib(items, message, env, case.get('nest'))
    if _AGAIN is not None:
        raise Discrepancy('evaluated-twice:%s' % (case.get('single_op') or case.get('tag') or 'program'),
                          '%s for %s' % (_AGAIN, _show(items)), case)
    ops = [interp.NAMES.get(i, '%#x' % i) for i in items if isinstance(i, int)]
    finding_ops = sorted(set(OP_FINDINGS[o] for o in ops if o in OP_FINDINGS))
    kf = finding_ops[0] if len(finding_ops) == 1 else None
    # the exact-wrong-function requirement for single-opcode cases
    if kf is not None and case.get('single_op'):
        pre = [it for it in items[:-1]]
        model = _wrong_model(case['single_op'], [p for p in pre])
        if model is None or lib_stack is None or lib_stack != model:
            kf = None
    lib_impl = not (verdict == 'raise' and _is_unimplemented(exc))
    tag = case.get('single_op') or case.get('tag') or 'program'
    if verdict is True and not ref_ok:
        ctx.disc('reported-valid:%s' % tag, 'library reports valid, consensus rejects (%s): %s' %
                 (ref_why, _show(items)), case, kf=kf)
        return
    if not lib_impl:
        ctx.klass('unimplemented.' + str(exc)[:40])
        return
    if verdict is not True and ref_ok:
        ctx.disc('reported-invalid:%s' % tag, 'library verdict %r (%r), consensus accepts: %s' %
                 (verdict, exc, _show(items)), case, kf=kf)
        return
    if ref_exec_ok and lib_stack is not None and not case.get('skip_stack'):
        if lib_stack != ref_stack:
            ctx.disc('stack:%s' % tag, 'final stack %s, consensus %s for %s' %
                     ([x.hex() for x in lib_stack], [x.hex() for x in ref_stack], _show(items)), case, kf=kf)
            return
    if ref_exec_ok and lib_stack is None and verdict is not True and not ref_ok:
        # both invalid; the library failed during execution where consensus only ends with a false top.
        ctx.klass('exec_fail_vs_false_top')


def _is_unimplemented(exc):
    return exc is not None and ('not found' in str(exc) or isinstance(exc, KeyError))


def _show(items):
    from ref import interp
    return ' '.join(interp.NAMES.get(i, '%#x' % i) if isinstance(i, int) else i.hex() or "''" for i in items)


class _EnvChecker(object):
    """Consensus checker for Script.evaluate's inputs: fixed digest + env_data (sequence, locktime, version)."""

    def __init__(self, message, env):
        from ref import interp
        self.inner = interp.DigestChecker(message or bytes(32))
        self.env = env

    def check_sig(self, sig, pub, script_code, sigversion):
        return self.inner.check_sig(sig, pub, script_code, sigversion)

    def check_locktime(self, n):
        tl = self.env.get('locktime') or 0
        seq = self.env.get('sequence', 0xffffffff)
        T = 500000000
        if not ((tl < T and n < T) or (tl >= T and n >= T)):
            return False
        if n > tl:
            return False
        return seq != 0xffffffff

    def check_sequence(self, n):
        seq = self.env.get('sequence', 0xffffffff)
        ver = self.env.get('version', 1)
        if ver < 2:
            return False
        if seq & (1 << 31):
            return False
        mask = (1 << 22) | 0xffff
        a, b = seq & mask, n & mask
        if not ((a < (1 << 22) and b < (1 << 22)) or (a >= (1 << 22) and b >= (1 << 22))):
            return False
        return b <= a


# ---- (1) exhaustive single opcode ----------------------------------------------------------------

def single_op_cases():
    from ref import interp
    out = []
    for names, arity in ((UNARY, 1), (BINARY, 2), (TERNARY, 3), (QUAD, 4), (HEX, 6)):
        for name in names:
            code = interp.OP[name]
            maxd = arity + 1 if arity <= 3 else arity
            for depth in range(0, maxd + 1):
                alpha = ALPHABET if depth <= 3 else ALPHABET[:4] if depth <= 4 else ALPHABET[:2]
                for stack in itertools.product(alpha, repeat=depth):
                    tail = [code]
                    if name in ('OP_IF', 'OP_NOTIF'):
                        tail = [code, 0x52, 0x67, 0x53, 0x68]      # IF 2 ELSE 3 ENDIF
                    out.append((name, list(stack), tail))
    return out


def run_single(ctx):
    cases = single_op_cases()
    mine = cases[ctx.shard::ctx.nshards]
    for name, stack, tail in mine:
        case = {'kind': 'program', 'single_op': name, 'items': list(stack) + tail}
        if len(stack) >= 2 or any(s in ('00', '80', 'ff00', '0100') for s in stack):
            ctx.nt(('single', name, stack))
        ctx.klass('single.' + name)
        ctx.guard(lambda c: check_program(ctx, c), case)
    ctx.exhaustive('per-opcode stacks over the alphabet')
    if ctx.shard == 0:
        ctx.sample({'kind': 'program', 'single_op': 'OP_SUB', 'items': ['02', '05', 0x94]})
        ctx.note('single_op_cases_total', len(cases))


def opbyte_cases():
    """(1b) every opcode byte (not only the ones the library implements), executed at top level, inside a taken branch
    and inside a branch that is not taken, on every stack of depth 0..2 over {"", 01, 02}: consensus fails reserved and
    unknown opcodes when executed, fails disabled opcodes and OP_VERIF/OP_VERNOTIF wherever they appear, and treats
    OP_NOP1..10 as no-ops."""
    out = []
    small = ['', '01', '02']
    stacks = [[]] + [[a] for a in small] + [[a, b] for a in small for b in small]
    for op in [0x00] + list(range(0x4f, 0x100)):
        if 0xac <= op <= 0xaf or op in (0xb1, 0xb2):
            continue                # need a message / env_data: sub-checks (3) and (4)
        for stack in stacks:
            out.append((op, 'top', stack + [op]))
            out.append((op, 'taken', stack + [0x51, 0x63, op, 0x68]))
            out.append((op, 'untaken', stack + [0x00, 0x63, op, 0x68, 0x51]))
            if len(stack) < 2:
                # the same inside a nested command list (pushed redeem script)
                out.append((op, 'untaken_nested', stack + [0x00, 0x63, op, 0x68, 0x51], (len(stack), 4)))
                out.append((op, 'taken_nested', stack + [0x51, 0x63, op, 0x68], (len(stack) + 1, 2)))
    return out


def run_opbytes(ctx):
    cases = opbyte_cases()
    for entry in cases[ctx.shard::ctx.nshards]:
        op, where, items = entry[:3]
        case = {'kind': 'program', 'tag': 'opbyte.%s' % where, 'items': items}
        if len(entry) > 3:
            case['nest'] = list(entry[3])
        ctx.nt(('opbyte', op, where, tuple(items)))
        ctx.klass('opbyte.' + where)
        ctx.guard(lambda c: check_program(ctx, c), case)
    ctx.exhaustive('every opcode byte 0x00, 0x4f..0xff x 13 stacks x {top level, taken branch, untaken branch}')


# ---- (2) grammar programs -------------------------------------------------------------------------

def program_strategy(ctx):
    from hypothesis import strategies as st
    from ref import interp
    excluded = set(o for o, f in OP_FINDINGS.items() if ctx.known_active(f))
    names = [n for n in UNARY + BINARY + TERNARY + QUAD + HEX
             if n not in excluded and n not in ('OP_IF', 'OP_NOTIF', 'OP_RETURN')]
    for o in excluded:
        ctx.exclude('program.opcode.' + o, 0)
    ops = st.sampled_from([interp.OP[n] for n in names])
    push = st.one_of(st.sampled_from([0x00, 0x4f, 0x51, 0x52, 0x53, 0x54, 0x60]),
                     st.sampled_from(ALPHABET[1:]), st.binary(min_size=1, max_size=5).map(bytes.hex),
                     # zeros and negative zeros of several lengths (false for every truth test, whatever their length)
                     st.sampled_from(['0000', '000080', '00000080', '00' * 19 + '80', '00' * 20, '0000000000']))
    # every other opcode byte now and then: reserved, disabled, unknown, upgradable NOPs, alt stack, OP_CODESEPARATOR
    # (consensus fails some of them only when executed, others wherever they appear)
    listed = set(interp.OP[n] for n in UNARY + BINARY + TERNARY + QUAD + HEX)
    rare = st.sampled_from([b for b in [0x50] + list(range(0x61, 0x100))
                            if b not in listed and b not in (0x63, 0x64, 0x67, 0x68) and
                            # signature and timelock opcodes need a message / env_data: sub-checks (3) and (4)
                            not 0xac <= b <= 0xaf and b not in (0xb1, 0xb2)])
    atom = st.one_of(push, push, push, push, ops, ops, ops, ops, rare)
    max_len = ctx.scale(30, 80)

    def block(depth):
        if depth == 0:
            return st.lists(atom, min_size=0, max_size=6)
        inner = block(depth - 1)
        # (zero, one or several OP_ELSE: every one of them switches the branch being executed)
        cond = st.tuples(push, st.sampled_from([0x63, 0x64]), inner, st.sampled_from([0, 1, 1, 1, 2, 3]), inner, inner,
                         inner).map(
            lambda t: [t[0], t[1]] + t[2] + [x for seg in (t[4], t[5], t[6])[:t[3]] for x in [0x67] + seg] + [0x68])
        return st.lists(st.one_of(atom, atom, atom, cond), min_size=0, max_size=6).map(
            lambda parts: [x for p in parts for x in (p if isinstance(p, list) else [p])])
    nest = st.one_of(st.none(), st.none(), st.tuples(st.integers(0, 40), st.integers(1, 12)).map(list))
    return st.tuples(block(3).map(lambda items: items[:max_len]).filter(lambda items: len(items) > 0), nest).map(
        lambda t: dict({'kind': 'program', 'tag': 'program', 'items': t[0]}, **({'nest': t[1]} if t[1] else {})))


def _balanced(items):
    d = 0
    for it in items:
        if it in (0x63, 0x64):
            d += 1
        elif it == 0x68:
            d -= 1
            if d < 0:
                return False
    return d == 0


# ---- (3) standard spends with real signatures -----------------------------------------------------

def spend_case(kind, variant, secrets, m, digest_hex):
    """Build a flattened script the way the library's own callers do (unlocking + [redeem] + locking)."""
    from ref import ec, interp
    from ref.address import script_multisig
    from ref.hashes import hash160
    digest = bytes.fromhex(digest_hex)
    pubs = [ec.ser_compressed(ec.pubkey(d)) for d in secrets]

    def sig(d, dg=digest):
        r, s = ec.sign(dg, d)
        return ec.der_encode(r, s) + b'\x01'
    env = None
    if kind == 'p2pk':
        s0 = sig(secrets[0])
        if variant == 'wrong_sig':
            s0 = sig(secrets[0], bytes(31) + b'\x07')
        elif variant == 'wrong_key':
            s0 = sig(secrets[0] + 1)
        items = [s0, pubs[0], 0xac]
        if variant == 'empty_sig_not':
            # consensus: an empty signature makes OP_CHECKSIG push false (it does not abort the script); with a
            # following OP_NOT the script succeeds
            items = [b'', pubs[0], 0xac, 0x91]
        elif variant == 'empty_sig':
            items = [b'', pubs[0], 0xac]
    elif kind == 'p2pkh':
        s0 = sig(secrets[0])
        pk = pubs[0]
        h = hash160(pubs[0])
        if variant == 'wrong_sig':
            s0 = sig(secrets[0], bytes(31) + b'\x07')
        elif variant == 'wrong_key':
            s0 = sig(secrets[0] + 1)
        elif variant == 'wrong_hash':
            h = hash160(pubs[0] + b'x')
        items = [s0, pk, 0x76, 0xa9, h, 0x88, 0xac]
        if variant == 'empty_sig_not':
            items = [b'', pk, 0x76, 0xa9, h, 0x88, 0xac, 0x91]
    else:
        n = len(secrets)
        signers = list(range(m))
        if variant == 'last_m':
            signers = list(range(n - m, n))
        sigs = [sig(secrets[i]) for i in signers]
        if variant == 'wrong_order' and m >= 2:
            sigs = sigs[::-1]
        elif variant == 'wrong_sig':
            sigs[0] = sig(secrets[signers[0]], bytes(31) + b'\x07')
        elif variant == 'missing_sig':
            sigs = sigs[:-1]
        elif variant == 'outsider':
            sigs[-1] = sig(secrets[-1] + 12345)
        redeem_items = [0x50 + m] + pubs + [0x50 + n, 0xae]
        redeem = script_multisig(m, pubs)
        dummy = [] if variant == 'missing_dummy' else [0x00]
        if kind == 'bare_ms':
            items = dummy + sigs + redeem_items
            env = {'redeemscript': redeem}
        else:   # p2sh flattened: unlocking (dummy sigs) + redeem commands + HASH160 <h> EQUAL
            items = dummy + sigs + redeem_items + [0xa9, hash160(redeem), 0x87]
            env = {'redeemscript': redeem}
    return {'kind': 'spend', 'spend': kind, 'variant': variant, 'm': m,
            'items': [i if isinstance(i, int) else i.hex() for i in items], 'message': digest_hex,
            'env': {k: v.hex() for k, v in env.items()} if env else None}


def check_spend(ctx, case):
    """Verdict only (the library's CHECKMULTISIG pushes the redeem script, a documented flattening)."""
    from ref import interp
    items = _items(case['items'])
    message = bytes.fromhex(case['message'])
    env = {k: bytes.fromhex(v) for k, v in case['env'].items()} if case.get('env') else None
    # consensus verdict: for the flattened P2SH form evaluate unlocking+redeem, then the hash check separately
    if case['spend'] == 'p2sh_ms':
        body = items[:-3]
        ok1, st1, why = interp.eval_items(body, interp.DigestChecker(message))
        from ref.hashes import hash160
        ok = ok1 and hash160(env['redeemscript']) == items[-2]
    else:
        ok, st1, why = interp.eval_items(items, interp.DigestChecker(message))
    verdict, exc, _ = _run_lib(items, message, env)
    tag = '%s.%s' % (case['spend'], case['variant'])
    if verdict is True and not ok:
        kf = None
        if case['variant'] == 'missing_dummy':
            kf = 'C19-checkmultisig-dummy-not-required'
        ctx.disc('spend.reported-valid:' + tag, 'library accepts %s, consensus rejects (%s)' % (tag, why), case, kf=kf)
    elif verdict is not True and ok:
        ctx.disc('spend.reported-invalid:' + tag, 'library verdict %r (%r) on a valid %s spend' % (verdict, exc, tag),
                 case)


# ---- (4) CLTV / CSV grid --------------------------------------------------------------------------

def timelock_cases():
    from ref.wire import scriptnum_encode as enc
    out = []
    locks = [0, 1, 100, 49999999, 50000000, 50000001, 499999999, 500000000, 500000001, 1700000000]
    for op, name in ((0xb1, 'cltv'), (0xb2, 'csv')):
        for n in locks + [-1, (1 << 31), (1 << 22) | 5, 5, 10, 65535, (1 << 22) | 16]:
            for tl in [0, 1, 100, 50000000, 499999999, 500000000, 1700000000]:
                # (sequence numbers also with bits BIP68 gives no meaning: 16..21 and 23..30 - consensus masks them away)
                for seq in [0xffffffff, 0xfffffffe, 0, 5, (1 << 22) | 5, (1 << 31) | 5] + \
                        ([0x00010005, 0x20000005, 0x003f0000, 0x10400005, 0x7fbf0064, 0x0001ffff]
                         if name == 'csv' and tl in (0, 500000000) else []):
                    for ver in ([1, 2] if name == 'csv' else [2]):
                        out.append({'kind': 'program', 'tag': name, 'skip_stack': False,
                                    'items': [enc(n).hex() if n else 0x00, op],
                                    'env': {'sequence': seq, 'locktime': tl, 'version': ver}})
        # operands longer than the five bytes these opcodes read as a number (consensus: script number overflow)
        for operand in ('010000000000', '050000000000', '0a00000000000000', '000000000001'):
            for tl, seq in ((10, 0), (10, 5), (500000000, 0), (1700000000, (1 << 22) | 5)):
                out.append({'kind': 'program', 'tag': name, 'skip_stack': False, 'items': [operand, op],
                            'env': {'sequence': seq, 'locktime': tl, 'version': 2}})
    return out


def check_timelock(ctx, case):
    kf = None
    if case['tag'] == 'csv':
        kf = 'C19-csv-not-implemented'
    elif case['tag'] == 'cltv':
        kf = 'C19-cltv-deviations'
    try:
        check_program(ctx, case)
    except Discrepancy as d:
        ctx.disc(d.bucket, d.message, d.case, kf=kf)


# ---- (1c) comparison methods that evaluate() cannot reach under their consensus opcode name ----------------------

KF_COMPARE = 'C19-comparison-operand-order'
METHOD_OPS = {'op_numlessthan': 'OP_LESSTHAN', 'op_numgreaterthan': 'OP_GREATERTHAN',
              'op_numlessthanorequal': 'OP_LESSTHANOREQUAL', 'op_numgreaterthanorequal': 'OP_GREATERTHANOREQUAL'}


def check_method(ctx, case):
    """The library implements the four ordering comparisons as Stack.op_num* methods (the dispatch loop looks for
    op_lessthan etc. and reports them missing). They are compared with the consensus opcode they implement by calling
    the method on a stack directly: same stack afterwards, or failure where consensus fails."""
    from ref import interp
    from bitcoinlib.scripts import Stack
    stack = [bytes.fromhex(x) for x in case['stack']]
    code = interp.OP[METHOD_OPS[case['method']]]
    ref_ok, ref_stack, why = interp.eval_items(list(stack) + [code, 0x51])
    ref_after = ref_stack[:-1] if ref_ok else None
    st = Stack(list(stack))
    try:
        res = getattr(st, case['method'])()
        lib_after = [bytes(x) for x in st] if res is not False else None
        exc = None
    except Exception as e:
        lib_after, exc = None, e
    if lib_after == ref_after:
        return
    kf = None
    if len(stack) >= 2:
        swapped = list(stack[:-2]) + [stack[-1], stack[-2]]
        ok2, st2, _ = interp.eval_items(swapped + [code, 0x51])
        if (st2[:-1] if ok2 else None) == lib_after:
            kf = KF_COMPARE
    show = lambda v: None if v is None else [x.hex() for x in v]
    ctx.disc('method:%s' % case['method'], 'Stack(%s).%s() leaves %s (%r), consensus %s leaves %s' %
             (show(stack), case['method'], show(lib_after), exc, METHOD_OPS[case['method']], show(ref_after)),
             case, kf=kf)


def run_methods(ctx):
    n = 0
    for method in sorted(METHOD_OPS):
        for depth in range(0, 4):
            for stack in itertools.product(ALPHABET, repeat=depth):
                n += 1
                if n % ctx.nshards != ctx.shard:
                    continue
                case = {'kind': 'method', 'method': method, 'stack': list(stack)}
                if depth >= 2:
                    ctx.nt(('method', method, stack))
                ctx.klass('method.' + method)
                ctx.guard(lambda c: check_method(ctx, c), case)
    ctx.exhaustive('ordering comparison methods x all stacks of depth 0..3 over the alphabet')


DISPATCH = {'program': check_program, 'spend': check_spend, 'method': check_method}


def replay(ctx, case):
    if case.get('tag') in ('cltv', 'csv'):
        check_timelock(ctx, case)
    else:
        DISPATCH[case['kind']](ctx, case)


def probes(ctx):
    saved = ctx.findings
    ctx.findings = {}
    plist = [
        ('C19-op_sub-operand-order', {'kind': 'program', 'single_op': 'OP_SUB', 'items': ['02', '05', 0x94]},
         'OP_SUB computes top - second: 2 5 OP_SUB leaves 3 instead of -3 (pinned by tests/test_script.py)'),
        ('C19-op_within-operand-order', {'kind': 'program', 'single_op': 'OP_WITHIN', 'items': ['02', '01', '03', 0xa5]},
         'OP_WITHIN reads its operands as (max min x): 2 1 3 OP_WITHIN is false (pinned by tests)'),
        ('C19-op_2swap-order', {'kind': 'program', 'single_op': 'OP_2SWAP', 'items': ['01', '02', '03', '04', 0x72]},
         'OP_2SWAP leaves x4 x3 x1 x2 instead of x3 x4 x1 x2 (pinned by tests)'),
        ('C19-op_tuck-copy-not-inserted', {'kind': 'program', 'single_op': 'OP_TUCK', 'items': ['01', '02', 0x7d]},
         'OP_TUCK leaves x1 x2 x1 instead of x2 x1 x2 (pinned by tests)'),
        ('C19-op_pick-roll-off-by-one', {'kind': 'program', 'single_op': 'OP_PICK', 'items': ['01', '02', '03', '01', 0x79]},
         'OP_PICK/OP_ROLL index from 1 (n=1 is the top, n=0 the bottom) instead of 0 = top (pinned by tests)'),
    ]
    pl2 = spend_case('p2sh_ms', 'missing_dummy', [11, 22, 33], 2, '43' * 32)
    plist.append((KF_COMPARE, {'kind': 'method', 'method': 'op_numlessthan', 'stack': ['01', '02']},
                  'Stack.op_numlessthan (and the other three ordering comparisons) compare top OP second: on 1 2 it '
                  'leaves false where 1 2 OP_LESSTHAN is true (pinned by tests/test_script.py)'))
    plist.append(('C19-checkmultisig-dummy-not-required', pl2,
                  'OP_CHECKMULTISIG succeeds without the extra (dummy) element (pinned by tests)'))
    try:
        for fid, case, what in plist:
            try:
                replay(ctx, case)
                ctx.probe(fid, False, what)
            except Discrepancy:
                ctx.probe(fid, True, what)
    finally:
        ctx.findings = saved


def run(ctx):
    from hypothesis import strategies as st
    from vlib import gen

    run_single(ctx)
    run_opbytes(ctx)
    run_methods(ctx)

    def prop_program(case):
        items = case['items']
        n_ops = sum(1 for i in items if isinstance(i, int) and i > 0x60)
        has_cond = any(i in (0x63, 0x64) for i in items if isinstance(i, int))
        if has_cond and n_ops >= 3:
            ctx.nt(('program', items))
            ctx.klass('program.conditional')
        ctx.klass('program.len>=10' if len(items) >= 10 else 'program.len<10')
        if len(ctx.samples) < 4 and has_cond:
            ctx.sample(case)
        check_program(ctx, case)

    ctx.run_given('program', program_strategy(ctx), prop_program, ctx.scale(1500, 60000))

    # (3) spends
    variants = {'p2pk': ['valid', 'wrong_sig', 'wrong_key', 'empty_sig_not', 'empty_sig'],
                'p2pkh': ['valid', 'wrong_sig', 'wrong_key', 'wrong_hash', 'empty_sig_not'],
                'bare_ms': ['valid', 'last_m', 'wrong_order', 'wrong_sig', 'missing_sig', 'outsider', 'missing_dummy'],
                'p2sh_ms': ['valid', 'last_m', 'wrong_order', 'wrong_sig', 'missing_sig', 'outsider', 'missing_dummy']}

    spend_strat = st.sampled_from(sorted(variants)).flatmap(
        lambda kind: st.tuples(st.just(kind), st.sampled_from(variants[kind]),
                               st.lists(gen.secrets().filter(lambda d: d < gen.N - 20000), min_size=3, max_size=3,
                                        unique=True),
                               st.integers(1, 3), st.binary(min_size=32, max_size=32)))

    def prop_spend(t):
        kind, variant, secrets, m, digest = t
        if kind in ('p2pk', 'p2pkh'):
            m = 1
        case = spend_case(kind, variant, secrets, m, digest.hex())
        ctx.nt(('spend', case['items']))
        ctx.klass('spend.%s.%s' % (kind, variant))
        if ctx.classes.get('spend.samples', 0) < 2:
            ctx.klass('spend.samples')
            ctx.sample(case)
        check_spend(ctx, case)
    ctx.run_given('spend', spend_strat, prop_spend, ctx.scale(60, 2000))

    # (4) timelocks
    tl = timelock_cases()
    for case in tl[ctx.shard::ctx.nshards]:
        ctx.nt(('timelock', case['items'], case['env']))
        ctx.klass('timelock.' + case['tag'])
        ctx.guard(lambda c: check_timelock(ctx, c), case)
    ctx.exhaustive('CLTV/CSV env grid')
