"""C05 - address <-> locking script mapping is standard and mutually inverse for P2PKH / P2SH / P2WPKH / P2WSH /
P2TR on every network; an address of a different network than the transaction is refused.

Oracle: reference script templates and address encoders of ref/address (pinned network table), independent of
bitcoinlib.  Both compositions (address -> script -> address, script -> address -> script) are checked against
the reference values, not against each other only.
"""
from vlib.core import Discrepancy

LEVEL = 'exploration'
TECHNIQUE = ('exhaustive finite matrix (network x type x route x payload class x API, network pairs, witness '
             'versions) + Hypothesis random payloads, differential against reference templates / encoders')
RULE = ('Forward: an output is built through Output(...) and Transaction.add_output(...) from an address string, an '
        'Address object (constructed or parsed), an HDKey, a public key, a public hash + script type, or a raw '
        'locking script, for each of the 11 pinned networks and P2PKH/P2SH/P2WPKH/P2WSH/P2TR with payload classes '
        '(pattern, leading zeros, all-zero, all-ones, ASCII-hex-looking, random); lock_script, address and '
        'script_type must equal the reference template / encoder, and feeding the produced script resp. address '
        'back must return the same address resp. script.  Witness versions 0..16 with programme lengths 2/20/32/40: '
        'refusal or exactly the BIP141 script OP_n <programme>.  Cross-network: every ordered pair of networks x '
        'type x route; accepted iff the pinned tables share the prefix / HRP, otherwise an exception is demanded. '
        'Non-trivial = non-bitcoin network, or witness version >= 1, or a route other than the address string, or a '
        'cross-network pair; distinct by (kind, route, api, networks, type, payload). [the lock_script route also through Output.parse and Transaction.parse / parse_hex / parse_bytesio of a transaction serialised with and without witness form] [key routes: the key object may have been asked for another address form before]')
ASSUMPTIONS = [
    'ref/address.py templates and encoders are correct (self-tested); ref/networks_pinned.json is the intended table',
    'networks that share a prefix / HRP are interchangeable for that address type (set semantics)',
    'Output(public_key=...) without script_type may choose P2PKH or P2WPKH; whichever type it reports must be '
    'consistent with script and address',
    'HDKey route: witness_type legacy -> P2PKH, segwit -> P2WPKH, p2sh-segwit -> P2SH(P2WPKH) of the compressed key',
    'for witness programmes that are not a standard destination (v1 with length != 32, v >= 2) refusal is allowed',
]
SHARDS = {'quick': 16, 'thorough': 16}
WALL_CAP = {'quick': 600, 'thorough': 3000}

TYPES = ['p2pkh', 'p2sh', 'p2wpkh', 'p2wsh', 'p2tr']
PLEN = {'p2pkh': 20, 'p2sh': 20, 'p2wpkh': 20, 'p2wsh': 32, 'p2tr': 32}
FWD_ROUTES = ['address', 'address_obj', 'address_parsed', 'public_hash', 'lock_script']
KEY_ROUTES = ['hdkey', 'hdkey_public', 'hdkey_address_obj', 'key_address_obj', 'public_key']
PRES = ['p2wpkh', 'p2pkh', 'p2sh_p2wpkh', 'uncompressed', 'address_obj']
PARSE_APIS = ['output_parse', 'tx_parse', 'tx_parse_witness_form', 'tx_parse_hex', 'tx_parse_hex_witness_form',
              'tx_parse_bytesio', 'tx_parse_bytesio_witness_form',
              # the network handed over as a Network object (what the service providers and the block reader do)
              'tx_parse_netobj', 'tx_parse_hex_netobj', 'tx_parse_bytesio_netobj', 'output_parse_netobj',
              # the transaction inside a block, read by either of the block readers
              'block_parse', 'block_parse_transactions']
HEXCHARS = frozenset(b'0123456789abcdefABCDEF')
VALUE = 100000

_CACHE = {}


def _lib():
    if 'lib' not in _CACHE:
        import bitcoinlib.keys as keys
        import bitcoinlib.transactions as tr

        class L(object):
            pass
        lib = L()
        lib.keys = keys
        lib.tr = tr
        _CACHE['lib'] = lib
    return _CACHE['lib']


def _call(fn):
    try:
        return True, fn()
    except Exception as e:
        return False, e


def _hexlike(b):
    return len(b) > 0 and all(c in HEXCHARS for c in b)


def _share(kind, a, b):
    """Do networks a and b share the prefix / HRP of address type `kind` in the pinned table?"""
    from ref import address as A
    if kind == 'p2pkh':
        return A.prefix_p2pkh(a) == A.prefix_p2pkh(b)
    if kind == 'p2sh':
        return A.prefix_p2sh(a) == A.prefix_p2sh(b)
    return A.hrp(a) == A.hrp(b)


def _make_output(api, net, **kw):
    """Build the output through Output(...) or Transaction(network).add_output(...)."""
    lib = _lib()
    if api in PARSE_APIS:
        # the output as it comes out of a parsed transaction: the script is all the library gets
        if set(kw) != {'lock_script'}:
            raise ValueError('parsed outputs are built from a locking script only')
        from io import BytesIO
        from ref import wire
        script = bytes(kw['lock_script'])
        if api.endswith('_netobj'):
            from bitcoinlib.networks import Network
            net = Network(net)
        if api.startswith('output_parse'):
            return lib.tr.Output.parse(BytesIO(wire.TxOut(VALUE, script).serialize()), network=net)
        segwit_form = api.endswith('_witness_form')
        vin = wire.TxIn(bytes(range(32)), 1, b'' if segwit_form else b'\x01\x51', 0xfffffffd,
                        [b'\x30\x06\x02\x01\x01\x02\x01\x01\x01', b'\x02' + bytes(range(1, 33))] if segwit_form else None)
        other = wire.TxOut(VALUE + 1, b'\x76\xa9\x14' + bytes(range(20)) + b'\x88\xac')
        tx = wire.Tx(2, [vin], [other, wire.TxOut(VALUE, script)], 0)
        raw = tx.serialize()
        if api.startswith('block_parse'):
            import bitcoinlib.blocks as blocks
            header = (1).to_bytes(4, 'little') + bytes(32) + bytes(range(32)) + (1600000000).to_bytes(4, 'little') + \
                bytes.fromhex('ffff001d') + bytes(4)
            rawblock = header + b'\x01' + raw
            if api == 'block_parse':
                b = blocks.Block.parse(rawblock, parse_transactions=True, network=net)
            else:
                b = blocks.Block.parse(rawblock, network=net)
                b.parse_transactions()
            return b.transactions[0].outputs[1]
        if api.startswith('tx_parse_hex'):
            t = lib.tr.Transaction.parse_hex(raw.hex(), strict=False, network=net)
        elif api.startswith('tx_parse_bytesio'):
            t = lib.tr.Transaction.parse_bytesio(BytesIO(raw), strict=False, network=net)
        else:
            t = lib.tr.Transaction.parse(raw, strict=False, network=net)
        return t.outputs[1]
    if api == 'add_output':
        for k in ('script_type', 'witver', 'witness_type'):
            if k in kw:
                raise ValueError('add_output has no %s argument' % k)
        tx = lib.tr.Transaction(network=net)
        tx.add_output(VALUE, **kw)
        return tx.outputs[-1]
    return lib.tr.Output(VALUE, network=net, **kw)


def _observe(o):
    return bytes(o.lock_script), o.address, o.script_type, o.network.name


# ---- forward / backward on standard destinations ------------------------------------------------

def _key_expect(kind, pub, net):
    """(script, address, reported type) for key routes."""
    from ref import address as A
    from ref.hashes import hash160
    h = hash160(pub)
    if kind == 'p2pkh':
        return A.script_p2pkh(h), A.addr_p2pkh(h, net), 'p2pkh'
    if kind == 'p2wpkh':
        return A.script_p2wpkh(h), A.addr_witness(0, h, net), 'p2wpkh'
    if kind == 'p2sh_p2wpkh':
        rh = hash160(A.script_p2wpkh(h))
        return A.script_p2sh(rh), A.addr_p2sh(rh, net), 'p2sh'
    raise ValueError(kind)


def check_fwd(ctx, case):
    from ref import address as A, ec
    lib = _lib()
    route = case['route']
    api = case.get('api', 'Output')
    net = case['net']
    kind = case['type']

    if route in KEY_ROUTES:
        sec = int(case['sec'], 16)
        pt = ec.pubkey(sec)
        compressed = case.get('compressed', True)
        pub = ec.ser_compressed(pt) if compressed else ec.ser_uncompressed(pt)
        want_script, want_addr, want_type = _key_expect(kind, pub, net)
        payload = None
        if route in ('hdkey', 'hdkey_public', 'hdkey_address_obj', 'key_address_obj'):
            wt = {'p2pkh': 'legacy', 'p2wpkh': 'segwit', 'p2sh_p2wpkh': 'p2sh-segwit'}[kind]

            def build():
                if route == 'key_address_obj':
                    # the Address object a caller builds from a public key for this witness type
                    a = lib.keys.Address(pub.hex(), witness_type=wt, network=net,
                                         script_type=None if kind != 'p2sh_p2wpkh' else 'p2sh_p2wpkh',
                                         encoding='bech32' if kind == 'p2wpkh' else 'base58')
                    return _make_output(api, net, address=a)
                k = lib.keys.HDKey(sec.to_bytes(32, 'big'), network=net, witness_type=wt)
                if route == 'hdkey_public':
                    k = k.public()
                if route == 'hdkey_address_obj':
                    return _make_output(api, net, address=k.address_obj)
                # the key object may have been asked for one of its other address forms before (a display of the
                # legacy / nested / native form): the output made from the KEY is that of the key's own witness type
                pre = case.get('pre')
                try:
                    if pre == 'p2wpkh':
                        k.address(encoding='bech32', script_type='p2wpkh')
                    elif pre == 'p2pkh':
                        k.address(encoding='base58', script_type='p2pkh')
                    elif pre == 'p2sh_p2wpkh':
                        k.address(encoding='base58', script_type='p2sh_p2wpkh')
                    elif pre == 'uncompressed':
                        k.address(compressed=False, encoding='base58', script_type='p2pkh')
                    elif pre == 'address_obj':
                        k.address_obj
                except Exception:
                    pass
                return _make_output(api, net, address=k)
        else:
            def build():
                kw = {'public_key': pub if case.get('pk_as', 'bytes') == 'bytes' else pub.hex()}
                if case.get('explicit_type'):
                    kw['script_type'] = kind
                elif kind == 'p2pkh':
                    kw['encoding'] = 'base58'
                else:
                    kw['encoding'] = 'bech32'
                return _make_output(api, net, **kw)
    else:
        payload = bytes.fromhex(case['payload'])
        want_script = A.script_for(kind, payload)
        want_addr = A.address_for(kind, payload, net)
        want_type = kind
        if route == 'address':
            def build():
                return _make_output(api, net, address=want_addr)
        elif route == 'address_obj':
            def build():
                a = lib.keys.Address(hashed_data=payload, script_type=kind, network=net)
                return _make_output(api, net, address=a)
        elif route == 'address_parsed':
            def build():
                a = lib.keys.Address.parse(want_addr, network=net)
                return _make_output(api, net, address=a)
        elif route == 'public_hash':
            def build():
                return _make_output(api, net, public_hash=payload, script_type=kind)
        elif route == 'lock_script':
            def build():
                return _make_output(api, net, lock_script=want_script)
        else:
            raise Discrepancy('harness.unknown_route', route, case)

    tag = '%s.%s' % (route, kind)
    hexlike = payload is not None and _hexlike(payload) and route in ('public_hash', 'address_obj', 'address_parsed',
                                                                      'lock_script')
    ok, o = _call(build)
    if not ok:
        ctx.disc('fwd.refused.' + tag, '%s route %s %s on %s raised %r' % (api, route, kind, net, o), case,
                 kf='C05-hexlike-payload-reinterpreted' if hexlike else None)
        return
    ok, obs = _call(lambda: _observe(o))
    if not ok:
        ctx.disc('fwd.observe_raises.' + tag, '%s route %s %s on %s: reading lock_script/address raised %r' %
                 (api, route, kind, net, obs), case, kf='C05-hexlike-payload-reinterpreted' if hexlike else None)
        return
    script, addr, stype, onet = obs
    if script != want_script:
        ctx.disc('fwd.script.' + tag, '%s route %s on %s: lock_script %s, standard %s script is %s' %
                 (api, route, net, script.hex(), kind, want_script.hex()), case,
                 kf='C05-hexlike-payload-reinterpreted' if hexlike else None)
        return
    if addr != want_addr:
        kf = None
        if route == 'address_parsed' and kind == 'p2tr' and addr == A.addr_witness(0, payload, net):
            kf = 'C05-address-parse-drops-witver'
        elif hexlike:
            kf = 'C05-hexlike-payload-reinterpreted'
        ctx.disc('fwd.address.' + tag, '%s route %s on %s: reports address %r, reference %r' %
                 (api, route, net, addr, want_addr), case, kf=kf)
        return
    if stype != want_type:
        raise Discrepancy('fwd.script_type.' + tag, '%s route %s on %s: script_type %r, reference %r' %
                          (api, route, net, stype, want_type), case)
    if onet != net:
        raise Discrepancy('fwd.network.' + tag, 'output network %r, requested %r' % (onet, net), case)
    # compositions: script -> address and address -> script through the library again
    ok, back = _call(lambda: _observe(_make_output('Output', net, lock_script=script)))
    if not ok or back[1] != want_addr or back[0] != want_script:
        ctx.disc('compose.script_to_address.' + kind, 'Output(lock_script=%s) on %s gives %r, reference address %r' %
                 (script.hex(), net, back, want_addr), case,
                 kf='C05-hexlike-payload-reinterpreted' if payload is not None and _hexlike(payload) else None)
        return
    ok, back = _call(lambda: _observe(_make_output('Output', net, address=addr)))
    if not ok or back[0] != want_script or back[1] != want_addr:
        raise Discrepancy('compose.address_to_script.' + kind, 'Output(address=%r) on %s gives %r, reference script %s'
                          % (addr, net, back, want_script.hex()), case)


# ---- witness versions 0..16 ---------------------------------------------------------------------

def check_wit(ctx, case):
    from ref import address as A
    net = case['net']
    v = case['witver']
    prog = bytes.fromhex(case['prog'])
    api = case.get('api', 'Output')
    want = A.script_witness(v, prog)
    direction = case.get('dir', 'fwd')
    standard = (v == 0 and len(prog) in (20, 32)) or (v == 1 and len(prog) == 32)
    if v == 0 and len(prog) not in (20, 32):
        ctx.exclude('wit.v0_bad_length_has_no_address')
        return
    addr = A.addr_witness(v, prog, net)
    if direction == 'fwd':
        given = addr
        if case.get('form') == 'address_obj':
            # the same address as an Address object (made by the library's own reader from the string)
            okp, given = _call(lambda: _lib().keys.Address.parse(addr, network=net))
            if not okp:
                ctx.refusal('wit.address_parse.%s' % type(given).__name__)
                return
            ctx.klass('wit.fwd.address_obj')
        ok, o = _call(lambda: _observe(_make_output(api, net, address=given)))
        if not ok:
            if standard:
                raise Discrepancy('wit.standard_refused', 'address %r on %s raised %r' % (addr, net, o), case)
            ctx.refusal('wit.nonstandard.%s' % type(o).__name__)
            return
        if o[0] != want:
            kf = None
            if not standard and ((len(prog) == 20 and o[0] == A.script_witness(0, prog)) or
                                 (len(prog) != 20 and v >= 2 and o[0] == A.script_witness(1, prog))):
                kf = 'C05-witness-version-ignored'
            ctx.disc('wit.wrong_script', 'address %r (witness v%d, %d-byte programme) gives lock_script %s, BIP141 '
                     'script is %s' % (addr, v, len(prog), o[0].hex(), want.hex()), case, kf=kf)
            return
        if o[1] != addr:
            raise Discrepancy('wit.address_changed', 'output built from %r reports address %r' % (addr, o[1]), case)
        return
    # backward: witness script -> address
    if not standard and len(prog) not in (20, 32):
        # not a standard destination and no 20/32-byte programme: the statement does not cover its address
        ctx.exclude('wit.back.nonstandard_programme_length')
        return
    ok, o = _call(lambda: _observe(_make_output(api, net, lock_script=want)))
    if not ok:
        if standard:
            ctx.disc('wit.standard_script_refused', 'lock_script %s raised %r' % (want.hex(), o), case,
                     kf='C05-hexlike-payload-reinterpreted' if _hexlike(prog) else None)
            return
        ctx.refusal('wit.back.nonstandard.%s' % type(o).__name__)
        return
    if o[0] != want:
        raise Discrepancy('wit.back.script_changed', 'lock_script %s stored as %s' % (want.hex(), o[0].hex()), case)
    if o[1] and o[1] != addr:
        ctx.disc('wit.back.wrong_address', 'lock_script %s on %s reported as %r, BIP350 address is %r' %
                 (want.hex(), net, o[1], addr), case,
                 kf='C05-hexlike-payload-reinterpreted' if _hexlike(prog) else None)
        return
    if not o[1] and standard:
        raise Discrepancy('wit.back.no_address', 'standard lock_script %s has no address' % want.hex(), case)


# ---- cross-network ------------------------------------------------------------------------------

def check_cross(ctx, case):
    from ref import address as A, ec
    lib = _lib()
    route = case['route']
    api = case.get('api', 'Output')
    na, nb = case['net_a'], case['net_b']
    kind = case['type']
    if route == 'hdkey':
        sec = int(case['sec'], 16)
        pub = ec.ser_compressed(ec.pubkey(sec))
        want_script, addr_a, _ = _key_expect(kind, pub, na)
        share_kind = {'p2pkh': 'p2pkh', 'p2wpkh': 'p2wpkh', 'p2sh_p2wpkh': 'p2sh'}[kind]
        wt = {'p2pkh': 'legacy', 'p2wpkh': 'segwit', 'p2sh_p2wpkh': 'p2sh-segwit'}[kind]

        def build():
            return _make_output(api, nb, address=lib.keys.HDKey(sec.to_bytes(32, 'big'), network=na, witness_type=wt))
    else:
        payload = bytes.fromhex(case['payload'])
        want_script = A.script_for(kind, payload)
        addr_a = A.address_for(kind, payload, na)
        share_kind = kind
        if route == 'address':
            def build():
                return _make_output(api, nb, address=addr_a)
        elif route == 'address_obj':
            def build():
                return _make_output(api, nb, address=lib.keys.Address(hashed_data=payload, script_type=kind,
                                                                      network=na))
        elif route == 'address_parsed':
            def build():
                return _make_output(api, nb, address=lib.keys.Address.parse(addr_a, network=na))
        elif route == 'address_lock_script':
            # the address string together with the script it stands for (how provider clients build outputs)
            def build():
                return _make_output(api, nb, address=addr_a, lock_script=want_script)
        elif route == 'address_public_hash':
            def build():
                return lib.tr.Output(VALUE, address=addr_a, public_hash=payload, script_type=kind, network=nb)
        else:
            raise Discrepancy('harness.unknown_route', route, case)
    shared = _share(share_kind, na, nb)
    hexlike = route in ('address_obj', 'address_parsed', 'address_public_hash') and _hexlike(payload)
    ok, o = _call(lambda: _observe(build()))
    if not ok:
        if hexlike:
            ctx.disc('cross.refused.hexlike.' + route, '%s: %s address object of %s in %s transaction raised %r' %
                     (api, kind, na, nb, o), case, kf='C05-hexlike-payload-reinterpreted')
            return
        if shared:
            raise Discrepancy('cross.shared_prefix_refused.' + route,
                              '%s: %s address %r of %s refused in a %s transaction although both networks use the '
                              'same prefix: %r' % (api, kind, addr_a, na, nb, o), case)
        ctx.refusal('cross.%s.%s' % (route, type(o).__name__))
        return
    script, addr, stype, onet = o
    if not shared:
        kf = None
        if route in ('address_obj', 'address_parsed', 'hdkey') and script == want_script and onet == na:
            kf = 'C05-object-network-unchecked'
        elif hexlike and script != want_script:
            kf = 'C05-hexlike-payload-reinterpreted'
        ctx.disc('cross.accepted.' + route, '%s: %s address %r of network %s accepted in a %s transaction (output '
                 'network %r, script %s)' % (api, kind, addr_a, na, nb, onet, script.hex()), case, kf=kf)
        return
    if script != want_script:
        ctx.disc('cross.script.' + route, '%s address %r (%s) in %s transaction: lock_script %s, reference %s'
                 % (kind, addr_a, na, nb, script.hex(), want_script.hex()), case,
                 kf='C05-hexlike-payload-reinterpreted' if hexlike else None)
        return
    if addr != addr_a and not (route == 'address_parsed' and kind == 'p2tr'):
        raise Discrepancy('cross.address.' + route, 'reports %r for %r' % (addr, addr_a), case)


DISPATCH = {'fwd': check_fwd, 'wit': check_wit, 'cross': check_cross}


def replay(ctx, case):
    if 'probe' in case and 'kind' not in case:
        # replay file written for a reproducing finding probe: re-run its minimal input with the finding predicates off
        pc = dict((fid, c) for fid, c, _ in probe_cases())
        if case['probe'] not in pc:
            raise Discrepancy('harness.unknown_probe', 'no probe %r' % case['probe'], case)
        saved, ctx.findings = ctx.findings, {}
        try:
            replay(ctx, pc[case['probe']])
        finally:
            ctx.findings = saved
        return
    DISPATCH[case['kind']](ctx, case)


# ---- probes -------------------------------------------------------------------------------------

def probe_cases():
    """[(finding id, minimal case, what)]"""
    x32 = bytes(range(1, 33)).hex()
    h20 = bytes(range(1, 21)).hex()
    return [
        ('C05-witness-version-ignored', {'kind': 'wit', 'net': 'bitcoin', 'witver': 2, 'prog': x32},
         'a bech32m address with witness version >= 2 is paid with OP_1 <programme> (and any v>=1 address with a '
         '20-byte programme with OP_0 <programme>) instead of OP_n <programme>'),
        ('C05-address-parse-drops-witver', {'kind': 'fwd', 'route': 'address_parsed', 'api': 'Output',
                                            'net': 'bitcoin', 'type': 'p2tr', 'payload': x32},
         'Output(address=Address.parse(<P2TR address>)) reports the witness-v0 address (bc1q...) of the programme'),
        ('C05-object-network-unchecked', {'kind': 'cross', 'route': 'address_obj', 'api': 'add_output',
                                          'net_a': 'litecoin', 'net_b': 'bitcoin', 'type': 'p2pkh',
                                          'payload': h20},
         'an Address / HDKey object of another network is accepted by Output / Transaction.add_output; the '
         'output silently takes the network of the object'),
        ('C05-hexlike-payload-reinterpreted', {'kind': 'fwd', 'route': 'public_hash', 'api': 'Output',
                                               'net': 'bitcoin', 'type': 'p2pkh',
                                               'payload': b'12345678901234567890'.hex()},
         'a hash whose 20/32 bytes are all ASCII hex digits is un-hexlified by to_bytes(): wrong script / address '
         '(public_hash, Address object and lock_script routes)'),
    ]


def probes(ctx):
    saved = ctx.findings
    ctx.findings = {}
    try:
        for fid, case, what in probe_cases():
            try:
                replay(ctx, case)
                ctx.probe(fid, False, what)
            except Discrepancy:
                ctx.probe(fid, True, what)
    finally:
        ctx.findings = saved


# ---- enumeration --------------------------------------------------------------------------------

def payload_classes(n):
    base = bytes((7 * i + 3) & 0xff for i in range(n))
    return [('pattern', base), ('leading_zeros', bytes(3) + base[3:]), ('all_zero', bytes(n)),
            ('all_ones', b'\xff' * n), ('ascii_hex', (b'0123456789abcdefABCDEF' * 2)[:n])]


SECRETS = [1, 0x1234567890abcdef1234567890abcdef1234567890abcdef1234567890abcdef,
           0xfffffffffffffffffffffffffffffffebaaedce6af48a03bbfd25e8cd0364140]


def matrix_items():
    from ref import address as A
    items = []
    nets = A.NETWORK_NAMES
    for net in nets:
        for kind in TYPES:
            for cname, p in payload_classes(PLEN[kind]):
                for route in FWD_ROUTES:
                    for api in ('Output', 'add_output') + (tuple(PARSE_APIS) if route == 'lock_script' else ()):
                        if api == 'add_output' and route == 'public_hash':
                            continue            # add_output has no script_type argument
                        items.append(('fwd.%s.%s' % (route, cname),
                                      {'kind': 'fwd', 'route': route, 'api': api, 'net': net, 'type': kind,
                                       'payload': p.hex()}))
        for si, sec in enumerate(SECRETS):
            for kind in ('p2pkh', 'p2wpkh', 'p2sh_p2wpkh'):
                for route in ('hdkey', 'hdkey_public', 'hdkey_address_obj', 'key_address_obj'):
                    for api in ('Output', 'add_output'):
                        items.append(('fwd.' + route, {'kind': 'fwd', 'route': route, 'api': api, 'net': net,
                                                       'type': kind, 'sec': '%064x' % sec}))
                        if route in ('hdkey', 'hdkey_public') and si == 0:
                            for pre in PRES:
                                items.append(('fwd.%s.after_other_address' % route,
                                              {'kind': 'fwd', 'route': route, 'api': api, 'net': net, 'type': kind,
                                               'sec': '%064x' % sec, 'pre': pre}))
            for kind in ('p2pkh', 'p2wpkh'):
                for api in ('Output', 'add_output'):
                    items.append(('fwd.public_key', {'kind': 'fwd', 'route': 'public_key', 'api': api, 'net': net,
                                                     'type': kind, 'sec': '%064x' % sec,
                                                     'pk_as': 'hex' if si % 2 else 'bytes'}))
                items.append(('fwd.public_key', {'kind': 'fwd', 'route': 'public_key', 'api': 'Output', 'net': net,
                                                 'type': kind, 'sec': '%064x' % sec, 'explicit_type': True}))
            items.append(('fwd.public_key.uncompressed',
                          {'kind': 'fwd', 'route': 'public_key', 'api': 'Output', 'net': net, 'type': 'p2pkh',
                           'sec': '%064x' % sec, 'compressed': False, 'explicit_type': True}))
        for v in range(17):
            for n in (2, 20, 32, 40):
                for cname, p in payload_classes(n)[:2]:
                    for d in ('fwd', 'back'):
                        items.append(('wit.%s.v%s.len%d' % (d, '0' if v == 0 else '1' if v == 1 else '2+', n),
                                      {'kind': 'wit', 'net': net, 'witver': v, 'prog': p.hex(), 'dir': d,
                                       'api': 'add_output' if (v + n) % 2 else 'Output'}))
                    if n in (20, 32):
                        items.append(('wit.fwd.address_obj', {'kind': 'wit', 'net': net, 'witver': v, 'prog': p.hex(),
                                                              'dir': 'fwd', 'api': 'Output', 'form': 'address_obj'}))
    for na in nets:
        for nb in nets:
            if na == nb:
                continue
            for kind in TYPES:
                p = payload_classes(PLEN[kind])[0][1]
                for route in ('address', 'address_obj', 'address_parsed', 'address_lock_script', 'address_public_hash'):
                    for api in ('Output', 'add_output'):
                        if route == 'address_public_hash' and api == 'add_output':
                            continue
                        items.append(('cross.%s.%s' % (route, 'shared' if _share(kind, na, nb) else 'foreign'),
                                      {'kind': 'cross', 'route': route, 'api': api, 'net_a': na, 'net_b': nb,
                                       'type': kind, 'payload': p.hex()}))
            for kind in ('p2pkh', 'p2wpkh', 'p2sh_p2wpkh'):
                sk = {'p2pkh': 'p2pkh', 'p2wpkh': 'p2wpkh', 'p2sh_p2wpkh': 'p2sh'}[kind]
                items.append(('cross.hdkey.%s' % ('shared' if _share(sk, na, nb) else 'foreign'),
                              {'kind': 'cross', 'route': 'hdkey', 'api': 'add_output', 'net_a': na, 'net_b': nb,
                               'type': kind, 'sec': '%064x' % SECRETS[1]}))
    return items


def _nontrivial(case):
    if case['kind'] == 'cross':
        return True
    if case['kind'] == 'wit':
        return case['witver'] >= 1 or case['net'] != 'bitcoin' or case.get('dir') == 'back'
    return case['net'] != 'bitcoin' or case['route'] != 'address' or case['type'] == 'p2tr'


def _key(case):
    return tuple(sorted((k, str(v)) for k, v in case.items()))


def run(ctx):
    from hypothesis import strategies as st
    from vlib import gen

    items = matrix_items()
    for i, (klass, case) in enumerate(items):
        if i % ctx.nshards != ctx.shard:
            continue
        ctx.klass(klass)
        if _nontrivial(case):
            ctx.nt(_key(case))
        if i % 997 == 0:
            ctx.sample(case)
        ctx.guard(lambda c: replay(ctx, c), case)
    ctx.exhaustive('matrix: 11 networks x 5 types x routes x payload classes x API, witness v0..16 x lengths, '
                   'all ordered network pairs (%d cases)' % len(items))

    # random payloads on top ----------------------------------------------------------------------
    def payload_for(kind):
        n = PLEN[kind]
        return st.one_of(st.binary(min_size=n, max_size=n), st.binary(min_size=n, max_size=n),
                         st.binary(min_size=1, max_size=n - 1).map(lambda b: bytes(n - len(b)) + b)).map(bytes.hex)

    fwd = st.sampled_from(TYPES).flatmap(lambda kind: st.fixed_dictionaries({
        'kind': st.just('fwd'), 'route': st.sampled_from(FWD_ROUTES), 'api': st.sampled_from(['Output', 'add_output']),
        'net': gen.networks(), 'type': st.just(kind), 'payload': payload_for(kind)})).map(
        lambda c: dict(c, api='Output') if c['route'] == 'public_hash' else c)
    fwd_parsed = st.sampled_from(TYPES).flatmap(lambda kind: st.fixed_dictionaries({
        'kind': st.just('fwd'), 'route': st.just('lock_script'), 'api': st.sampled_from(PARSE_APIS),
        'net': gen.networks(), 'type': st.just(kind), 'payload': payload_for(kind)}))
    fwd = st.one_of(fwd, fwd, fwd, fwd_parsed)
    keyr = st.fixed_dictionaries({
        'kind': st.just('fwd'), 'route': st.sampled_from(['hdkey', 'hdkey_public', 'hdkey_address_obj', 'key_address_obj', 'public_key']),
        'api': st.sampled_from(['Output', 'add_output']), 'net': gen.networks(),
        'type': st.sampled_from(['p2pkh', 'p2wpkh', 'p2sh_p2wpkh']),
        'sec': gen.secrets().map(lambda d: '%064x' % d), 'pk_as': st.sampled_from(['bytes', 'hex']),
        'pre': st.sampled_from([None, None] + PRES)}).map(
        lambda c: dict(c, type='p2wpkh') if c['route'] == 'public_key' and c['type'] == 'p2sh_p2wpkh' else c)
    wit = st.fixed_dictionaries({
        'kind': st.just('wit'), 'net': gen.networks(), 'witver': st.integers(0, 16),
        'prog': st.integers(2, 40).flatmap(lambda n: st.binary(min_size=n, max_size=n)).map(bytes.hex),
        'dir': st.sampled_from(['fwd', 'back']), 'api': st.sampled_from(['Output', 'add_output']),
        'form': st.sampled_from(['string', 'string', 'address_obj'])})
    cross = st.sampled_from(TYPES).flatmap(lambda kind: st.fixed_dictionaries({
        'kind': st.just('cross'), 'route': st.sampled_from(['address', 'address', 'address_obj', 'address_parsed',
                                                            'address_lock_script', 'address_public_hash']),
        'api': st.sampled_from(['Output', 'add_output']), 'net_a': gen.networks(), 'net_b': gen.networks(),
        'type': st.just(kind), 'payload': payload_for(kind)})).filter(lambda c: c['net_a'] != c['net_b'])

    def prop(case):
        if _nontrivial(case):
            ctx.nt(_key(case))
        ctx.klass('random.%s.%s' % (case['kind'], case.get('route', case.get('dir'))))
        replay(ctx, case)
    ctx.run_given('random', st.one_of(fwd, fwd, keyr, wit, cross, cross), prop, ctx.scale(300, 6000), max_buckets=10)
