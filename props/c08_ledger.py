"""C08 - the wallet ledger stays consistent over any history and survives reopening.

Histories are generated as operation lists (model-based: every operation is interpreted against the real
wallet and against a small model that remembers which outpoints broadcast transactions consumed); the
invariants I1-I5 are checked through the public API after every step.
"""
from vlib.core import Discrepancy

LEVEL = 'exploration'
TECHNIQUE = ('Hypothesis-generated wallet operation histories (model-based, list-of-operations state machine with '
             'reopen and second reader) with ledger invariants checked after every step')
RULE = ('One wallet per history on network bitcoinlib_test (offline provider: two synthetic UTXOs per address, accepts '
        'sendrawtransaction), file-backed SQLite; kind drawn from HD legacy/segwit/p2sh-segwit, single key, 2-of-2 '
        'multisig holding all keys. Operations (6..25 per history, thorough ..50): new_key, new_key_change, get_key, '
        'utxo_add, utxos_update, send_to/send (broadcast or not, own or foreign recipient), sweep, export->import '
        '(object/dict/raw) then send, transaction_delete, close_and_reopen, second_reader. Invariants after each '
        'step: I1 balance = sum(utxos); I2 = sum of per-key balances via keys() and via key(id).balance(); I3 no '
        'outpoint consumed by a stored broadcast transaction is listed or selected again; I4 stored transactions '
        'reload identically; I5 reopened / second Wallet object agree. [plus delete_funding: the record that funded a consumed outpoint is deleted and the outpoint reported again] Non-trivial = history with a broadcast send '
        'followed by reopen, utxos_update or delete; distinct by history. [plus delete_received (one / all records that only paid the wallet) and remove_unconfirmed; with several accounts: balance(account) = sum of the balances of that account\'s keys, utxo_add may name keys of the other accounts] [plus store_draft (unsent payment stored), restore (reloaded transaction stored / sent again), imported transactions with other sequence numbers]'
        ' [plus pay_other_account (key records keep their account: I6), resend_object (the sent object sent / stored again), drafts saved unsigned, signed, saved again]')
ASSUMPTIONS = ['SQLite only', 'offline provider semantics of bitcoinlib_test (utxos_update legitimately replaces the '
               'unspent set by what the provider reports)']
SHARDS = {'quick': 16, 'thorough': 16}
WALL_CAP = {'quick': 900, 'thorough': 3400}
NET = 'bitcoinlib_test'


class State(object):
    pass


def _open(st):
    from bitcoinlib.wallets import Wallet
    return Wallet('w', db_uri=st.uri)


def _create(case, tag):
    from bitcoinlib.wallets import Wallet
    from bitcoinlib.keys import HDKey
    from props import wallet_util as wu
    st = State()
    st.uri, st.path = wu.db_uri(tag)
    wc = case['wallet']
    seed = bytes.fromhex(wc['seed'])
    wt = wc['witness_type']
    if wc['kind'] == 'ms':
        keys = [HDKey.from_seed(seed + bytes([k]), network=NET, witness_type=wt, multisig=True) for k in range(2)]
        st.w = Wallet.create('w', keys=keys, sigs_required=2, network=NET, witness_type=wt, db_uri=st.uri,
                             cosigner_id=0)
    elif wc['kind'] == 'single':
        st.w = Wallet.create('w', keys=HDKey.from_seed(seed, network=NET, witness_type=wt), scheme='single',
                             network=NET, witness_type=wt, db_uri=st.uri)
    else:
        st.w = Wallet.create('w', keys=HDKey.from_seed(seed, network=NET, witness_type=wt), network=NET,
                             witness_type=wt, db_uri=st.uri)
    st.keys = [st.w.get_key()]
    st.spent = {}        # outpoint -> txid of the stored broadcast transaction that consumed it
    st.stored = {}       # txid -> snapshot taken when it was stored
    st.others = []
    st.n_add = 0
    st.sent = []         # txids of broadcast transactions in order
    st.flags = set()
    st.single = wc['kind'] == 'single'
    return st


def _snapshot(t):
    return {'txid': t.txid, 'raw': t.raw().hex(),
            'inputs': [(i.prev_txid.hex(), i.output_n_int, int(i.value)) for i in t.inputs],
            'outputs': [(o.value, o.lock_script.hex(), o.address) for o in t.outputs]}


def _foreign_addr(n):
    from ref import address as raddr
    from ref.hashes import sha256
    return raddr.addr_p2pkh(sha256(b'foreign%d' % n)[:20], NET)


def _after_broadcast(st, t):
    if getattr(t, 'pushed', False):
        for i in t.inputs:
            st.spent[(i.prev_txid.hex(), i.output_n_int)] = t.txid
        st.stored[t.txid] = _snapshot(t)
        st.sent.append(t.txid)
        st.flags.add('broadcast')
        if not hasattr(st, 'objects'):
            st.objects = []
        st.objects.append((t.txid, t))


def apply_op(ctx, st, op, case):
    """Interpret one operation. Library refusals are fine (counted); only invariants judge."""
    from props import wallet_util as wu
    w = st.w
    name = op['op']
    try:
        if name == 'new_key':
            if not st.single:
                st.keys.append(w.new_key())
        elif name == 'new_key_change':
            if not st.single:
                w.new_key_change()
        elif name == 'new_account':
            # a second (third) account with a key of its own; utxo_add may fund it like any other key
            if not st.single and case['wallet']['kind'] == 'hd' and len(getattr(st, 'accounts', [0])) < 3:
                a = w.new_account()
                if not hasattr(st, 'accounts'):
                    st.accounts = [0]
                st.accounts.append(a.account_id)
                # funded through the provider for THAT account (utxo_add has no account argument and files what it
                # adds under the default account)
                k_acc = w.new_key(account_id=a.account_id)
                w.utxos_update(account_id=a.account_id)
                st.flags.add('multi_account')
                if not hasattr(st, 'acc_keys'):
                    st.acc_keys = {}
                st.acc_keys[a.account_id] = k_acc
                if op.get('fundable'):
                    # later utxo_add operations may name this key of the new account
                    st.keys.append(k_acc)
        elif name == 'pay_other_account':
            # a payment from the default account to a key of another account of the same wallet. The library books the
            # transaction, with all its outputs, under the paying account (the statement does not say which account
            # such an output belongs to, so the per-account key sums are not compared afterwards); the receiving KEY
            # stays what it is: a key of its own account, at its own path
            others = sorted(getattr(st, 'acc_keys', {}).items())
            if others:
                a, k_acc = others[op.get('pick', 0) % len(others)]
                bal = int(w.balance())
                t = w.send_to(k_acc.address, max(1000, bal * op['num'] // op['den']), broadcast=True,
                              min_confirms=op.get('min_confirms', 1))
                _after_broadcast(st, t)
                st.cross_account = True
                st.flags.add('paid_other_account')
        elif name == 'sweep_account':
            # everything a NON-default account owns is swept to a foreign address and broadcast
            accs = [a for a in getattr(st, 'accounts', [0]) if a != 0]
            if accs:
                a = accs[op.get('pick', 0) % len(accs)]
                t = w.sweep(_foreign_addr(op.get('pick', 0)), account_id=a, broadcast=True, min_confirms=0)
                _after_broadcast(st, t)
                st.flags.add('other_account_swept')
        elif name == 'get_key':
            k = w.get_key()
            if k.address not in [x.address for x in st.keys]:
                st.keys.append(k)
        elif name == 'utxo_add':
            k = st.keys[op['key'] % len(st.keys)]
            st.n_add += 1
            txid_a = wu.fake_txid(case['rng'], 'add', st.n_add)
            w.utxo_add(k.address, op['value'], txid_a, op['n'], confirmations=op['conf'])
            if not hasattr(st, 'added'):
                st.added = {}
            st.added[(txid_a, op['n'])] = (k.address, op['value'], op['conf'])
        elif name == 'utxos_update':
            w.utxos_update()
            if 'broadcast' in st.flags:
                st.flags.add('update_after_broadcast')
        elif name in ('send', 'sweep', 'import_send'):
            bal = int(w.balance())
            # own destinations are keys of the spending (default) account: the library books a transaction, with all
            # its outputs, under ONE account, and the statement does not say to which account a payment from one
            # account of a wallet to another belongs
            own_keys = [k_ for k_ in st.keys if getattr(k_, 'account_id', 0) == 0] or st.keys
            if name == 'sweep':
                to = _foreign_addr(op['key']) if op['foreign'] else own_keys[op['key'] % len(own_keys)].address
                t = w.sweep(to, broadcast=op['broadcast'], min_confirms=op.get('min_confirms', 1))
            else:
                amount = max(1000, bal * op['num'] // op['den'])
                to = _foreign_addr(op['key']) if op['foreign'] else own_keys[op['key'] % len(own_keys)].address
                if name == 'send':
                    t = w.send_to(to, amount, broadcast=op['broadcast'], min_confirms=op.get('min_confirms', 1))
                else:
                    t0 = w.send_to(to, amount, broadcast=False)
                    if op.get('seq') is not None:
                        # the transaction that is handed over carries another sequence number (0 = relative lock of
                        # zero blocks / replaceable, small relative locks): signed again, then imported and sent
                        for i_ in t0.inputs:
                            i_.sequence = op['seq']
                        t0.sign_and_update()
                        st.flags.add('imported_with_sequence_%s' % ('zero' if op['seq'] == 0 else 'other'))
                    medium = op['medium']
                    if medium == 'object':
                        t = w.transaction_import(t0)
                    elif medium == 'dict':
                        t = w.transaction_import(t0.as_dict())
                    else:
                        t = w.transaction_import_raw(t0.raw_hex())
                    t.send(broadcast=op['broadcast'])
                    st.flags.add('import')
            # I3b: nothing a stored broadcast transaction consumed may be selected again
            for i in t.inputs:
                outp = (i.prev_txid.hex(), i.output_n_int)
                if outp in st.spent and st.spent[outp] != t.txid:
                    raise Discrepancy('I3.reselected', 'operation %r selected outpoint %s:%d already consumed by sent '
                                      'transaction %s' % (name, outp[0][:12], outp[1], st.spent[outp][:12]),
                                      case)
            _after_broadcast(st, t)
        elif name == 'send_outputs':
            # a payment to two recipients (one foreign, one own key) handed over as Output objects, the other documented
            # form of the recipient list, in the given or in random output order
            from bitcoinlib.transactions import Output
            bal = int(w.balance())
            if bal > 10000:
                own_keys = [k_ for k_ in st.keys if getattr(k_, 'account_id', 0) == 0] or st.keys
                a1 = max(1000, bal * op['num'] // op['den'] // 2)
                outs = [Output(a1, _foreign_addr(op['key']), network=NET),
                        Output(a1 + 1, own_keys[op['key'] % len(own_keys)].address, network=NET)]
                if op.get('own_first'):
                    outs.reverse()
                t = w.send(outs, broadcast=True, min_confirms=op.get('min_confirms', 1),
                           random_output_order=bool(op.get('shuffle')))
                _after_broadcast(st, t)
                st.flags.add('recipients_as_output_objects')
        elif name == 'spend_output':
            # spend one specific output of an earlier broadcast transaction (selection restricted to its key)
            if st.sent:
                src = st.sent[op['of'] % len(st.sent)]
                cands = [u for u in w.utxos() if u['txid'] == src]
                if cands:
                    u = cands[op['n'] % len(cands)]
                    t = w.send_to(_foreign_addr(op['key']), max(1000, u['value'] // 2), input_key_id=u['key_id'],
                                  broadcast=True, min_confirms=0)
                    for i in t.inputs:
                        outp = (i.prev_txid.hex(), i.output_n_int)
                        if outp in st.spent and st.spent[outp] != t.txid:
                            raise Discrepancy('I3.reselected', 'spend_output selected outpoint %s:%d already consumed by '
                                              'sent transaction %s' % (outp[0][:12], outp[1], st.spent[outp][:12]), case)
                    _after_broadcast(st, t)
                    st.flags.add('sibling_spend')
        elif name == 'delete_funding':
            # the record of the transaction that FUNDED an outpoint consumed by a stored sent transaction is
            # deleted and the outpoint is reported to the wallet again (provider that lags behind / utxo_add):
            # it stays spent, a stored transaction of this wallet consumes it
            cands = sorted(o for o, spender in st.spent.items() if spender in st.stored and o[0] not in st.stored)
            if cands:
                outp = cands[op['pick'] % len(cands)]
                w.transaction_delete(outp[0])
                added = getattr(st, 'added', {})
                if outp in added:
                    a, v, c = added[outp]
                    w.utxo_add(a, v, outp[0], outp[1], confirmations=c)
                else:
                    w.utxos_update()
                st.flags.add('funding_record_deleted_and_reported_again')
        elif name == 'delete_received':
            # records of transactions that only PAID this wallet (unspent, not sent by it) are deleted: one of them, or
            # all of them - the wallet then owns nothing although nothing was spent
            funding_of_spent = set(o[0] for o in st.spent)
            cands = sorted(set(u['txid'] for u in w.utxos() if u['txid'] not in st.stored and
                               u['txid'] not in funding_of_spent))
            if cands:
                for txid in (cands if op.get('all') else [cands[op['pick'] % len(cands)]]):
                    w.transaction_delete(txid)
                st.flags.add('received_deleted_all' if op.get('all') else 'received_deleted')
                if not w.utxos():
                    st.flags.add('emptied_by_deletion')
        elif name == 'remove_unconfirmed':
            w.transactions_remove_unconfirmed()
            gone = [txid for txid in st.stored if w.transaction(txid) is None]
            for txid in gone:
                del st.stored[txid]
            st.spent = {k: v for k, v in st.spent.items() if v not in gone}
            st.flags.add('remove_unconfirmed')
        elif name == 'store_draft':
            # first half of a two-step workflow: a payment is created and signed but not broadcast, and saved in the
            # wallet database (store()); whatever the wallet makes of it, its three views stay equal
            bal = int(w.balance())
            if bal > 3000:
                amount = max(1000, bal * op['num'] // op['den'])
                if op.get('unsigned_first'):
                    # ... or in three steps: created unsigned and saved, signed later, saved again. What is read back
                    # from then on is the transaction as it was saved last
                    t = w.transaction_create([(_foreign_addr(op.get('key', 0)), amount)],
                                             min_confirms=op.get('min_confirms', 1))
                    t.store()
                    t.sign()
                    t.store()
                    if not hasattr(st, 'drafts'):
                        st.drafts = {}
                    st.drafts[t.txid] = _snapshot(t)
                    st.flags.add('draft_stored_unsigned_then_signed')
                else:
                    t = w.send_to(_foreign_addr(op.get('key', 0)), amount, broadcast=False,
                                  min_confirms=op.get('min_confirms', 1))
                    t.store()
                st.flags.add('draft_stored')
        elif name == 'restore':
            # a stored sent transaction is read back from the database and written again (store(), or send() as a
            # re-broadcast): nothing changes - in particular outputs of it that later transactions consumed stay spent
            if st.stored:
                order = [x for x in st.sent if x in st.stored]
                txid = order[op['pick'] % len(order)]
                t = w.transaction(txid)
                if op.get('how') == 'send':
                    t.send(broadcast=True)
                else:
                    t.store()
                st.flags.add('reloaded_transaction_stored_again')
        elif name == 'resend_object':
            # the transaction OBJECT of an earlier send (not a copy read back from the database) is sent / stored once
            # more, as a caller retrying a broadcast does: nothing changes - outputs of it that later transactions
            # consumed stay spent
            objs = [(x, o_) for x, o_ in getattr(st, 'objects', []) if x in st.stored and o_.hdwallet is st.w]
            if objs:
                txid, t = objs[op['pick'] % len(objs)]
                if op.get('how') == 'send':
                    t.send(broadcast=True)
                else:
                    t.store()
                st.flags.add('sent_object_sent_again')
        elif name == 'delete':
            if st.stored:
                if 'last' in op:
                    order = [x for x in st.sent if x in st.stored]
                    txid = order[-1 - (op['last'] % len(order))]
                else:
                    txid = sorted(st.stored)[op['key'] % len(st.stored)]
                w.transaction_delete(txid)
                del st.stored[txid]
                st.spent = {k: v for k, v in st.spent.items() if v != txid}
                if 'broadcast' in st.flags:
                    st.flags.add('delete_after_broadcast')
        elif name == 'reopen':
            wu.close_wallet(w)
            st.w = _open(st)
            if 'broadcast' in st.flags:
                st.flags.add('reopen_after_broadcast')
        elif name == 'second_reader':
            st.flags.add('second_reader')
            pass   # the invariant check below always consults a second reader when this flag is set
        else:
            raise AssertionError(name)
    except Discrepancy:
        raise
    except Exception as e:
        ctx.refusal('%s.%s' % (name, (type(e).__name__ + ':' + str(e))[:50]))


def check_invariants(ctx, st, case, step):
    from props import wallet_util as wu

    def bad(bucket, msg):
        raise Discrepancy(bucket, '%s (after step %d: %r)' % (msg, step, case['ops'][step] if step >= 0 else None),
                          case)

    accounts = getattr(st, 'accounts', [0])

    def numbers(w):
        # all accounts: the unspent outputs of every account, the per-key balances of every key
        us = []
        for a in accounts:
            us += w.utxos(account_id=a)
        bal = w.balance()
        ks = w.keys()
        per_key = sum(k.balance for k in ks)
        per_key2 = sum(w.key(k.id).balance() for k in ks)
        return us, bal, per_key, per_key2

    try:
        us, bal, per_key, per_key2 = numbers(st.w)
        default_total = sum(u['value'] for u in st.w.utxos())
        per_account = [(a, st.w.balance(account_id=a), sum(u['value'] for u in st.w.utxos(account_id=a)))
                       for a in accounts] if len(accounts) > 1 else []
        bal_again = st.w.balance()
    except Exception as e:
        bad('observe.raises', 'reading balance/utxos/keys raised %r' % e)
    total = sum(u['value'] for u in us)
    if bal != default_total or bal_again != default_total:
        bad('I1.balance_vs_utxos', 'balance() %r (again: %r) != sum(utxos()) %r of the default account%s' %
            (bal, bal_again, default_total, '' if len(accounts) == 1 else ' (accounts %r)' % accounts))
    for a, b_a, u_a in per_account:
        if b_a != u_a:
            bad('I1.account_balance', 'balance(account_id=%d) %r != sum(utxos(account_id=%d)) %r' % (a, b_a, a, u_a))
        # the same equation one level down: the keys of an account carry that account's balance
        try:
            k_a = sum(k.balance for k in st.w.keys(account_id=a))
        except Exception as e:
            bad('observe.raises', 'reading keys(account_id=%d) raised %r' % (a, e))
        if k_a != b_a and not getattr(st, 'cross_account', False):
            bad('I2.account_keys_balance', 'balance(account_id=%d) %r != sum of the balances of that account\'s keys %r'
                % (a, b_a, k_a))
    if per_key != total:
        ctx.disc('I2.keys_balance', 'sum(keys()[*].balance) %r != sum(utxos()) %r (after step %d: %r)' %
                 (per_key, total, step, case['ops'][step] if step >= 0 else None), case,
                 kf='C08-keys-balance-stale-in-updating-object')
    if per_key2 != total:
        bad('I2.key_balance_method', 'sum(key(id).balance()) %r != sum(utxos()) %r' % (per_key2, total))
    # I6: the key records themselves - every key stays a key of the account its path names (read from the database
    # file, not through the wallet object)
    if len(accounts) > 1:
        import sqlite3
        try:
            con = sqlite3.connect('file:%s?mode=ro' % st.path, uri=True)
            try:
                rows = con.execute('select id, path, account_id from keys where wallet_id = ? and depth = 5',
                                   (st.w.wallet_id,)).fetchall()
            finally:
                con.close()
        except Exception as e:
            raise HarnessError('reading the keys table raised %r' % e)
        for kid, kpath, kacc in rows:
            parts = (kpath or '').split('/')
            if len(parts) == 6 and parts[3].endswith("'") and parts[3][:-1].isdigit() and kacc != int(parts[3][:-1]):
                bad('I6.key_account', 'key %d at %s is recorded as a key of account %r' % (kid, kpath, kacc))
    listed = set((u['txid'], u['output_n']) for u in us)
    if len(listed) != len(us):
        bad('I3.duplicate_utxo', 'utxos() lists an outpoint twice')
    for outp, txid in st.spent.items():
        if outp in listed:
            bad('I3.spent_listed', 'outpoint %s:%d consumed by stored sent transaction %s is listed as unspent' %
                (outp[0][:12], outp[1], txid[:12]))
    # I4: stored transactions reload identically
    drafts = getattr(st, 'drafts', {})
    for txid, snap in list(st.stored.items()) + [(k_, v_) for k_, v_ in drafts.items() if k_ not in st.stored]:
        try:
            t = st.w.transaction(txid)
        except Exception as e:
            bad('I4.reload.raises', 'transaction(%s) raised %r' % (txid[:12], e))
        if t is None and txid not in st.stored:
            continue            # (an unsent draft may be dropped again by the wallet, e.g. with the unconfirmed ones)
        if t is None:
            bad('I4.missing', 'stored transaction %s not found' % txid[:12])
        try:
            now = _snapshot(t)
        except Exception as e:
            bad('I4.reload.raises', 'reading reloaded transaction %s raised %r' % (txid[:12], e))
        for field in ('txid', 'inputs', 'outputs', 'raw'):
            a, b = now[field], snap[field]
            if field == 'inputs':
                a, b = [tuple(x) for x in a], [tuple(x) for x in b]
            if field == 'outputs':
                a, b = [tuple(x) for x in a], [tuple(x) for x in b]
            if a != b:
                bad('I4.reload.' + field, 'reloaded transaction %s differs in %s: %r vs stored %r' %
                    (txid[:12], field, str(a)[:200], str(b)[:200]))
    # I5: another Wallet object on the same database sees the same numbers
    if 'second_reader' in st.flags or 'reopen_after_broadcast' in st.flags:
        w2 = None
        try:
            w2 = _open(st)
            us2, bal2, pk2, pk22 = numbers(w2)
        except Exception as e:
            bad('I5.raises', 'second reader raised %r' % e)
        finally:
            if w2 is not None:
                wu.close_wallet(w2)
        if sorted((u['txid'], u['output_n'], u['value']) for u in us2) != \
                sorted((u['txid'], u['output_n'], u['value']) for u in us):
            bad('I5.utxos', 'second reader lists different utxos')
        if bal2 != default_total or pk2 != total or pk22 != total:
            bad('I5.numbers', 'second reader: balance %r, key sums %r/%r; first object: %r/%r' %
                (bal2, pk2, pk22, bal, total))


def run_case(ctx, case):
    import os
    from props import wallet_util as wu
    wu.quiet_logging()
    wu.reseed(case['rng'])
    tag = 'c08-%d-%d' % (os.getpid(), ctx.evaluations)
    try:
        st = _create(case, tag)
    except Exception as e:
        ctx.refusal('create.%s' % type(e).__name__)
        ctx.note('create_refusal', repr(e)[:200])
        return set()
    try:
        with wu.deterministic_gc():
            check_invariants(ctx, st, case, -1)
            for n, op in enumerate(case['ops']):
                wu.reseed(case['rng'] + n + 1)
                apply_op(ctx, st, op, case)
                check_invariants(ctx, st, case, n)
        return st.flags
    finally:
        wu.close_wallet(st.w)
        try:
            os.remove(st.path)
        except OSError:
            pass


def replay(ctx, case):
    run_case(ctx, case)


def probes(ctx):
    saved = ctx.findings
    ctx.findings = {}
    case = {'kind': 'history', 'rng': 1,
            'wallet': {'kind': 'hd', 'witness_type': 'segwit', 'seed': '00' * 16},
            'ops': [{'op': 'utxos_update'}]}
    try:
        try:
            replay(ctx, case)
            ctx.probe('C08-keys-balance-stale-in-updating-object', False, '')
        except Discrepancy as d:
            ctx.probe('C08-keys-balance-stale-in-updating-object', d.bucket.startswith('I2.keys_balance'),
                      'Wallet.keys()[*].balance lags one operation behind in the Wallet object that performed the '
                      'update (stale ORM rows after bulk_update_mappings)')
    finally:
        ctx.findings = saved


def _strategy(ctx):
    from hypothesis import strategies as st
    value = st.one_of(st.sampled_from([999, 1000, 1001, 50000, 10 ** 8]), st.integers(2000, 10 ** 8))
    send = {'key': st.integers(0, 5), 'foreign': st.booleans(), 'num': st.sampled_from([1, 1, 1, 2, 9]),
            'den': st.sampled_from([3, 10, 10, 100]), 'broadcast': st.sampled_from([True, True, True, False]),
            'min_confirms': st.sampled_from([1, 1, 0])}
    op = st.one_of(
        st.just({'op': 'new_key'}), st.just({'op': 'new_key_change'}), st.just({'op': 'get_key'}),
        st.fixed_dictionaries({'op': st.just('utxo_add'), 'key': st.integers(0, 5), 'value': value,
                               'n': st.integers(0, 2), 'conf': st.sampled_from([0, 1, 1, 6])}),
        st.fixed_dictionaries({'op': st.just('utxo_add'), 'key': st.integers(0, 5), 'value': value,
                               'n': st.integers(0, 2), 'conf': st.sampled_from([0, 1, 1, 6])}),
        st.just({'op': 'utxos_update'}),
        st.fixed_dictionaries(dict(send, op=st.just('send'))),
        st.fixed_dictionaries(dict(send, op=st.just('send'))),
        st.fixed_dictionaries(dict(send, op=st.just('sweep'))),
        st.fixed_dictionaries(dict(send, op=st.just('import_send'),
                                   medium=st.sampled_from(['object', 'dict', 'raw']),
                                   seq=st.sampled_from([None, None, 0, 0, 1, 0xfffffffd]))),
        st.fixed_dictionaries({'op': st.just('delete'), 'key': st.integers(0, 5)}),
        st.fixed_dictionaries({'op': st.just('delete_funding'), 'pick': st.integers(0, 5)}),
        st.fixed_dictionaries({'op': st.just('delete_received'), 'pick': st.integers(0, 5),
                               'all': st.sampled_from([False, True, True])}),
        st.just({'op': 'remove_unconfirmed'}),
        st.fixed_dictionaries({'op': st.just('store_draft'), 'key': st.integers(0, 5), 'num': st.sampled_from([1, 1, 3]),
                               'den': st.sampled_from([4, 10]), 'min_confirms': st.sampled_from([0, 1]),
                               'unsigned_first': st.booleans()}),
        st.fixed_dictionaries({'op': st.just('restore'), 'pick': st.integers(0, 3), 'how': st.sampled_from(['store', 'send'])}),
        st.fixed_dictionaries({'op': st.just('restore'), 'pick': st.just(0), 'how': st.sampled_from(['store', 'send'])}),
        st.fixed_dictionaries({'op': st.just('send_outputs'), 'key': st.integers(0, 5), 'num': st.integers(1, 5),
                               'den': st.just(10), 'min_confirms': st.sampled_from([0, 1]), 'shuffle': st.booleans(),
                               'own_first': st.booleans()}),
        st.fixed_dictionaries({'op': st.just('resend_object'), 'pick': st.integers(0, 3), 'how': st.sampled_from(['store', 'send'])}),
        st.fixed_dictionaries({'op': st.just('resend_object'), 'pick': st.just(0), 'how': st.sampled_from(['store', 'send'])}),
        st.just({'op': 'new_account'}), st.just({'op': 'new_account', 'fundable': True}),
        st.fixed_dictionaries({'op': st.just('pay_other_account'), 'pick': st.integers(0, 2),
                               'num': st.integers(1, 9), 'den': st.just(10), 'min_confirms': st.sampled_from([0, 1])}),
        st.fixed_dictionaries({'op': st.just('sweep_account'), 'pick': st.integers(0, 3)}),
        st.just({'op': 'reopen'}), st.just({'op': 'second_reader'}),
    )
    wallet = st.fixed_dictionaries({
        'kind': st.sampled_from(['hd', 'hd', 'hd', 'single', 'ms']),
        'witness_type': st.sampled_from(['legacy', 'segwit', 'p2sh-segwit']),
        'seed': st.binary(min_size=16, max_size=16).map(bytes.hex)})
    fund = st.one_of(st.just({'op': 'utxos_update'}),
                     st.fixed_dictionaries({'op': st.just('utxo_add'), 'key': st.integers(0, 5), 'value': value,
                                            'n': st.integers(0, 2), 'conf': st.sampled_from([1, 6])}))
    # every history starts by funding the wallet (a history without funds refuses every spend)
    spend_out = st.fixed_dictionaries({'op': st.just('spend_output'), 'of': st.integers(0, 3), 'n': st.integers(0, 2),
                                       'key': st.integers(0, 5)})
    own_send = st.fixed_dictionaries(dict(send, op=st.just('send'), foreign=st.just(False), broadcast=st.just(True),
                                          min_confirms=st.just(0)))
    # directed prefix: a transaction with several own outputs whose outputs are then spent one by one by different
    # transactions, one of which is deleted again (sibling outputs, delete/un-spend bookkeeping)
    sibling = st.tuples(own_send, st.lists(st.one_of(spend_out, spend_out, st.just({'op': 'reopen'})), min_size=2,
                                           max_size=4),
                        st.fixed_dictionaries({'op': st.just('delete'), 'key': st.integers(0, 5),
                                               'last': st.integers(0, 2)})).map(lambda t: [t[0]] + t[1] + [t[2]])
    tail = st.lists(st.one_of(op, op, op, spend_out), min_size=3, max_size=ctx.scale(22, 45))
    # directed prefix: a second account is funded BETWEEN two funded keys of the first one (key -1 = newest key)
    add_last = st.fixed_dictionaries({'op': st.just('utxo_add'), 'key': st.just(-1), 'value': value,
                                      'n': st.integers(0, 2), 'conf': st.sampled_from([1, 6])})
    accounts = st.tuples(add_last, add_last).map(
        lambda t: [{'op': 'new_account'}, {'op': 'new_key'}, t[0], {'op': 'new_account'}, {'op': 'new_key'}, t[1],
                   {'op': 'sweep_account', 'pick': 1}])
    # ... and a key of the second account is paid from the first account
    pay_other = st.tuples(st.integers(0, 1), st.integers(1, 5)).map(
        lambda t: [{'op': 'new_account'}, {'op': 'pay_other_account', 'pick': t[0], 'num': t[1], 'den': 10,
                                           'min_confirms': 0}, {'op': 'reopen'}])
    # directed prefix: outputs of a sent transaction are spent by later ones, then the FIRST transaction object is sent /
    # stored again
    resend = st.tuples(own_send, st.lists(st.one_of(spend_out, spend_out, st.just({'op': 'new_key'})), min_size=1,
                                          max_size=3),
                       st.sampled_from(['store', 'send'])).map(
        lambda t: [t[0]] + t[1] + [{'op': 'resend_object', 'pick': 0, 'how': t[2]}])
    ops = st.one_of(
        st.tuples(st.lists(fund, min_size=1, max_size=2), accounts, tail).map(lambda t: t[0] + t[1] + t[2]),
        st.tuples(st.lists(fund, min_size=1, max_size=2), resend, tail).map(lambda t: t[0] + t[1] + t[2]),
        st.tuples(st.lists(fund, min_size=1, max_size=2), pay_other, tail).map(lambda t: t[0] + t[1] + t[2]),
        st.tuples(st.lists(fund, min_size=1, max_size=3), tail).map(lambda t: t[0] + t[1]),
        st.tuples(st.lists(fund, min_size=1, max_size=2), sibling, tail).map(lambda t: t[0] + t[1] + t[2]))
    return st.fixed_dictionaries({'kind': st.just('history'), 'wallet': wallet, 'ops': ops,
                                  'rng': st.integers(0, 2 ** 31)})


def run(ctx):
    def prop(case):
        wc = case['wallet']
        ctx.klass('wallet.%s.%s' % (wc['kind'], wc['witness_type']))
        flags = run_case(ctx, case)
        for f in flags:
            ctx.klass('history.' + f)
        if flags & {'reopen_after_broadcast', 'update_after_broadcast', 'delete_after_broadcast'}:
            ctx.nt(case)
            if len(ctx.samples) < 2:
                ctx.sample(case)
    ctx.run_given('history', _strategy(ctx), prop, ctx.scale(14, 150), shrink=ctx.tier == 'thorough')
