"""C12 - every key export format imports back to the same key and metadata; format detection of the
self-describing formats (WIF, extended keys, BIP38) never confuses private and public material.

Oracle: round trip by the property's own wording, with the reference on the side: every exported representation
is first compared with the representation the reference models produce (ref/ec, ref/base58, ref/bip32 and the pinned
prefix table in ref/address), and what is imported is the *reference* string/bytes; the imported object is compared
with the reference key, never with another library object.
"""
from vlib.core import Discrepancy

LEVEL = 'exploration'
TECHNIQUE = ('finite configuration matrix (networks x extended-key versions x import entry points / networks x WIF '
             'compressions) enumerated for fixed keys + Hypothesis-generated keys, metadata and hint sets; round trip '
             'with reference-side encoders')
RULE = ('plain keys: secret from boundary classes (small, near n, leading zero bytes, last byte 01, first byte 02/03/04), '
        'compressed flag, one of the 11 networks; every representation (int, hex, bytes, decimal string, hex+01, bytes+01, '
        'WIF, public hex/bytes compressed and uncompressed, point) is exported, compared with the reference encoding and '
        'imported through Key / HDKey / Key.from_wif with a drawn hint set (network, compressed, is_private). Extended keys: '
        'secret/chain/depth/fingerprint/child number arbitrary (HDKey(key=..) or one derivation step), every (network, witness '
        'type, multisig, private|public) combination of the pinned table, exported with wif()/wif_private()/wif_public() '
        '(also with explicit witness_type/multisig arguments), imported through HDKey(..) and HDKey.from_wif(..) with and '
        'without hints; get_key_format on WIF, extended keys and BIP38-shaped strings; BIP38 export (compared with '
        'ref/bip38) -> Key(bip38, password=) import for secrets biased to a last byte 01/00. Non-trivial = non-bitcoin network or '
        'witness type other than segwit (library default) or multisig or leading-zero secret or depth > 0 or uncompressed; '
        'distinct by (key, metadata, configuration, import specs). [every imported object: both public encodings, x, y against the reference and import of its own exports; secrets whose point has leading-zero coordinates] [BIP38 round trips also through HDKey]'
        ' [WIF imported with the opposite compressed argument; plain formats imported into HDKey with a supplied witness type and multisig flag]')
ASSUMPTIONS = ['ref/networks_pinned.json holds the intended prefix of every network (snapshot of the baseline, cross-checked '
               'against public chain parameters for bitcoin/testnet/litecoin/dogecoin)',
               'witness type / multisig are demanded after import only when the version bytes determine them uniquely among '
               'the candidate networks or when they were supplied as hints; network must be one of the networks sharing '
               'the prefix and equal to the hint when given; "multiple networks found" refusals are allowed without a hint',
               'decimal strings are demanded only where unambiguous: all-digit strings of length 64/66/128/130 are '
               'indistinguishable from hex encodings and are excluded; a refusal of a decimal string is not a violation',
               'hex+01 / bytes+01 whose first byte is 02/03 (bytes+01: also 04) collide with public-key encodings and are '
               'excluded (import-only conveniences, not export formats)',
               'uncompressed extended keys are outside BIP32 and not generated',
               'BIP38 strings are only classified (get_key_format), not decrypted (C15 covers the round trip)']
SHARDS = {'quick': 16, 'thorough': 16}
WALL_CAP = {'quick': 600, 'thorough': 3000}

KF_WIF01 = 'C12-uncompressed-wif-secret-ending-01-read-as-compressed'

PRIVATE_FORMATS = ['int', 'hex', 'bytes', 'dec', 'hex01', 'bytes01', 'wif']
PUBLIC_FORMATS = ['pub_hex', 'pub_bytes', 'pub_hex_c', 'pub_hex_u', 'pub_bytes_c', 'pub_bytes_u', 'point']
WITNESS_TYPES = ['legacy', 'p2sh-segwit', 'segwit']


def _lib():
    import bitcoinlib.keys as K
    return K


# ---- reference helpers ----------------------------------------------------------------------------------

def _wif_networks(net):
    from ref import address
    p = address.prefix_wif(net)
    return [n for n in address.NETWORK_NAMES if address.prefix_wif(n) == p]


def _version_entries(version, networks=None):
    """All pinned (network, entry) pairs carrying these version bytes."""
    from ref import address
    out = []
    for n in (networks or address.NETWORK_NAMES):
        for e in address.xkey_versions(n):
            if e['version'] == version:
                out.append((n, e))
    return out


def _representation(fmt, d, pt, compressed, net):
    from ref import address, ec
    if fmt == 'int':
        return d
    if fmt == 'hex':
        return '%064x' % d
    if fmt == 'bytes':
        return d.to_bytes(32, 'big')
    if fmt == 'dec':
        return str(d)
    if fmt == 'hex01':
        return '%064x01' % d
    if fmt == 'bytes01':
        return d.to_bytes(32, 'big') + b'\x01'
    if fmt == 'wif':
        return address.wif(d, net, compressed)
    c, u = ec.ser_compressed(pt), ec.ser_uncompressed(pt)
    if fmt == 'pub_hex':
        return (c if compressed else u).hex()
    if fmt == 'pub_bytes':
        return c if compressed else u
    if fmt == 'pub_hex_c':
        return c.hex()
    if fmt == 'pub_hex_u':
        return u.hex()
    if fmt == 'pub_bytes_c':
        return c
    if fmt == 'pub_bytes_u':
        return u
    if fmt == 'point':
        return (pt[0], pt[1])
    raise ValueError(fmt)


def _short(v):
    s = v.hex() if isinstance(v, bytes) else str(v)
    return s if len(s) <= 140 else s[:137] + '...'


# ---- plain keys -------------------------------------------------------------------------------------------

def _check_key_exports(k0, d, pt, compressed, net, case):
    from ref import address, ec
    c, u = ec.ser_compressed(pt), ec.ser_uncompressed(pt)
    own = c if compressed else u
    want = [
        ('secret', lambda: k0.secret, d),
        ('int()', lambda: int(k0), d),
        ('private_hex', lambda: k0.private_hex, '%064x' % d),
        ('private_byte', lambda: k0.private_byte, d.to_bytes(32, 'big')),
        ('as_bytes(private=True)', lambda: k0.as_bytes(private=True), d.to_bytes(32, 'big')),
        ('wif()', lambda: k0.wif(), address.wif(d, net, compressed)),
        ('public_hex', lambda: k0.public_hex, own.hex()),
        ('public_byte', lambda: k0.public_byte, own),
        ('hex()', lambda: k0.hex(), own.hex()),
        ('as_hex()', lambda: k0.as_hex(), own.hex()),
        ('as_bytes()', lambda: k0.as_bytes(), own),
        ('bytes()', lambda: bytes(k0), own),
        ('public_compressed_hex', lambda: k0.public_compressed_hex, c.hex()),
        ('public_compressed_byte', lambda: k0.public_compressed_byte, c),
        ('public_uncompressed_hex', lambda: k0.public_uncompressed_hex, u.hex()),
        ('public_uncompressed_byte', lambda: k0.public_uncompressed_byte, u),
        ('public_point()', lambda: tuple(k0.public_point()), (pt[0], pt[1])),
        ('compressed', lambda: k0.compressed, compressed),
        ('is_private', lambda: k0.is_private, True),
        ('network', lambda: k0.network.name, net),
    ]
    for name, f, exp in want:
        try:
            got = f()
        except Exception as e:
            raise Discrepancy('export.key.raises', 'Key export %s raised %r' % (name, e), case)
        if got != exp:
            raise Discrepancy('export.key.' + name, 'Key(%d, network=%s, compressed=%s).%s = %s, reference %s' %
                              (d, net, compressed, name, _short(got), _short(exp)), case)
    try:
        kp = k0.public()
        got = (kp.is_private, kp.secret, kp.private_hex, kp.private_byte, kp.public_hex, kp.compressed, kp.network.name)
    except Exception as e:
        raise Discrepancy('export.key.raises', 'Key.public() raised %r' % e, case)
    exp = (False, None, None, None, own.hex(), compressed, net)
    if got != exp:
        raise Discrepancy('export.key.public()', 'public() gives %r, expected %r' % (got, exp), case)
    try:
        w = kp.wif()
    except Exception:
        pass
    else:
        raise Discrepancy('export.key.public_wif', 'wif() of a public-only Key returned %r' % w, case)


def _ambiguous(fmt, rep, d):
    """Representations that are (by construction of the formats) indistinguishable from another format."""
    first = d.to_bytes(32, 'big')[0]
    if fmt == 'dec' and len(rep) in (64, 66, 128, 130):
        return 'decimal string of hex-encoding length'
    if fmt == 'hex01' and first in (2, 3):
        return 'hex+01 starting with 02/03 (= compressed public key encoding)'
    if fmt == 'bytes01' and first in (2, 3, 4):
        return 'bytes+01 starting with 02/03/04 (= public key encoding lengths)'
    return None


def _public_views(imp, pt, what, bucket, case):
    """Every public-point export of an imported object, in both encodings, against the reference serialisation, and
    the second hop: the exported encodings import to the same point (whatever form the object was imported from)."""
    from ref import ec
    K = _lib()
    c, u = ec.ser_compressed(pt), ec.ser_uncompressed(pt)
    for name, f, exp in [('public_compressed_hex', lambda: imp.public_compressed_hex, c.hex()),
                         ('public_compressed_byte', lambda: imp.public_compressed_byte, c),
                         ('public_uncompressed_hex', lambda: imp.public_uncompressed_hex, u.hex()),
                         ('public_uncompressed_byte', lambda: imp.public_uncompressed_byte, u),
                         ('x', lambda: imp.x, pt[0]), ('y', lambda: imp.y, pt[1])]:
        try:
            got = f()
        except Exception as e:
            raise Discrepancy(bucket + '.views.raises', '%s: export %s raised %r' % (what, name, e), case)
        if got != exp:
            raise Discrepancy(bucket + '.views.' + name, '%s: %s is %s, reference %s' %
                              (what, name, _short(got), _short(exp)), case)
    for name, rep, exp_c in [('public_uncompressed_hex', u.hex(), False), ('public_uncompressed_byte', u, False),
                             ('public_compressed_hex', c.hex(), True)]:
        try:
            again = K.Key(getattr(imp, name))
            got = (bool(again.is_private), tuple(again.public_point()), again.compressed)
        except Exception as e:
            raise Discrepancy(bucket + '.second_hop.raises', '%s: Key(<its %s>) raised %r' % (what, name, e), case)
        if got != (False, (pt[0], pt[1]), exp_c):
            raise Discrepancy(bucket + '.second_hop.' + name, '%s: Key(<its %s>) gives (is_private, point, compressed)'
                              ' = %s, expected %s' % (what, name, _short(got), _short((False, pt, exp_c))), case)


def _import_plain(ctx, spec, d, pt, compressed, net, case):
    from ref import ec
    K = _lib()
    fmt, via, hints = spec['fmt'], spec['via'], spec['hints']
    rep = _representation(fmt, d, pt, compressed, net)
    private = fmt in PRIVATE_FORMATS
    amb = _ambiguous(fmt, rep, d)
    if amb:
        ctx.exclude(amb)
        return
    kw = {}
    if 'network' in hints:
        kw['network'] = net
    if 'compressed' in hints:
        kw['compressed'] = compressed
    if 'compressed_other' in hints and fmt == 'wif' and via != 'from_wif':
        # a WIF states its own compression flag: the argument (whose default, True, already loses against an
        # uncompressed WIF) does not override it in either direction
        kw['compressed'] = not compressed
    if 'is_private' in hints:
        kw['is_private'] = private
    if via == 'HDKey' and private and spec.get('hd'):
        # the plain formats say nothing about witness type and multisig flag: what the caller supplies is what the
        # extended key object is (and exports) afterwards
        kw['witness_type'], kw['multisig'] = spec['hd'][0], bool(spec['hd'][1])
    what = '%s(%s=%s%s)' % (via, fmt, _short(rep), ''.join(', %s=%r' % kv for kv in sorted(kw.items())))
    sharing = _wif_networks(net) if fmt == 'wif' else None
    try:
        if via == 'from_wif':
            imp = K.Key.from_wif(rep, **({'network': net} if 'network' in hints else {}))
        elif via == 'HDKey':
            imp = K.HDKey(rep, **kw)
        else:
            imp = K.Key(rep, **kw)
    except Exception as e:
        if fmt == 'dec':
            ctx.refusal('decimal string:' + type(e).__name__)
            return
        if fmt == 'wif' and 'network' not in hints and len(sharing) > 1 and 'multiple networks' in str(e):
            ctx.refusal('wif without network hint: multiple networks')
            return
        raise Discrepancy('import.plain.raises', '%s raised %r' % (what, e), case)
    try:
        got = {'is_private': imp.is_private, 'secret': imp.secret, 'compressed': imp.compressed,
               'network': imp.network.name, 'point': tuple(imp.public_point()), 'public_hex': imp.public_hex,
               'private_hex': imp.private_hex, 'private_byte': imp.private_byte}
    except Exception as e:
        raise Discrepancy('import.plain.attr_raises', '%s: reading attributes raised %r' % (what, e), case)

    def bad(field, exp):
        kf = None
        if (fmt == 'wif' and not compressed and d & 0xff == 1 and got['compressed'] is True and
                got['secret'] == d >> 8 and got['is_private'] is True):
            kf = KF_WIF01
        ctx.disc('import.plain.' + field, '%s: %s is %s, expected %s' % (what, field, _short(got[field]), _short(exp)),
                 case, kf=kf)
        return True

    if bool(got['is_private']) != private:
        return bad('is_private', private)
    if private:
        if got['secret'] != d:
            return bad('secret', d)
        if got['private_byte'] != d.to_bytes(32, 'big'):
            return bad('private_byte', d.to_bytes(32, 'big'))
        if not isinstance(got['private_hex'], str) or got['private_hex'].lower() != '%064x' % d:
            return bad('private_hex', '%064x' % d)
    elif got['secret'] is not None or got['private_hex'] or got['private_byte']:
        return bad('secret', None)
    if got['point'] != (pt[0], pt[1]):
        return bad('point', (pt[0], pt[1]))
    if fmt == 'wif' or fmt in ('pub_hex', 'pub_bytes'):
        exp_c = compressed
    elif fmt in ('hex01', 'bytes01', 'pub_hex_c', 'pub_bytes_c'):
        exp_c = True
    elif fmt in ('pub_hex_u', 'pub_bytes_u'):
        exp_c = False
    else:
        exp_c = compressed if 'compressed' in hints and via != 'from_wif' else None
    if exp_c is not None:
        if got['compressed'] is not exp_c:
            return bad('compressed', exp_c)
        exp_pub = (ec.ser_compressed(pt) if exp_c else ec.ser_uncompressed(pt)).hex()
        if got['public_hex'] != exp_pub:
            return bad('public_hex', exp_pub)
    if 'network' in hints:
        if got['network'] != net:
            return bad('network', net)
    elif sharing is not None and got['network'] not in sharing:
        return bad('network', sharing)
    if 'witness_type' in kw:
        try:
            got['witness_type'], got['multisig'] = imp.witness_type, bool(imp.multisig)
        except Exception as e:
            raise Discrepancy('import.plain.attr_raises', '%s: reading attributes raised %r' % (what, e), case)
        if got['witness_type'] != kw['witness_type']:
            return bad('witness_type', kw['witness_type'])
        if got['multisig'] is not kw['multisig']:
            return bad('multisig', kw['multisig'])
    _public_views(imp, pt, what, 'import.plain', case)
    return False


def check_key(ctx, case):
    from ref import ec, address
    K = _lib()
    d = int(case['secret'], 16)
    compressed = case['compressed']
    net = case['network']
    pt = ec.pubkey(d)
    try:
        k0 = K.Key(d, network=net, compressed=compressed)
    except Exception as e:
        raise Discrepancy('build.key.raises', 'Key(%d, network=%r, compressed=%r) raised %r' % (d, net, compressed, e),
                          case)
    _check_key_exports(k0, d, pt, compressed, net, case)
    for spec in case['imports']:
        _import_plain(ctx, spec, d, pt, compressed, net, case)
    # self-describing format: WIF is private material
    w = address.wif(d, net, compressed)
    try:
        kf = K.get_key_format(w)
    except Exception as e:
        ctx.refusal('get_key_format(wif):' + type(e).__name__)
        return
    if kf.get('is_private') is not True or kf.get('format') not in ('wif', 'wif_compressed'):
        raise Discrepancy('detect.wif', 'get_key_format(%s) = %r (a WIF is a private key)' % (w, kf), case)
    if kf.get('networks') and not set(kf['networks']) <= set(_wif_networks(net)):
        raise Discrepancy('detect.wif.networks', 'get_key_format(%s) networks %r, prefix belongs to %r' %
                          (w, kf['networks'], _wif_networks(net)), case)


# ---- extended keys ------------------------------------------------------------------------------------------

def _ref_xkey(case):
    from ref import bip32, ec
    if case.get('build') == 'derive':
        m = bip32.master(bytes.fromhex(case['seed']))
        return bip32.ckd_priv(m, case['child'])
    d = int(case['secret'], 16)
    return bip32.XKey(d, ec.pubkey(d), bytes.fromhex(case['chain']), case['depth'], bytes.fromhex(case['fp']),
                      case['child'])


def _lib_xkey(case, x, private):
    K = _lib()
    net, wt, ms = case['network'], case['witness_type'], case['multisig']
    if case.get('build') == 'derive':
        m = K.HDKey.from_seed(case['seed'], network=net, witness_type=wt, multisig=ms)
        idx = case['child']
        k = m.child_private(index=idx & 0x7fffffff, hardened=bool(idx & 0x80000000))
        return k if private else k.public()
    kw = dict(chain=x.chain, depth=x.depth, parent_fingerprint=x.parent_fp, child_index=x.child, network=net,
              witness_type=wt, multisig=ms)
    if private:
        return K.HDKey(key=x.secret.to_bytes(32, 'big'), **kw)
    if case.get('public_via') == 'public()':
        return K.HDKey(key=x.secret.to_bytes(32, 'big'), **kw).public()
    return K.HDKey(key=x.pub, is_private=False, **kw)


def _check_xfields(imp, x, private, what, ctx, case, exp_net, net_set, exp_wt, exp_ms):
    try:
        got = {'is_private': imp.is_private, 'secret': imp.secret, 'public_byte': imp.public_byte,
               'compressed': imp.compressed, 'chain': imp.chain, 'depth': imp.depth,
               'parent_fingerprint': imp.parent_fingerprint, 'child_index': imp.child_index,
               'network': imp.network.name, 'witness_type': imp.witness_type, 'multisig': imp.multisig,
               'private_byte': imp.private_byte, 'point': tuple(imp.public_point())}
    except Exception as e:
        raise Discrepancy('import.xkey.attr_raises', '%s: reading attributes raised %r' % (what, e), case)
    exp = [('is_private', private), ('secret', x.secret if private else None),
           ('private_byte', x.secret.to_bytes(32, 'big') if private else None),
           ('public_byte', x.pub), ('point', (x.point[0], x.point[1])), ('compressed', True), ('chain', x.chain),
           ('depth', x.depth), ('parent_fingerprint', x.parent_fp), ('child_index', x.child)]
    if exp_net is not None:
        exp.append(('network', exp_net))
    if exp_wt is not None:
        exp.append(('witness_type', exp_wt))
    if exp_ms is not None:
        exp.append(('multisig', exp_ms))
    for field, want in exp:
        g = got[field]
        if field in ('is_private', 'multisig'):
            g = bool(g)
        if g != want:
            raise Discrepancy('import.xkey.' + field, '%s: %s is %s, expected %s' % (what, field, _short(got[field]),
                                                                                     _short(want)), case)
    _public_views(imp, x.point, what, 'import.xkey', case)
    if exp_net is None and got['network'] not in net_set:
        raise Discrepancy('import.xkey.network', '%s: network is %s, the prefix belongs to %r' %
                          (what, got['network'], net_set), case)


def _import_xkey(ctx, spec, s, version, x, private, case):
    K = _lib()
    net, wt, ms = case['network'], case['witness_type'], case['multisig']
    via, hints = spec['via'], spec['hints']
    kw = {}
    if 'network' in hints:
        kw['network'] = net
    if 'multisig' in hints:
        kw['multisig'] = ms
    if 'witness_type' in hints and via == 'HDKey':
        kw['witness_type'] = wt
    what = '%s(%s%s)' % ('HDKey.from_wif' if via == 'from_wif' else 'HDKey', s,
                         ''.join(', %s=%r' % kv for kv in sorted(kw.items())))
    all_entries = _version_entries(version)
    net_set = sorted(set(n for n, _e in all_entries))
    scope = [(n, e) for n, e in all_entries if 'network' not in kw or n == net]
    wts = set(e['witness_type'] for _n, e in scope)
    mss = set(e['multisig'] for _n, e in scope)
    exp_wt = wt if 'witness_type' in kw else (list(wts)[0] if len(wts) == 1 else None)
    exp_ms = ms if 'multisig' in kw else (list(mss)[0] if len(mss) == 1 else None)
    try:
        imp = K.HDKey.from_wif(s, **kw) if via == 'from_wif' else K.HDKey(s, **kw)
    except Exception as e:
        if 'network' not in kw and len(net_set) > 1 and 'multiple networks' in str(e):
            ctx.refusal('xkey without network hint: multiple networks')
            return
        raise Discrepancy('import.xkey.raises', '%s raised %r' % (what, e), case)
    _check_xfields(imp, x, private, what, ctx, case, kw.get('network'), net_set, exp_wt, exp_ms)


def check_hd(ctx, case):
    from ref import address
    K = _lib()
    net, wt, ms = case['network'], case['witness_type'], case['multisig']
    try:
        x = _ref_xkey(case)
    except ValueError:
        ctx.exclude('reference: invalid BIP32 node')
        return
    orig_private = case['private']
    try:
        k0 = _lib_xkey(case, x, orig_private)
    except Exception as e:
        raise Discrepancy('build.xkey.raises', 'building the HDKey raised %r' % e, case)
    _check_xfields(k0, x, orig_private, 'original key', ctx, case, net, [net], wt, ms)

    # ---- export: every prefix the object can be asked for ---------------------------------------------------
    strings = {}                                  # private? -> (reference string, version)
    configs = [(wt, ms, None)] + [(c[0], c[1], True) for c in case.get('export_as', [])]
    for ewt, ems, explicit in configs:
        for prv in ((True, False) if orig_private else (False,)):
            kw = {}
            if explicit:
                # wif(multisig=False) means "use the object's flag" (falsy = default), so False is only passed
                # when it is the object's own value; the expectation follows what was actually requested
                kw = {'witness_type': ewt, 'multisig': ems} if (ems or not ms) else {'witness_type': ewt}
                ems = ems or ms
            version = address.xkey_version(net, prv, ewt, ems)
            name = '%s(%s)' % ('wif_private' if prv else 'wif_public', ', '.join('%s=%r' % kv for kv in sorted(kw.items())))
            try:
                got = k0.wif_private(**kw) if prv else k0.wif_public(**kw)
                got2 = k0.wif(is_private=prv, **kw)
            except Exception as e:
                if version is None:
                    ctx.refusal('export of a combination the network does not define')
                    continue
                raise Discrepancy('export.xkey.raises', '%s on %s/%s/%s raised %r' % (name, net, wt, ms, e), case)
            if version is None:
                raise Discrepancy('export.xkey.undefined_combination', '%s on network %s has no defined prefix for %s/%s '
                                  'but returned %s' % (name, net, ewt, 'multisig' if ems else 'single', got), case)
            want = x.xkey(version, prv)
            if got != want or got2 != want:
                raise Discrepancy('export.xkey.string', '%s on %s/%s/%s = %s (wif(is_private=%s) = %s), reference %s' %
                                  (name, net, wt, ms, got, prv, got2, want), case)
            if not explicit:
                strings[prv] = (want, version)
    if orig_private and (True in strings or False in strings):
        try:
            dflt = k0.wif()
        except Exception as e:
            raise Discrepancy('export.xkey.raises', 'wif() raised %r' % e, case)
        if dflt not in [v[0] for v in strings.values()]:
            raise Discrepancy('export.xkey.default', 'wif() = %s is neither the extended private nor public key of the '
                              'object' % dflt, case)

    if orig_private:
        # the plain WIF of an extended private key, and the documented 64-byte key||chain import
        try:
            wk = k0.wif_key()
        except Exception as e:
            raise Discrepancy('export.xkey.raises', 'wif_key() raised %r' % e, case)
        if wk != address.wif(x.secret, net, True):
            raise Discrepancy('export.xkey.wif_key', 'wif_key() = %s, reference %s' % (wk, address.wif(x.secret, net, True)),
                              case)
        blob = x.secret.to_bytes(32, 'big') + x.chain
        try:
            imp = K.HDKey(blob, network=net)
            got = (imp.is_private, imp.secret, imp.chain, imp.network.name, imp.public_byte)
        except Exception as e:
            raise Discrepancy('import.xkey.raises', 'HDKey(<32-byte key || 32-byte chain>=%s) raised %r' % (blob.hex(), e),
                              case)
        if got != (True, x.secret, x.chain, net, x.pub):
            raise Discrepancy('import.xkey.key_chain_bytes', 'HDKey(%s, network=%r) gives %r' % (blob.hex(), net, got), case)

    # ---- import + detection -------------------------------------------------------------------------------------
    for spec in case['imports']:
        prv = spec['string'] == 'prv'
        if prv not in strings:
            continue
        s, version = strings[prv]
        _import_xkey(ctx, spec, s, version, x, prv, case)
    for prv, (s, version) in sorted(strings.items()):
        try:
            kf = K.get_key_format(s)
        except Exception as e:
            ctx.refusal('get_key_format(xkey):' + type(e).__name__)
            continue
        fmt = 'hdkey_private' if prv else 'hdkey_public'
        if kf.get('is_private') is not prv or kf.get('format') != fmt:
            raise Discrepancy('detect.xkey', 'get_key_format(%s) = %r, the key is %s' % (s, kf, fmt), case)
        nets = set(n for n, _e in _version_entries(version))
        if kf.get('networks') and not set(kf['networks']) <= nets:
            raise Discrepancy('detect.xkey.networks', 'get_key_format(%s) networks %r, prefix belongs to %r' %
                              (s, kf['networks'], sorted(nets)), case)


def check_bip38fmt(ctx, case):
    """A BIP38-shaped string (any ciphertext) must be classified as private material."""
    from ref import base58
    K = _lib()
    s = base58.check_encode(bytes.fromhex(case['payload']))
    if len(s) != 58 or not s.startswith('6P'):
        ctx.exclude('payload does not encode to a 58-character 6P string')
        return
    try:
        kf = K.get_key_format(s)
    except Exception as e:
        ctx.refusal('get_key_format(bip38):' + type(e).__name__)
        return
    if kf.get('is_private') is not True or kf.get('format') != 'wif_protected':
        raise Discrepancy('detect.bip38', 'get_key_format(%s) = %r (BIP38 = encrypted private key)' % (s, kf), case)


def check_bip38rt(ctx, case):
    """BIP38 export -> import through Key: the reference-built encrypted string (and the library's own) must import
    back to the same secret, compression flag and public point. case: secret (hex), compressed, network, password"""
    from ref import bip38, ec, address as A
    K = _lib()
    sec = int(case['secret'], 16)
    comp, net, pw = case['compressed'], case['network'], case['password']
    prefix = bytes.fromhex(A.NETWORKS[net]['prefix_address'])
    want_pub = ec.ser_compressed(ec.pubkey(sec)) if comp else ec.ser_uncompressed(ec.pubkey(sec))
    ref_enc = bip38.encrypt_nonec(sec, comp, pw, prefix)
    encs = [('reference', ref_enc)]
    try:
        lib_enc = K.Key(sec, network=net, compressed=comp).encrypt(pw)
        if lib_enc != ref_enc:
            raise Discrepancy('bip38rt.export', 'Key(%x, compressed=%s, network=%s).encrypt(%r) = %s, BIP38 gives %s' %
                              (sec, comp, net, pw, lib_enc, ref_enc), case)
    except Discrepancy:
        raise
    except Exception as e:
        raise Discrepancy('bip38rt.export.raises', 'encrypt raised %r' % e, case)
    for name, enc in encs:
        # the same string through the HD key class (a key without derivation data)
        try:
            hk = K.HDKey(enc, password=pw, network=net, witness_type='legacy')
            hgot = (hk.secret, bool(hk.compressed), hk.public_byte, bool(hk.is_private))
        except Exception as e:
            raise Discrepancy('bip38rt.import_hdkey.raises', 'HDKey(%s, password=%r, network=%s, witness_type=legacy) '
                              'raised %r (secret %x, compressed=%s)' % (enc, pw, net, e, sec, comp), case)
        if hgot != (sec, comp, want_pub, True):
            raise Discrepancy('bip38rt.import_hdkey', 'HDKey(%s, password=%r, network=%s): (secret, compressed, public, '
                              'is_private) = %s, exported key had %s' %
                              (enc, pw, net, _short(hgot), _short((sec, comp, want_pub, True))), case)
        try:
            k = K.Key(enc, password=pw, network=net)
        except Exception as e:
            raise Discrepancy('bip38rt.import.raises', 'Key(%s [%s], password=%r, network=%s) raised %r (secret %x, '
                              'compressed=%s)' % (enc, name, pw, net, e, sec, comp), case)
        got = {'secret': k.secret, 'compressed': k.compressed, 'public': k.public_byte, 'is_private': k.is_private,
               'private_byte': k.private_byte}
        want = {'secret': sec, 'compressed': comp, 'public': want_pub, 'is_private': True,
                'private_byte': sec.to_bytes(32, 'big')}
        bad = [f for f in want if got[f] != want[f]]
        if bad:
            raise Discrepancy('bip38rt.import:' + ','.join(bad), 'Key(%s, password=%r, network=%s): %s' % (
                enc, pw, net, '; '.join('%s = %r, exported key had %r' % (f, got[f], want[f]) for f in bad)), case)


def check_history(ctx, case):
    """Exports must describe the key's *current* state whatever was exported before (caches): a sequence of
    exports and documented mutations (network_change) on one object, then every export is compared with the
    reference encoding for the current network."""
    from ref import address as A, bip32, ec
    from bitcoinlib.keys import HDKey, Key
    sec = int(case['sec'], 16)
    net = case['net']
    wt = 'legacy' if net.startswith('dogecoin') else case['wt']
    try:
        if case['cls'] == 'HDKey':
            k = HDKey(sec.to_bytes(32, 'big'), network=net, witness_type=wt, compressed=case['compressed'])
        else:
            k = Key(sec.to_bytes(32, 'big'), network=net, compressed=case['compressed'])
    except Exception as e:
        ctx.refusal('history.create.%s' % type(e).__name__)
        return
    cur = net
    for op in case['ops']:
        name = op['op']
        try:
            if name == 'wif_plain':
                got = k.wif_key() if case['cls'] == 'HDKey' else k.wif()
            elif name == 'wif_prefix':
                pre = A.prefix_wif(op['net'])
                got = k.wif_key(prefix=pre) if case['cls'] == 'HDKey' else k.wif(prefix=pre)
                want = A.wif(sec, op['net'], case['compressed'])
                if got != want:
                    raise Discrepancy('history.wif_prefix', 'WIF with explicit prefix of %s: %s want %s' %
                                      (op['net'], got, want), case)
                continue
            elif name == 'network_change':
                if case['cls'] != 'HDKey':
                    continue
                new = op['net']
                if wt != 'legacy' and new.startswith('dogecoin'):
                    continue
                k.network_change(new)
                cur = new
                continue
            elif name == 'address':
                k.address()
                continue
            elif name == 'xkey':
                if case['cls'] == 'HDKey':
                    k.wif(is_private=True)
                continue
            else:
                continue
        except Discrepancy:
            raise
        except Exception as e:
            ctx.refusal('history.%s.%s' % (name, type(e).__name__))
            continue
        want = A.wif(sec, cur, case['compressed'])
        if got != want:
            raise Discrepancy('history.wif_stale', 'after %r the plain WIF export is %s, the key (network %s) encodes '
                              'to %s' % ([o['op'] for o in case['ops']], got, cur, want), case)
    # final: the extended key export carries the current network's prefix
    if case['cls'] == 'HDKey':
        try:
            x = k.wif(is_private=True)
        except Exception as e:
            ctx.refusal('history.final_xkey.%s' % type(e).__name__)
            return
        ver = A.xkey_version(cur, True, wt, False)
        if ver is not None:
            try:
                v, xk = bip32.parse_xkey(x)
            except Exception as e:
                raise Discrepancy('history.xkey_invalid', 'final extended key %s not decodable: %r' % (x, e), case)
            if v != ver or xk.secret != sec:
                raise Discrepancy('history.xkey_stale', 'final extended key has version %s secret ok=%s, current '
                                  'network %s wants version %s' % (v.hex(), xk.secret == sec, cur, ver.hex()), case)


DISPATCH = {'key': check_key, 'hd': check_hd, 'bip38fmt': check_bip38fmt, 'history': check_history,
            'bip38rt': check_bip38rt}


def replay(ctx, case):
    if 'probe' in case and 'kind' not in case:          # replay file written for a reproducing probe
        case = [c for fid, c, _w in _probe_cases() if fid == case['probe']][0]
    DISPATCH[case['kind']](ctx, case)


# ---- generators -----------------------------------------------------------------------------------------------

def _secret_strategy():
    from hypothesis import strategies as st
    from vlib import gen
    n = gen.N
    b31 = st.binary(min_size=31, max_size=31)
    return st.one_of(
        st.binary(min_size=32, max_size=32).map(lambda b: int.from_bytes(b, 'big')),
        st.integers(1, n - 1),
        gen.secrets(),
        b31.map(lambda b: int.from_bytes(b + b'\x01', 'big')),                       # last byte 01
        st.tuples(st.sampled_from([2, 3, 4, 0x80, 0xef]), b31).map(lambda t: int.from_bytes(bytes([t[0]]) + t[1], 'big')),
        st.integers(10 ** 60, 10 ** 70),                                            # short decimal strings
        # public points with leading zero bytes / nibbles in y or x (fixed-width padding of each coordinate)
        st.sampled_from([122, 130, 533, 544, 649, 726, 809, 832, 13, 23, 35, 41, 42, 59, 61, 99,
                         153, 246, 886, 1158, 1417, 1436, 45, 60, 66, 119, 133, 138]),
    ).filter(lambda v: 1 <= v < n)


def _hint_strategy(names):
    from hypothesis import strategies as st
    return st.lists(st.sampled_from(names), unique=True, max_size=len(names)).map(sorted)


def key_strategy(ctx):
    from hypothesis import strategies as st
    from vlib import gen

    @st.composite
    def plan(draw):
        imports = []
        for fmt in PRIVATE_FORMATS + PUBLIC_FORMATS:
            vias = ['Key', 'Key', 'HDKey'] + (['from_wif'] if fmt == 'wif' else [])
            imports.append({'fmt': fmt, 'via': draw(st.sampled_from(vias)),
                            'hints': draw(_hint_strategy(['network', 'compressed', 'is_private'])),
                            'hd': draw(st.sampled_from([None, None, ['legacy', 0], ['segwit', 1], ['p2sh-segwit', 1],
                                                        ['legacy', 1], ['segwit', 0]]))})
        if draw(st.booleans()):
            imports.append({'fmt': 'wif', 'via': draw(st.sampled_from(['Key', 'HDKey', 'from_wif'])),
                            'hints': draw(_hint_strategy(['network', 'compressed_other']))})
        return {'kind': 'key', 'secret': '%064x' % draw(_secret_strategy()),
                'compressed': draw(st.sampled_from([True, False, False])),
                'network': draw(gen.networks()), 'imports': imports}
    return plan()


def _xkey_import_specs(draw, st, private):
    specs = []
    for string in (['prv', 'pub'] if private else ['pub']):
        for _ in range(2):
            via = draw(st.sampled_from(['HDKey', 'HDKey', 'from_wif']))
            names = ['network', 'multisig'] + (['witness_type'] if via == 'HDKey' else [])
            specs.append({'string': string, 'via': via, 'hints': draw(_hint_strategy(names))})
    return specs


def hd_strategy(ctx):
    from hypothesis import strategies as st
    from vlib import gen

    @st.composite
    def plan(draw):
        net = draw(gen.networks())
        wt = draw(st.sampled_from(WITNESS_TYPES))
        ms = draw(st.booleans())
        private = draw(st.sampled_from([True, True, False]))
        case = {'kind': 'hd', 'network': net, 'witness_type': wt, 'multisig': ms, 'private': private}
        if draw(st.integers(0, 5)) == 0:
            case['build'] = 'derive'
            case['seed'] = draw(st.binary(min_size=16, max_size=64)).hex()
            case['child'] = draw(st.sampled_from([0, 1, 0x7fffffff, 0x80000000, 0x80000001, 0xffffffff]))
        else:
            case['build'] = 'fields'
            case['secret'] = '%064x' % draw(_secret_strategy())
            chain = draw(st.one_of(st.binary(min_size=32, max_size=32),
                                   st.binary(min_size=28, max_size=28).map(lambda b: bytes(4) + b)))
            case['chain'] = chain.hex()
            case['depth'] = draw(st.one_of(st.integers(0, 6), st.integers(0, 255), st.sampled_from([0, 1, 255])))
            case['fp'] = draw(st.one_of(st.binary(min_size=4, max_size=4), st.just(bytes(4)))).hex()
            case['child'] = draw(gen.u32_boundary())
            if not private:
                case['public_via'] = draw(st.sampled_from(['public()', 'pubkey']))
        case['export_as'] = [[draw(st.sampled_from(WITNESS_TYPES)), draw(st.booleans())]]
        case['imports'] = _xkey_import_specs(draw, st, private)
        return case
    return plan()


def bip38_strategy(ctx):
    from hypothesis import strategies as st
    head = st.sampled_from(['0142c0', '0142e0', '014300', '014304', '014320', '014324', '0142c8', '0142f8'])
    return st.fixed_dictionaries({'kind': st.just('bip38fmt'),
                                  'payload': st.tuples(head, st.binary(min_size=36, max_size=36)).map(
                                      lambda t: t[0] + t[1].hex())})


def _nt_key(case):
    return case['network'] != 'bitcoin' or case['secret'].startswith('00') or not case['compressed']


def _nt_hd(case):
    return (case['network'] != 'bitcoin' or case['witness_type'] != 'segwit' or case['multisig'] or
            case.get('secret', 'ff').startswith('00') or case.get('depth', 1) > 0)


def prop_key(ctx):
    from vlib import gen

    def f(case):
        d = int(case['secret'], 16)
        if _nt_key(case):
            ctx.nt(case)
            ctx.klass('key.nontrivial')
        ctx.klass('key.secret.' + gen.secret_class(d))
        ctx.klass('key.compressed' if case['compressed'] else 'key.uncompressed')
        if d & 0xff == 1:
            ctx.klass('key.secret_last_byte_01' + ('' if case['compressed'] else '.uncompressed'))
        if d.to_bytes(32, 'big')[0] in (2, 3, 4):
            ctx.klass('key.secret_first_byte_02_03_04')
        ctx.klass('key.network.' + case['network'])
        for spec in case['imports']:
            ctx.klass('key.import.%s.%s' % (spec['via'], 'hints' if spec['hints'] else 'nohints'))
        if len(ctx.samples) < 3:
            ctx.sample(case)
        check_key(ctx, case)
    return f


def prop_hd(ctx):
    def f(case):
        if _nt_hd(case):
            ctx.nt(case)
            ctx.klass('hd.nontrivial')
        ctx.klass('hd.%s.%s.%s' % (case['witness_type'], 'multisig' if case['multisig'] else 'single',
                                   'private' if case['private'] else 'public'))
        ctx.klass('hd.network.' + case['network'])
        ctx.klass('hd.build.' + case['build'])
        if case.get('depth', 0) > 0:
            ctx.klass('hd.depth>0')
        if case.get('secret', 'ff').startswith('00'):
            ctx.klass('hd.leading_zero_secret')
        for spec in case['imports']:
            ctx.klass('hd.import.%s.%s' % (spec['via'], '+'.join(spec['hints']) or 'nohints'))
        if len(ctx.samples) < 6:
            ctx.sample(case)
        check_hd(ctx, case)
    return f


# ---- finite configuration matrix --------------------------------------------------------------------------------

FIXED_KEYS = [
    # secret, chain, depth, fingerprint, child
    ('00003c6cb8d0f6a264c91ea8b5030fadaa8e538b020f0a387421a12de9319d01', '00' * 2 + '873dff81c02f525623fd1fe5167eac3a55a049de3d314bb42ee227ff' + 'ed37', 3, '01020304', 0x80000005),
    ('e8f32e723decf4051aefac8e2c93c9c5b214313817cdb01a1494b917c8436b35', '873dff81c02f525623fd1fe5167eac3a55a049de3d314bb42ee227ffed37d508', 0, '00000000', 0),
]

_XKEY_IMPORT_VARIANTS = [('HDKey', []), ('HDKey', ['network']), ('HDKey', ['multisig', 'network', 'witness_type']),
                         ('HDKey', ['multisig', 'witness_type']), ('from_wif', []), ('from_wif', ['network']),
                         ('from_wif', ['multisig', 'network']), ('from_wif', ['multisig'])]


def _matrix_cases():
    from ref import address
    out = []
    for ki, (sec, chain, depth, fp, child) in enumerate(FIXED_KEYS):
        for net in address.NETWORK_NAMES:
            for wt in WITNESS_TYPES:
                for ms in (False, True):
                    for private in (True, False):
                        specs = [{'string': 'prv' if private else 'pub', 'via': via, 'hints': hints}
                                 for via, hints in _XKEY_IMPORT_VARIANTS]
                        out.append({'kind': 'hd', 'build': 'fields', 'secret': sec, 'chain': chain, 'depth': depth,
                                    'fp': fp, 'child': child, 'network': net, 'witness_type': wt, 'multisig': ms,
                                    'private': private, 'public_via': 'pubkey' if ki else 'public()',
                                    'export_as': [], 'imports': specs})
            for compressed in (True, False):
                imports = []
                for via in ('Key', 'HDKey', 'from_wif'):
                    for hints in ([], ['network']):
                        imports.append({'fmt': 'wif', 'via': via, 'hints': hints})
                    if via != 'from_wif':
                        imports.append({'fmt': 'wif', 'via': via, 'hints': ['compressed_other', 'network']})
                for fmt in PRIVATE_FORMATS[:-1] + PUBLIC_FORMATS:
                    imports.append({'fmt': fmt, 'via': 'Key', 'hints': ['network']})
                out.append({'kind': 'key', 'secret': sec, 'compressed': compressed, 'network': net, 'imports': imports})
    return out


# ---- probes ---------------------------------------------------------------------------------------------------------

def _probe_cases():
    return [
        (KF_WIF01, {'kind': 'key', 'secret': '1234567890abcdef1234567890abcdef1234567890abcdef1234567890abcd01',
                    'compressed': False, 'network': 'bitcoin', 'imports': [{'fmt': 'wif', 'via': 'Key', 'hints': []}]},
         'an uncompressed WIF whose secret ends in byte 01 is imported as a compressed key with the secret shifted right '
         'by one byte (Key(...), Key.from_wif, HDKey(...)): the trailing 01 of the secret is taken for the compression flag'),
    ]


def probes(ctx):
    saved = ctx.findings
    ctx.findings = {}
    try:
        for fid, case, what in _probe_cases():
            try:
                replay(ctx, case)
                ctx.probe(fid, False, what)
            except Discrepancy:
                ctx.probe(fid, True, what)
            except Exception:
                ctx.probe(fid, False, what)
    finally:
        ctx.findings = saved


# ---- run ------------------------------------------------------------------------------------------------------------

def run(ctx):
    matrix = _matrix_cases()
    for i, case in enumerate(matrix):
        if i % ctx.nshards != ctx.shard:
            continue
        if ctx.out_of_time():
            ctx.exhaustive('configuration matrix', False)
            break
        if (_nt_hd(case) if case['kind'] == 'hd' else _nt_key(case)):
            ctx.nt(case)
        ctx.klass('matrix.' + case['kind'])
        ctx.guard(lambda c: replay(ctx, c), case)
    else:
        ctx.exhaustive('configuration matrix: 11 networks x 3 witness types x single/multisig x private/public x 8 import '
                       'variants, 11 networks x 2 compressions x WIF import variants, for 2 fixed keys')

    from hypothesis import strategies as hst
    from vlib import gen as _gen
    from ref import address as _A
    nets = hst.sampled_from(_A.NETWORK_NAMES)
    hop = hst.one_of(hst.just({'op': 'wif_plain'}), hst.just({'op': 'wif_plain'}),
                     hst.fixed_dictionaries({'op': hst.just('wif_prefix'), 'net': nets}),
                     hst.fixed_dictionaries({'op': hst.just('network_change'), 'net': nets}),
                     hst.just({'op': 'address'}), hst.just({'op': 'xkey'}))
    hist = hst.fixed_dictionaries({'kind': hst.just('history'), 'cls': hst.sampled_from(['HDKey', 'HDKey', 'Key']),
                                   'sec': _gen.secrets().map(lambda v: '%064x' % v), 'net': nets,
                                   'wt': hst.sampled_from(['legacy', 'segwit', 'p2sh-segwit']),
                                   'compressed': hst.sampled_from([True, True, False]),
                                   'ops': hst.lists(hop, min_size=2, max_size=6)})

    def prop_hist(case):
        ctx.nt(case)
        ctx.klass('history')
        if any(o['op'] == 'network_change' for o in case['ops']):
            ctx.klass('history.network_change')
        check_history(ctx, case)
    ctx.run_given('history', hist, prop_hist, ctx.scale(150, 4000))

    def prop_b38(case):
        ctx.nt(case)
        ctx.klass('bip38fmt')
        check_bip38fmt(ctx, case)
    ctx.run_given('bip38fmt', bip38_strategy(ctx), prop_b38, ctx.scale(20, 300))

    # BIP38 export -> import (two scrypt runs per case: few cases, biased to the secrets that flag bytes can hit)
    n = _gen.N
    flagged = hst.one_of(
        hst.tuples(hst.integers(1, (n >> 8) - 1), hst.sampled_from([0x01, 0x01, 0x00])).map(lambda t: t[0] << 8 | t[1]),
        hst.sampled_from([1, 0x0101, 0x01 << 248 | 0x01, n - 0x40]),        # n - 0x40 ends in 0x01
        hst.integers(1, (1 << 240) - 1).map(lambda v: v << 8 | 1), _gen.secrets())
    b38rt = hst.fixed_dictionaries({'kind': hst.just('bip38rt'), 'secret': flagged.map(lambda v: '%064x' % v),
                                    'compressed': hst.sampled_from([True, True, False]),
                                    'network': hst.sampled_from(['bitcoin', 'bitcoin', 'testnet', 'litecoin', 'dogecoin']),
                                    'password': hst.sampled_from(['pw', 'TestingOneTwoThree', 'Satoshi'])})

    def prop_b38rt(case):
        ctx.nt(('bip38rt', case['secret'], case['compressed'], case['network']))
        ctx.klass('bip38rt' + ('.secret_ends_01' if case['secret'].endswith('01') else ''))
        check_bip38rt(ctx, case)
    ctx.run_given('bip38rt', b38rt, prop_b38rt, ctx.scale(5, 200))
    ctx.run_given('key', key_strategy(ctx), prop_key(ctx), ctx.scale(200, 2400))
    ctx.run_given('hd', hd_strategy(ctx), prop_hd(ctx), ctx.scale(250, 3000))
