"""Field-level transaction / block generators built on the *reference* serialiser (ref/wire).

A case is a JSON-able dict:
  {'version': int, 'locktime': int, 'force_flag': bool,
   'vin': [{'prev': hex32 (as serialised), 'n': int, 'ss': hex, 'seq': int, 'wit': [hex, ...]}],
   'vout': [{'v': int, 'spk': hex}]}
"""
from hypothesis import strategies as st

from ref import wire, ec
from ref.hashes import hash160, sha256
from ref import address as raddr

CS_COUNTS = [252, 253, 254]


def tx_from_case(c):
    vin = [wire.TxIn(bytes.fromhex(i['prev']), i['n'], bytes.fromhex(i['ss']), i['seq'],
                     [bytes.fromhex(w) for w in i.get('wit', [])]) for i in c['vin']]
    vout = [wire.TxOut(o['v'], bytes.fromhex(o['spk'])) for o in c['vout']]
    return wire.Tx(c['version'], vin, vout, c['locktime'])


def case_from_tx(t):
    return {'version': t.version, 'locktime': t.locktime,
            'vin': [{'prev': i.prev_hash.hex(), 'n': i.prev_n, 'ss': i.script_sig.hex(), 'seq': i.sequence,
                     'wit': [w.hex() for w in i.witness]} for i in t.vin],
            'vout': [{'v': o.value, 'spk': o.script.hex()} for o in t.vout]}


def u32():
    return st.one_of(st.sampled_from([0, 1, 2, 0xffff, 0x10000, 499999999, 500000000, 0x7fffffff, 0x80000000,
                                      0xfffffffd, 0xfffffffe, 0xffffffff]), st.integers(0, 0xffffffff))


def u32_textlike():
    """4-byte fields whose bytes are all ASCII hex digits / digits (a parser that sniffs "is this hex text?" on raw
    bytes misreads them); about one mined block in 18 000 has such a nonce."""
    digs = st.sampled_from(list(b'0123456789abcdefABCDEF'))
    return st.lists(digs, min_size=4, max_size=4).map(lambda b: int.from_bytes(bytes(b), 'little'))


def hash32_textlike():
    digs = st.sampled_from(list(b'0123456789abcdef'))
    return st.lists(digs, min_size=32, max_size=32).map(bytes)


def values():
    # (the field is 8 bytes wide: amounts above the 21 million coin limit are not valid money but still have to
    # survive parsing and re-serialisation)
    return st.one_of(st.sampled_from([0, 1, 546, 1000, 0xffffffff, 0x100000000, 2100000000000000, 1 << 56,
                                      (1 << 56) + 1, (1 << 63) - 1]),
                     st.integers(0, 2100000000000000), st.integers(0, 2100000000000000))


_PUBS = [ec.ser_compressed(ec.pubkey(d)) for d in (1, 2, 3, 0x1234567)]
_PUBU = ec.ser_uncompressed(ec.pubkey(5))


def _fake_sig(n, short=False):
    """A strictly DER-encoded signature + SIGHASH_ALL byte with arbitrary r/s (parsers only look at the
    shape). Full size (70-73 bytes) unless short=True (small r/s as produced by low-r grinding tricks)."""
    h = sha256(b'fake-sig-%d' % n)
    h2 = sha256(h)
    if short:
        r = int.from_bytes(h[:9], 'big') % (ec.N - 1) + 1
        s = int.from_bytes(h2[:9], 'big') % (ec.N // 2 - 1) + 1
    else:
        r = (int.from_bytes(h, 'big') | (1 << 250)) % (ec.N - 1) + 1
        s = (int.from_bytes(h2, 'big') | (1 << 249)) % (ec.N // 2 - 1) + 1
    return ec.der_encode(r, s) + b'\x01'


def _sig(n):
    # every tenth signature is a short (low-r style) one; one in four carries another hash type byte than
    # SIGHASH_ALL (NONE, SINGLE, the ANYONECANPAY combinations) - parsers must keep it
    s = _fake_sig(n, short=(n % 10 == 0))
    if n % 4 == 1:
        s = s[:-1] + bytes([[0x02, 0x03, 0x81, 0x82, 0x83][(n // 4) % 5]])
    return s


def standard_spk():
    return st.one_of(
        st.binary(min_size=20, max_size=20).map(raddr.script_p2pkh),
        st.binary(min_size=20, max_size=20).map(raddr.script_p2sh),
        st.binary(min_size=20, max_size=20).map(raddr.script_p2wpkh),
        st.binary(min_size=32, max_size=32).map(raddr.script_p2wsh),
        st.binary(min_size=32, max_size=32).map(raddr.script_p2tr),
        st.sampled_from(_PUBS + [_PUBU]).map(raddr.script_p2pk),
        st.binary(min_size=0, max_size=80).map(lambda d: b'\x6a' + wire.push_data(d)),
        st.integers(1, 3).map(lambda m: raddr.script_multisig(m, _PUBS[:3])),
    )


def data_item(sizes=None):
    sizes = sizes or st.one_of(st.integers(1, 80), st.sampled_from([75, 76, 255, 256, 520]))
    return sizes.flatmap(lambda n: st.binary(min_size=n, max_size=n))


def pushonly_script(max_items=5):
    """A push-well-formed script made of data pushes and small-number opcodes."""
    item = st.one_of(data_item(), st.sampled_from([0x00, 0x4f, 0x51, 0x52, 0x60]))
    return st.lists(item, min_size=0, max_size=max_items).map(wire.script_build)


def wellformed_script(max_items=8):
    ops = st.sampled_from([0x00, 0x4f, 0x51, 0x60, 0x61, 0x63, 0x67, 0x68, 0x69, 0x6a, 0x75, 0x76, 0x87, 0x88, 0x93,
                           0xa9, 0xac, 0xae, 0xb1, 0xb2, 0xba, 0xff])
    item = st.one_of(ops, ops, data_item())
    return st.lists(item, min_size=0, max_size=max_items).map(wire.script_build)


def _explicit_push(enc, data):
    if enc == 0 and 1 <= len(data) <= 75:
        return bytes([len(data)]) + data
    n = {0: 1, 1: 1, 2: 2, 4: 4}[enc]
    return bytes([{1: 0x4c, 2: 0x4d, 4: 0x4e}[n]]) + len(data).to_bytes(n, 'little') + data


def explicit_push_script(max_items=4):
    """Push-well-formed scripts whose pushes use every encoding consensus allows (direct, OP_PUSHDATA1/2/4), also
    where a shorter encoding exists: the bytes must survive parsing and re-serialisation as they are."""
    push = st.builds(_explicit_push, st.sampled_from([0, 1, 2, 4]), st.binary(min_size=0, max_size=40))
    op = st.sampled_from([0x51, 0x6a, 0x75, 0x87, 0xac]).map(lambda b: bytes([b]))
    return st.lists(st.one_of(push, push, op), min_size=1, max_size=max_items).map(b''.join)


def one_byte_scripts():
    return st.integers(0, 255).map(lambda b: bytes([b]))


def any_script(allow_junk=True):
    alts = [standard_spk(), standard_spk(), wellformed_script(), pushonly_script(), st.just(b''),
            one_byte_scripts(), explicit_push_script()]
    if allow_junk:
        alts.append(st.binary(min_size=1, max_size=60))
    return st.one_of(*alts)


def _build_pushes(items, widths):
    """Script of the given items (0 = OP_0, bytes = data) where the k-th data item is pushed with OP_PUSHDATA1/2/4 when
    widths[k] is 1/2/4 (a longer form than needed: valid, and found in old transactions) and minimally otherwise."""
    out = b''
    k = 0
    for it in items:
        if it == 0:
            out += b'\x00'
            continue
        w = widths[k % len(widths)] if widths else 0
        k += 1
        if w in (1, 2, 4) and len(it) < 256 ** w:
            out += bytes([{1: 0x4c, 2: 0x4d, 4: 0x4e}[w]]) + len(it).to_bytes(w, 'little') + it
        else:
            out += wire.push_data(it)
    return out


def _push_widths():
    return st.one_of(st.just([]), st.just([]), st.just([]), st.lists(st.sampled_from([0, 0, 1, 2, 4]), min_size=1,
                                                                     max_size=4))


def p2pkh_scriptsig():
    return st.tuples(st.integers(0, 1000), st.sampled_from(_PUBS + [_PUBU]), _push_widths()).map(
        lambda t: _build_pushes([_sig(t[0]), t[1]], t[2]))


def p2sh_ms_scriptsig():
    return st.tuples(st.integers(0, 1000), st.integers(1, 3), _push_widths()).map(
        lambda t: _build_pushes([0] + [_sig(t[0] + k) for k in range(t[1])] +
                                [raddr.script_multisig(t[1], _PUBS[:3])], t[2]))


def witness_stack():
    p2wpkh = st.tuples(st.integers(0, 1000), st.sampled_from(_PUBS)).map(lambda t: [_sig(t[0]), t[1]])
    p2wsh = st.tuples(st.integers(0, 1000), st.integers(1, 3)).map(
        lambda t: [b''] + [_sig(t[0] + k) for k in range(t[1])] + [raddr.script_multisig(t[1], _PUBS[:3])])
    generic = st.lists(st.one_of(st.just(b''), one_byte_scripts(), data_item(), st.binary(min_size=32, max_size=32)),
                       min_size=1, max_size=5)
    taproot_key = st.binary(min_size=64, max_size=64).map(lambda b: [b])
    # stacks of real-looking signatures, keys and scripts in other arrangements than the two standard ones: a witness
    # script that is a p2pkh / p2pk script (signature, key, script), partially signed multisig (fewer signatures than the
    # script asks for), signatures and keys in other numbers
    p2pkh_ws = st.sampled_from(_PUBS).map(lambda k: bytes.fromhex('76a914') + hash160(k) + bytes.fromhex('88ac'))
    sig_ = st.integers(0, 1000).map(_sig)
    key_ = st.sampled_from(_PUBS)
    mixed = st.one_of(
        st.tuples(sig_, key_, p2pkh_ws).map(list),
        st.tuples(sig_, key_, key_).map(list),
        st.tuples(sig_, sig_, key_).map(list),
        st.tuples(sig_, st.integers(2, 3)).map(lambda t: [b'', t[0], raddr.script_multisig(t[1], _PUBS[:3])]),
        st.tuples(sig_, key_.map(lambda k: wire.push_data(k) + b'\xac')).map(list),
        st.lists(st.one_of(sig_, key_, st.just(b''), p2pkh_ws), min_size=1, max_size=4))
    return st.one_of(p2wpkh, p2wsh, generic, taproot_key, mixed)


@st.composite
def tx_cases(draw, max_in=4, max_out=4, allow_junk=True, allow_coinbase=True, big_counts=False, exotic=True):
    version = draw(st.one_of(st.sampled_from([1, 2]), u32()))
    locktime = draw(u32())
    segwit = draw(st.booleans())
    coinbase = allow_coinbase and draw(st.integers(0, 7)) == 0
    n_in = 1 if coinbase else draw(st.integers(1, max_in))
    if big_counts and not coinbase and draw(st.integers(0, 3)) == 0:
        n_in = draw(st.sampled_from(CS_COUNTS))
    vin = []
    for k in range(n_in):
        if coinbase:
            prev, n = '00' * 32, 0xffffffff
            ss = draw(st.binary(min_size=2, max_size=100))
            wit = [draw(st.one_of(st.just(bytes(32)), st.binary(min_size=32, max_size=32),
                                  st.tuples(st.integers(0x20, 0x4e), st.binary(min_size=31, max_size=31)).map(
                                      lambda t_: bytes([t_[0]]) + t_[1])))] if segwit and draw(st.booleans()) else []
        else:
            prev = draw(st.binary(min_size=32, max_size=32).filter(lambda b: b != bytes(32))).hex()
            n = draw(st.one_of(st.sampled_from([0, 1, 0xfffe, 0xffff, 0xfffffffe]), st.integers(0, 0xffffffff)))
            kind = draw(st.sampled_from(['p2pkh', 'p2sh_ms', 'native', 'native', 'nested', 'nested', 'any', 'empty',
                                         'one_byte'] + (['exotic'] if exotic else [])))
            wit = []
            if kind == 'p2pkh':
                ss = draw(p2pkh_scriptsig())
            elif kind == 'p2sh_ms':
                ss = draw(p2sh_ms_scriptsig())
            elif kind == 'native':
                ss = b''
                wit = draw(witness_stack()) if segwit else []
            elif kind == 'nested':
                # consistent nested segwit: the pushed witness program commits to the witness
                if draw(st.booleans()):
                    pub = draw(st.sampled_from(_PUBS))
                    redeem = raddr.script_p2wpkh(hash160(pub))
                    wit = [_sig(draw(st.integers(0, 1000))), pub]
                else:
                    m = draw(st.integers(1, 3))
                    ws = raddr.script_multisig(m, _PUBS[:3])
                    redeem = raddr.script_p2wsh(sha256(ws))
                    wit = [b''] + [_sig(draw(st.integers(0, 1000)) + k) for k in range(m)] + [ws]
                ss = wire.push_data(redeem)
                if not segwit:
                    wit = []
            elif kind == 'one_byte':
                # a scriptSig of one byte (00 = the empty push, an opcode): well-formed, seen on chain
                ss = draw(st.sampled_from([b'\x00', b'\x00', b'\x51', b'\x4f', b'\x61']))
            elif kind == 'any':
                ss = draw(any_script(allow_junk))
            elif kind == 'exotic':
                # well-formed but never valid on chain: scriptSig *and* witness without nested-segwit consistency
                ss = draw(st.one_of(any_script(allow_junk), p2pkh_scriptsig(), p2sh_ms_scriptsig(),
                                    st.binary(min_size=32, max_size=32).map(
                                        lambda h: wire.push_data(raddr.script_p2wsh(h)))))
                wit = draw(witness_stack()) if segwit else []
            else:
                ss = b''
        seq = draw(st.one_of(st.sampled_from([0xffffffff, 0xfffffffe, 0xfffffffd, 0, 1]), st.integers(0, 0xffffffff)))
        vin.append({'prev': prev if isinstance(prev, str) else prev, 'n': n, 'ss': ss.hex(), 'seq': seq,
                    'wit': [w.hex() for w in wit]})
    n_out = draw(st.integers(1, max_out))
    if big_counts and draw(st.integers(0, 3)) == 0:
        n_out = draw(st.sampled_from(CS_COUNTS))
    vout = []
    if n_out > 10:
        spk = draw(standard_spk())
        vout = [{'v': k, 'spk': spk.hex()} for k in range(n_out)]
    else:
        for k in range(n_out):
            vout.append({'v': draw(values()), 'spk': draw(any_script(allow_junk)).hex()})
    return {'version': version, 'locktime': locktime, 'vin': vin, 'vout': vout}


@st.composite
def block_cases(draw, max_tx=6):
    n_tx = draw(st.integers(1, max_tx))
    txs = []
    segwit_cb = draw(st.booleans())
    # the witness reserved value of a segwit coinbase is free (BIP141): zeros, hash-like bytes, and bytes that read as
    # the start of a push running past the end of the item
    reserved = draw(st.one_of(st.just(bytes(32)), st.binary(min_size=32, max_size=32),
                              st.tuples(st.integers(0x20, 0x4e), st.binary(min_size=31, max_size=31)).map(
                                  lambda t: bytes([t[0]]) + t[1])))
    cb = {'version': draw(st.sampled_from([1, 2])), 'locktime': 0,
          'vin': [{'prev': '00' * 32, 'n': 0xffffffff, 'ss': draw(st.binary(min_size=4, max_size=60)).hex(),
                   'seq': 0xffffffff, 'wit': [reserved.hex()] if segwit_cb else []}],
          'vout': [{'v': draw(values()), 'spk': draw(standard_spk()).hex()}] +
                  ([{'v': 0, 'spk': (b'\x6a\x24\xaa\x21\xa9\xed' + draw(st.binary(min_size=32, max_size=32))).hex()}]
                   if segwit_cb else [])}
    txs.append(cb)
    for _ in range(n_tx - 1):
        txs.append(draw(tx_cases(max_in=3, max_out=3, allow_junk=False, allow_coinbase=False, exotic=False)))
    exponent = draw(st.integers(3, 32))
    mantissa = draw(st.one_of(st.sampled_from([1, 0xffff, 0x7fffff, 0x008000]), st.integers(1, 0x7fffff)))
    bits = (exponent << 24) | mantissa
    textlike = draw(st.integers(0, 5)) == 0
    if textlike and draw(st.booleans()):
        bits = draw(u32_textlike())
    return {'header': {'version': draw(st.one_of(st.sampled_from([1, 2, 4, 0x20000000, 0x3fffe000]), u32(),
                                                 u32_textlike() if textlike else u32())),
                       'prev': draw(hash32_textlike() if textlike and draw(st.booleans()) else
                                    st.binary(min_size=32, max_size=32)).hex(),
                       'time': draw(st.one_of(u32(), u32_textlike())), 'bits': bits,
                       'nonce': draw(u32_textlike() if textlike else u32())},
            'txs': txs}


def block_from_case(c):
    txs = [tx_from_case(t) for t in c['txs']]
    h = c['header']
    root = wire.merkle_root([t.txid()[::-1] for t in txs])
    header = wire.BlockHeader(h['version'], bytes.fromhex(h['prev']), root, h['time'], h['bits'], h['nonce'])
    return header, txs


def input_is_exotic(i):
    """scriptSig and witness both present, not a coinbase, and not a *consistent* nested-segwit input."""
    if not i.get('wit') or not i['ss'] or i['prev'] == '00' * 32:
        return False
    ss = bytes.fromhex(i['ss'])
    wit = [bytes.fromhex(w) for w in i['wit']]
    if len(ss) == 23 and ss[:3] == b'\x16\x00\x14':
        return not (len(wit) == 2 and hash160(wit[1]) == ss[3:])
    if len(ss) == 35 and ss[:3] == b'\x22\x00\x20':
        return not (sha256(wit[-1]) == ss[3:])
    return True


def input_has_short_sig(i):
    """An item shaped like a DER signature (30 ...) whose length is outside the 69..74 bytes the library's
    classifier recognises as a signature."""
    items = [bytes.fromhex(w) for w in i.get('wit', [])]
    try:
        items += [d for op, d in wire.script_iter(bytes.fromhex(i['ss'])) if d]
    except ValueError:
        pass
    return any(d[:1] == b'\x30' and len(d) >= 9 and not (69 <= len(d) <= 74) and d[1] == len(d) - 3 for d in items)
