"""C18 - wire primitives (CompactSize, script numbers, pushes) are canonical and round-trip;
Script.parse(...).serialize()/.commands reproduce bytes and items.

Oracle: ref/wire (written from the protocol definition). Exhaustive enumeration on the small
domains, Hypothesis for the unbounded ones.
"""
import io

from vlib.core import Discrepancy

LEVEL = 'exploration'
TECHNIQUE = 'exhaustive enumeration of boundary domains + Hypothesis differential against ref/wire'
RULE = ('CompactSize: exhaustive 0..2^17 (+/-2 around every size boundary, powers of two +/-1, random u64), '
        'each decoded by varbyteint_to_int, read_varbyteint and read_varbyteint_return at a random stream offset; '
        'script numbers: exhaustive +/-2^16 (thorough +/-2^20) plus sign-bit edges, decode on all <=2-byte strings '
        'and random 3..8-byte strings; pushes: every length 0..521, 65535; scripts: Hypothesis sequences of '
        'non-push opcodes and data items serialised by the reference, parsed through every parse entry point. '
        'Non-trivial = value on/next to a size boundary (CompactSize 252..254, 65534..65537, 2^32-2..2^32+1; '
        'script number with magnitude 2^(8k-1)-1..2^(8k-1)+1 or negative; push length 75/76/255/256/520/521/65535) '
        'or a script with >=1 data item and >=2 items; distinct by (sub-check, value or script bytes).'
        ' [entry points parse(stream) and parse_bytesio at a stream offset; as_bytes() before serialize(); scripts starting with the shortcut bytes 30 / 02 / 03 / 04]')
ASSUMPTIONS = ['ref/wire.py transcribes CompactSize / CScriptNum / push rules correctly (self-tested against '
               'published vectors in ref/selftest.py)',
               'data items above 520 bytes are generated only up to 65535 bytes (PUSHDATA2); OP_PUSHDATA4 pushes '
               'are excluded: neither the library nor standard relay produce them']
SHARDS = {'quick': 16, 'thorough': 16}
WALL_CAP = {'quick': 300, 'thorough': 1500}

CS_BOUNDS = [0xfc, 0xfd, 0xfe, 0xff, 0x100, 0xfffe, 0xffff, 0x10000, 0x10001, 0xfffffffe, 0xffffffff,
             0x100000000, 0x100000001, 0xffffffffffffffff, 0xfffffffffffffffe]
PUSH_EDGE = {75, 76, 255, 256, 520, 521, 65535}
NONPUSH_OPS = [0] + list(range(0x4f, 0x100))


def _lib():
    import bitcoinlib.encoding as enc
    import bitcoinlib.scripts as scr
    return enc, scr


# ---- CompactSize --------------------------------------------------------------------------------

def check_compact(ctx, case):
    from ref import wire
    enc, _ = _lib()
    v = case['v']
    exp = wire.compact_size(v)
    try:
        got = enc.int_to_varbyteint(v)
    except Exception as e:
        raise Discrepancy('compact.encode.raises', 'int_to_varbyteint(%d) raised %r' % (v, e), case)
    if got != exp:
        raise Discrepancy('compact.encode.noncanonical',
                          'int_to_varbyteint(%d)=%s, protocol requires %s' % (v, got.hex(), exp.hex()), case)
    pad = bytes.fromhex(case.get('prefix', ''))
    tail = bytes.fromhex(case.get('suffix', ''))
    # decoders read the canonical encoding (whatever the encoder does)
    try:
        r1 = enc.varbyteint_to_int(exp + tail)
        s = io.BytesIO(pad + exp + tail)
        s.seek(len(pad))
        r2 = enc.read_varbyteint(s)
        p2 = s.tell()
        s.seek(len(pad))
        r3 = enc.read_varbyteint_return(s)
        p3 = s.tell()
    except Exception as e:
        raise Discrepancy('compact.decode.raises', 'decoder raised %r for %s' % (e, exp.hex()), case)
    if tuple(r1) != (v, len(exp)):
        raise Discrepancy('compact.decode.varbyteint_to_int', 'got %r want %r' % (r1, (v, len(exp))), case)
    if r2 != v or p2 != len(pad) + len(exp):
        raise Discrepancy('compact.decode.read_varbyteint', 'got %r pos %d want %d pos %d' %
                          (r2, p2, v, len(pad) + len(exp)), case)
    if r3[0] != v or r3[1] != exp or p3 != len(pad) + len(exp):
        raise Discrepancy('compact.decode.read_varbyteint_return', 'got %r pos %d' % (r3, p3), case)


def compact_nontrivial(v):
    return any(abs(v - b) <= 2 for b in (0xfd, 0xffff, 0x10000, 0xffffffff, 0x100000000, 0xffffffffffffffff))


# ---- varstr -------------------------------------------------------------------------------------

def check_varstr(ctx, case):
    from ref import wire
    enc, _ = _lib()
    if 'fill' in case:
        b = bytes([case['fill']]) * case['len']
    else:
        b = bytes.fromhex(case['data'])
    exp = wire.var_bytes(b)
    try:
        got = enc.varstr(b)
    except Exception as e:
        raise Discrepancy('varstr.raises', 'varstr raised %r' % e, case)
    if got != exp:
        kf = None
        if b == b'\x00' and got == b'\x00':
            kf = 'C18-varstr-single-zero-byte'
        ctx.disc('varstr.mismatch', 'varstr(len %d, %s..)=%s.. want %s..' % (len(b), b[:4].hex(), got[:8].hex(),
                                                                              exp[:8].hex()), case, kf=kf)


# ---- script numbers -----------------------------------------------------------------------------

def check_num(ctx, case):
    from ref import wire
    _, scr = _lib()
    v = case['v']
    exp = wire.scriptnum_encode(v)
    try:
        got = scr.encode_num(v)
    except Exception as e:
        raise Discrepancy('scriptnum.encode.raises', 'encode_num(%d) raised %r' % (v, e), case)
    if got != exp:
        raise Discrepancy('scriptnum.encode', 'encode_num(%d)=%s want %s' % (v, got.hex(), exp.hex()), case)
    try:
        back = scr.decode_num(exp)
    except Exception as e:
        raise Discrepancy('scriptnum.decode.raises', 'decode_num(%s) raised %r' % (exp.hex(), e), case)
    if back != v:
        raise Discrepancy('scriptnum.roundtrip', 'decode_num(encode(%d))=%r' % (v, back), case)


def check_num_decode(ctx, case):
    from ref import wire
    _, scr = _lib()
    b = bytes.fromhex(case['enc'])
    exp = wire.scriptnum_decode(b)
    try:
        got = scr.decode_num(b)
    except Exception as e:
        raise Discrepancy('scriptnum.decode.raises', 'decode_num(%s) raised %r' % (b.hex(), e), case)
    if got != exp:
        raise Discrepancy('scriptnum.decode', 'decode_num(%s)=%r want %r' % (b.hex(), got, exp), case)


def num_nontrivial(v):
    a = abs(v)
    return v < 0 or any(abs(a - (1 << (8 * k - 1))) <= 1 for k in range(1, 9)) or \
        any(abs(a - (1 << (8 * k))) <= 1 for k in range(1, 9))


# ---- pushes -------------------------------------------------------------------------------------

def check_push(ctx, case):
    from ref import wire
    _, scr = _lib()
    n = case['len']
    d = bytes([case.get('fill', 0xab)]) * n
    exp = wire.push_data(d)
    try:
        got = scr.data_pack(d)
    except Exception as e:
        if n > 0xffff:
            ctx.refusal('data_pack>65535')
            return
        raise Discrepancy('push.raises', 'data_pack(len %d) raised %r' % (n, e), case)
    if got != exp:
        raise Discrepancy('push.encoding', 'data_pack(len %d) prefix %s want %s' %
                          (n, got[:4].hex(), exp[:4].hex()), case)


# ---- scripts ------------------------------------------------------------------------------------

def _classify_len(n):
    if 1 <= n <= 4 or n in (20, 32, 64):
        return 'classified'
    return 'unclassified'


def _decode_items(case):
    items = []
    for it in case['items']:
        if isinstance(it, int):
            items.append(it)
        else:
            items.append(bytes.fromhex(it))
    return items


def _looks_like_keysig(d):
    return (d[:1] == b'\x30' and 69 <= len(d) <= 74) or (d[:1] in (b'\x02', b'\x03') and len(d) == 33) or \
        (d[:1] == b'\x04' and len(d) == 65)


def _first_byte_heuristic(raw, entry):
    """Predicate of finding C18-script-whole-blob-heuristic: Script.parse* treats the *whole* input as
    one bare signature / key / 64-byte blob depending on first byte and total length."""
    n = len(raw)
    if entry == 'parse_stream':
        return False            # (no length is known there, the heuristic has nothing to go by)
    if n == 64:
        return True
    if raw[:1] == b'\x30' and 69 <= n <= 74:
        return True
    if raw[:1] in (b'\x02', b'\x03') and n == 33:
        return True
    if raw[:1] == b'\x04' and n == 65:
        return True
    return False


def _nested_model(items, depth=0):
    """What the recorded nested-parse finding does to a command list: a data item of unclassified length that is not
    key / signature shaped and that is itself a well-formed script is replaced by the commands of that script
    (recursively); everything else stays."""
    from ref import wire
    out = []
    for it in items:
        if isinstance(it, int) or depth > 6 or len(it) == 0 or _classify_len(len(it)) != 'unclassified' or \
                _looks_like_keysig(it):
            out.append(it)
            continue
        try:
            inner = [(op if d is None else bytes(d)) for op, d in wire.script_iter(it)]
        except ValueError:
            out.append(it)
            continue
        # (opcode 0 is the empty push)
        inner = [b'' if (not isinstance(x, bytes) and x == 0) else x for x in inner]
        out.extend(_nested_model(inner, depth + 1))
    return out


def _flat(cmds):
    out = []
    for c in cmds:
        if isinstance(c, list):
            out.extend(_flat(c))
        else:
            out.append(c)
    return out


def check_script(ctx, case):
    from ref import wire
    _, scr = _lib()
    items = _decode_items(case)
    minimal = wire.script_build(items)
    raw = minimal
    if case.get('enc') or case.get('enc0'):
        # the same items with explicitly chosen push encodings (OP_PUSHDATA1/2/4 where a shorter form exists):
        # a decoder must read every form the protocol defines
        raw = b''
        k = 0
        enc_list = case.get('enc') or [0]
        for it in items:
            if isinstance(it, int):
                if it == 0 and case.get('enc0'):
                    # the empty item pushed with a zero-length OP_PUSHDATA1/2/4 (4c00, 4d0000, 4e00000000)
                    w0 = case['enc0']
                    raw += bytes([{1: 0x4c, 2: 0x4d, 4: 0x4e}[w0]]) + bytes(w0)
                else:
                    raw += bytes([it])
                continue
            e = enc_list[k % len(enc_list)]
            k += 1
            width = {1: 1, 2: 2, 4: 4}.get(e)
            if width and len(it) < 256 ** width and len(it) > 0:
                raw += bytes([{1: 0x4c, 2: 0x4d, 4: 0x4e}[e]]) + len(it).to_bytes(width, 'little') + it
            else:
                raw += wire.push_data(it)
    entry = case.get('entry', 'parse_bytes')
    strict = case.get('strict', True)
    expected = [it for it in items]

    def call():
        if entry == 'parse':
            return scr.Script.parse(raw, strict=strict)
        if entry == 'parse_str_hex':
            return scr.Script.parse(raw.hex(), strict=strict)
        if entry == 'parse_hex':
            return scr.Script.parse_hex(raw.hex(), strict=strict)
        if entry == 'parse_bytesio':
            return scr.Script.parse_bytesio(io.BytesIO(raw), data_length=len(raw), strict=strict)
        if entry == 'parse_stream':
            # Script.parse documents bytes, hex text or a stream; a stream comes without a length
            return scr.Script.parse(io.BytesIO(raw), strict=strict)
        if entry == 'parse_bytesio_offset':
            # the script follows other data in the stream; the reader stands at its first byte
            pre = bytes([0xaa, 0x51, 0x00][:1 + len(raw) % 3])
            stream = io.BytesIO(pre + raw)
            stream.read(len(pre))
            return scr.Script.parse_bytesio(stream, data_length=len(raw), strict=strict)
        return scr.Script.parse_bytes(raw, strict=strict)

    datas = [it for it in items if not isinstance(it, int)]
    heur = _first_byte_heuristic(raw, entry)
    nested = any(_classify_len(len(d)) == 'unclassified' and not _looks_like_keysig(d) for d in datas)
    has_sigshape = any(d[:1] == b'\x30' and 69 <= len(d) <= 74 for d in datas)
    has_keyshape = any(_looks_like_keysig(d) and not (d[:1] == b'\x30') for d in datas)

    model = _nested_model(expected) if nested else None

    def norm(cmds):
        return [(b'' if (not isinstance(x, (bytes, bytearray)) and x == 0) else
                 bytes(x) if isinstance(x, (bytes, bytearray)) else x) for x in _flat(cmds)]

    def unfolded_in_place(cmds):
        """The recorded nested-parse finding, as it shows in the command list: every opcode and every data item of a
        classified length (or key / signature shape) is where and what it was; only data items of unclassified length
        may have been replaced, in place, by a sub-list (what the library made of their bytes)."""
        if len(cmds) != len(expected):
            return False
        hit = False
        for got_, exp_ in zip(cmds, expected):
            if isinstance(got_, list):
                if isinstance(exp_, int) or _classify_len(len(exp_)) != 'unclassified' or _looks_like_keysig(exp_):
                    return False
                hit = True
            elif isinstance(exp_, int) or isinstance(got_, int):
                if got_ != exp_ and not (got_ == 0 and exp_ == b'') and not (exp_ == 0 and got_ == b''):
                    return False
            elif bytes(got_) != bytes(exp_):
                return False
        return hit

    def kf_for(cmds=None, ser=None, raised=False, in_serialize=False):
        if heur:
            return 'C18-script-whole-blob-heuristic'
        if not nested:
            return None
        if raised:
            # (serialising an unfolded command list fails: same root cause; a failing PARSE is not part of it)
            return 'C18-script-nested-parse-of-data' if in_serialize and cmds is not None and \
                unfolded_in_place(cmds) else None
        if cmds is not None and (unfolded_in_place(cmds) or (len(expected) == 1 and norm(cmds) == norm(model))):
            return 'C18-script-nested-parse-of-data'
        if cmds is not None and len(expected) == 1 and not isinstance(expected[0], int):
            # a script that is ONE push of unclassified length: the library shows the tokens of the pushed bytes up to
            # the point where they stop being a well-formed script
            toks = []
            d0 = bytes(expected[0])
            try:
                for op_, d_ in wire.script_iter(d0):
                    toks.append(op_ if d_ is None else bytes(d_))
            except ValueError:
                pass
            alts = [toks]
            # (when the bytes end inside the size field of an OP_PUSHDATA1/2/4 the library shows that opcode as well)
            for width, opc in ((1, 0x4c), (2, 0x4d), (4, 0x4e)):
                for miss in range(1, width + 1):
                    cut = width - miss
                    if len(d0) > cut and d0[len(d0) - cut - 1] == opc:
                        alts.append(toks + [opc])
            if any(norm(cmds) == norm(a_) for a_ in alts):
                return 'C18-script-nested-parse-of-data'
        return None

    try:
        s = call()
    except Exception as e:
        if strict and (has_sigshape or has_keyshape):
            ctx.refusal('script.strict.%s' % type(e).__name__)
            return
        ctx.disc('script.parse.raises', '%s(strict=%s) raised %r on %s' % (entry, strict, e, raw.hex()[:200]),
                 case, kf=kf_for(raised=True))
        return
    cmds = list(s.commands)
    # (read before serialize(), which refreshes what as_bytes() reports)
    try:
        own = bytes(s.as_bytes())
    except Exception as e:
        own = e
    try:
        ser = s.serialize()
    except Exception as e:
        ctx.disc('script.serialize.raises', 'serialize raised %r after parsing %s' % (e, raw.hex()[:200]), case,
                 kf=kf_for(cmds, raised=True, in_serialize=True))
        return
    if ser != raw and not (raw != minimal and ser == minimal):
        ctx.disc('script.roundtrip.bytes', '%s: serialize()=%s want %s' % (entry, ser.hex()[:200], raw.hex()[:200]),
                 case, kf=kf_for(cmds, ser))
        return
    if cmds != expected:
        ctx.disc('script.roundtrip.items', '%s: commands=%r want %r' % (entry, cmds[:8], expected[:8]), case,
                 kf=kf_for(cmds))
        return
    # the bytes the parsed object reports as its own are the script's bytes (as given, or in minimal form)
    if isinstance(own, Exception):
        raise Discrepancy('script.as_bytes.raises', '%s: as_bytes() raised %r' % (entry, own), case)
    if own != raw and own != minimal:
        raise Discrepancy('script.as_bytes', '%s: as_bytes()=%s after parsing %s' % (entry, own.hex()[:200],
                                                                                      raw.hex()[:200]), case)


def check_script_build(ctx, case):
    """A Script built from a command list (opcodes as ints, data items as bytes - also the empty item) serialises to
    the protocol encoding of exactly those items. case: kind=script_build, items"""
    from ref import wire
    _, scr = _lib()
    items = _decode_items(case)
    want = wire.script_build(items)
    try:
        s = scr.Script(list(items))
        got = bytes(s.serialize())
        got2 = bytes(s.as_bytes())
    except Exception as e:
        raise Discrepancy('script_build.raises', 'Script(%r...).serialize() raised %r' % (items[:4], e), case)
    if got != want or got2 != want:
        raise Discrepancy('script_build.bytes', 'Script(commands).serialize() = %s / as_bytes() = %s, protocol encoding '
                          'of the %d items is %s' % (got.hex()[:120], got2.hex()[:120], len(items), want.hex()[:120]),
                          case)
    if list(wire.script_iter(got)) != list(wire.script_iter(want)):
        raise Discrepancy('script_build.items', 'serialised script holds other items than it was built from', case)


def script_strategy(ctx):
    from hypothesis import strategies as st
    max_items = ctx.scale(12, 40)
    big = st.sampled_from([75, 76, 77, 255, 256, 257, 520]) if ctx.tier == 'quick' else \
        st.sampled_from([75, 76, 77, 255, 256, 257, 519, 520, 521, 1000, 65535])
    classified = st.sampled_from([1, 2, 3, 4, 20, 32, 64])
    anylen = st.one_of(classified, st.integers(1, 80), big)

    def data_of(lens):
        return lens.flatmap(lambda n: st.binary(min_size=n, max_size=n)).map(lambda b: b.hex())

    def keyish():
        # key / signature shaped items (the parser classifies them by first byte and length)
        return st.one_of(
            st.binary(min_size=32, max_size=32).map(lambda b: (b'\x02' + b).hex()),
            st.binary(min_size=32, max_size=32).map(lambda b: (b'\x03' + b).hex()),
            st.binary(min_size=64, max_size=64).map(lambda b: (b'\x04' + b).hex()))
    opc = st.sampled_from(NONPUSH_OPS)
    # behind the nested-parse finding: 3 of 4 scripts use only data lengths the parser classifies
    items_classified = st.lists(st.one_of(opc, opc, data_of(classified), data_of(classified), keyish()),
                                min_size=1, max_size=max_items)
    items_any = st.lists(st.one_of(opc, opc, data_of(anylen)), min_size=1, max_size=max_items)
    # scripts whose first byte is one the parser's whole-input shortcuts look at (30 = push of 48 bytes, 02 / 03 / 04 =
    # pushes of 2 / 3 / 4 bytes), whatever the total length
    first = st.tuples(data_of(st.sampled_from([48, 48, 2, 3, 4])), items_classified).map(lambda t: [t[0]] + t[1][:6])
    items = st.one_of(items_classified, items_classified, items_classified, items_any, first)
    return st.fixed_dictionaries({
        'kind': st.just('script'),
        'items': items,
        'entry': st.sampled_from(['parse', 'parse_bytes', 'parse_hex', 'parse_bytesio', 'parse_str_hex', 'parse_stream',
                                  'parse_bytesio_offset']),
        'strict': st.booleans(),
        'enc': st.one_of(st.none(), st.none(), st.lists(st.sampled_from([0, 1, 2, 4]), min_size=1, max_size=4)),
        'enc0': st.sampled_from([None, None, None, 1, 2, 4]),
    })


def prop_script(ctx):
    def f(case):
        items = case['items']
        datas = [i for i in items if not isinstance(i, int)]
        if len(items) >= 2 and datas:
            ctx.nt(('script', items, case['entry'], case['strict']))
            ctx.klass('script.nontrivial')
        if any(_classify_len(len(d) // 2) == 'unclassified' for d in datas):
            ctx.klass('script.has_unclassified_len')
        if any(len(d) // 2 > 75 for d in datas):
            ctx.klass('script.has_pushdata')
        ctx.klass('script.entry.' + case['entry'])
        if case.get('enc') and datas:
            ctx.klass('script.explicit_push_encodings')
            if 4 in case['enc']:
                ctx.klass('script.pushdata4')
        if len(ctx.samples) < 3:
            ctx.sample(case)
        check_script(ctx, case)
    return f


DISPATCH = {'compact': check_compact, 'varstr': check_varstr, 'num': check_num, 'numdec': check_num_decode,
            'push': check_push, 'script': check_script, 'script_build': check_script_build}


def replay(ctx, case):
    DISPATCH[case['kind']](ctx, case)


def probes(ctx):
    """Minimal reproductions of the recorded findings (run with the known-finding predicates off)."""
    saved = ctx.findings
    ctx.findings = {}
    try:
        plist = [
            ('C18-varstr-single-zero-byte', {'kind': 'varstr', 'data': '00'},
             "varstr(b'\\x00') returns b'\\x00' instead of 0100 (a one-byte script/witness item 00 is serialised "
             "as empty)"),
            ('C18-script-nested-parse-of-data', {'kind': 'script', 'items': ['aabbccddee'], 'entry': 'parse_bytes',
                                                 'strict': True},
             'Script.parse re-interprets a data push of unclassified length as a nested script; commands/serialize '
             'differ'),
            ('C18-script-whole-blob-heuristic', {'kind': 'script', 'items': [0x51] * 64, 'entry': 'parse_bytes',
                                                 'strict': True},
             'Script.parse* reads a script of total length 64 (or 33/65/69-74 with first byte 02/03/04/30) as one '
             'bare data blob'),
        ]
        for fid, case, what in plist:
            try:
                replay(ctx, case)
                ctx.probe(fid, False, what)
            except Discrepancy:
                ctx.probe(fid, True, what)
    finally:
        ctx.findings = saved


def _shard_range(ctx, lo, hi):
    """Split [lo, hi) over shards."""
    n = hi - lo
    a = lo + n * ctx.shard // ctx.nshards
    b = lo + n * (ctx.shard + 1) // ctx.nshards
    return range(a, b)


def run(ctx):
    from hypothesis import strategies as st

    # 1. CompactSize exhaustive 0..2^17 (sharded) -------------------------------------------------
    top = 1 << 17
    for v in _shard_range(ctx, 0, top + 1):
        case = {'kind': 'compact', 'v': v}
        if compact_nontrivial(v):
            ctx.nt(('compact', v))
        ctx.guard(lambda c: check_compact(ctx, c), case)
    ctx.exhaustive('compact_size 0..2^17')
    if ctx.shard == 0:
        edge = set()
        for b in CS_BOUNDS:
            for d in range(-2, 3):
                if 0 <= b + d <= 0xffffffffffffffff:
                    edge.add(b + d)
        for k in range(1, 64):
            for d in (-1, 0, 1):
                edge.add((1 << k) + d)
        for v in sorted(edge):
            case = {'kind': 'compact', 'v': v, 'prefix': 'aa' * (v % 5), 'suffix': 'ff' * 9}
            if compact_nontrivial(v):
                ctx.nt(('compact', v))
            ctx.guard(lambda c: check_compact(ctx, c), case)
            if v in (0xffff, 0xffffffff):
                ctx.sample(case)

    def prop_compact(case):
        if compact_nontrivial(case['v']):
            ctx.nt(('compact', case['v']))
        check_compact(ctx, case)
    u64 = st.one_of(st.integers(0, 0xffffffffffffffff), st.integers(0, 1 << 33), st.integers(0xfff0, 0x1000f),
                    st.integers(0xfffffff0, 0x10000000f))
    ctx.run_given('compact', st.fixed_dictionaries({
        'kind': st.just('compact'), 'v': u64,
        'prefix': st.binary(max_size=6).map(bytes.hex), 'suffix': st.binary(max_size=10).map(bytes.hex)}),
        prop_compact, ctx.scale(1500, 40000))

    # 2. varstr -----------------------------------------------------------------------------------
    if ctx.shard == 1 % ctx.nshards:
        for fill in range(256):
            case = {'kind': 'varstr', 'len': 1, 'fill': fill}
            ctx.nt(('varstr', 1, fill))
            ctx.guard(lambda c: check_varstr(ctx, c), case)
        for n in (0, 2, 75, 76, 252, 253, 254, 255, 256, 65534, 65535, 65536, 65537):
            for fill in (0, 0x61, 0xff):
                case = {'kind': 'varstr', 'len': n, 'fill': fill}
                ctx.nt(('varstr', n, fill))
                ctx.guard(lambda c: check_varstr(ctx, c), case)
        ctx.sample({'kind': 'varstr', 'len': 65535, 'fill': 0})
        ctx.exhaustive('varstr one-byte values and boundary lengths')

    # 3. script numbers ---------------------------------------------------------------------------
    lim = 1 << ctx.scale(16, 20)
    for v in _shard_range(ctx, -lim, lim + 1):
        if num_nontrivial(v):
            ctx.nt(('num', v))
        ctx.guard(lambda c: check_num(ctx, c), {'kind': 'num', 'v': v})
    ctx.exhaustive('script numbers +/-2^%d' % ctx.scale(16, 20))
    if ctx.shard == 2 % ctx.nshards:
        for k in (7, 8, 15, 16, 23, 24, 31, 32, 39, 40, 63, 64):
            for d in (-2, -1, 0, 1, 2):
                for sgn in (1, -1):
                    v = sgn * ((1 << k) + d)
                    ctx.nt(('num', v))
                    ctx.guard(lambda c: check_num(ctx, c), {'kind': 'num', 'v': v})
        ctx.sample({'kind': 'num', 'v': -(1 << 31)})
    # decode on all strings of <= 2 bytes (sharded) and random longer ones
    for i in _shard_range(ctx, 0, 65536 + 256 + 1):
        if i == 0:
            b = b''
        elif i <= 256:
            b = bytes([i - 1])
        else:
            b = (i - 257).to_bytes(2, 'big')
        ctx.nt(('numdec', b.hex()))
        ctx.guard(lambda c: check_num_decode(ctx, c), {'kind': 'numdec', 'enc': b.hex()})
    ctx.exhaustive('decode_num on all strings of <=2 bytes')

    def prop_numdec(case):
        ctx.nt(('numdec', case['enc']))
        check_num_decode(ctx, case)
    ctx.run_given('numdec', st.fixed_dictionaries({'kind': st.just('numdec'),
                                                   'enc': st.binary(min_size=3, max_size=8).map(bytes.hex)}),
                  prop_numdec, ctx.scale(1500, 60000))

    def prop_num(case):
        if num_nontrivial(case['v']):
            ctx.nt(('num', case['v']))
        check_num(ctx, case)
    ctx.run_given('num', st.fixed_dictionaries({'kind': st.just('num'),
                                                'v': st.integers(-(1 << 63), 1 << 63)}),
                  prop_num, ctx.scale(1000, 40000))

    # 4. pushes -----------------------------------------------------------------------------------
    for n in _shard_range(ctx, 0, 523):
        if n in PUSH_EDGE or n - 1 in PUSH_EDGE or n + 1 in PUSH_EDGE:
            ctx.nt(('push', n))
        ctx.guard(lambda c: check_push(ctx, c), {'kind': 'push', 'len': n, 'fill': (n * 7) & 0xff})
    if ctx.shard == 3 % ctx.nshards:
        for n in (65534, 65535, 65536):
            ctx.nt(('push', n))
            ctx.guard(lambda c: check_push(ctx, c), {'kind': 'push', 'len': n})
        ctx.sample({'kind': 'push', 'len': 76, 'fill': 1})
    ctx.exhaustive('push lengths 0..522, 65534..65536')

    # 5. scripts ----------------------------------------------------------------------------------
    ctx.run_given('script', script_strategy(ctx), prop_script(ctx), ctx.scale(1200, 50000))

    # 5b. scripts built from command lists (incl. the empty data item, boundary lengths)
    from hypothesis import strategies as hst
    lens = hst.one_of(hst.sampled_from([0, 0, 1, 75, 76, 77, 252, 253, 254, 255, 256, 520]), hst.integers(0, 80))
    bitem = hst.one_of(hst.sampled_from(NONPUSH_OPS), hst.sampled_from(NONPUSH_OPS),
                       lens.flatmap(lambda n: hst.binary(min_size=n, max_size=n)).map(lambda b: b.hex()))
    sbuild = hst.fixed_dictionaries({'kind': hst.just('script_build'),
                                     'items': hst.lists(bitem, min_size=1, max_size=ctx.scale(8, 20))})

    def p_build(case):
        if any(i == '' for i in case['items']):
            ctx.klass('script_build.empty_item')
        ctx.nt(('script_build', str(case['items'])))
        check_script_build(ctx, case)
    ctx.run_given('script_build', sbuild, p_build, ctx.scale(300, 8000))
    if ctx.thorough():
        from vlib import fuzz
        fuzz.run_fuzz(ctx, 'script', runs=300000, max_len=400)
