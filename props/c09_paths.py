"""C09 - wallet keys follow BIP44/49/84/48 paths, are issued without gaps or repeats, have distinct
addresses, and restoring the wallet reproduces the same addresses.

Histories of key requests are generated as operation lists and interpreted against the wallet; every
key handed out is compared with an independent BIP32 derivation (ref/bip32) of the documented path
template from the wallet's master key, and with the reference address encoder.
"""
from vlib.core import Discrepancy

LEVEL = 'exploration'
TECHNIQUE = ('Hypothesis key-request histories (model-based operation lists incl. reopen) + restore from seed / '
             'mnemonic / xprv / account xpub; oracle = reference BIP32 derivation of the documented path templates')
RULE = ('Per history: (seed | mnemonic | xprv) x network (11) x witness type; operations new_key(account, change, '
        'optional other witness type), new_key_change, get_key, get_keys(n), new_account, key_for_path, '
        'keys_for_path(number_of_keys=k), reopen; final restore in fresh databases from the seed, the mnemonic, the '
        'master xprv (replaying the requests) and watch-only from the account xpub. [wallets with a non-zero default account, set_default_account, read-only requests (public_master, wif, account, keys) between key requests] Non-trivial = >=2 accounts, or '
        'mixed witness types, or a bulk creation followed by reopen; every restore comparison counts; distinct by '
        'history. [plus a wallet made from the account PRIVATE key: the key requests replayed on it are refused or match the reference derivation for the requested witness type, indices never repeat]'
        ' [request list objects are reused for the restored wallet and for a second request]')
ASSUMPTIONS = ['ref/bip32.py, ref/bip39.py, ref/address.py', 'SQLite only',
               'single-signature HD wallets (multisig paths are exercised by C10)']
SHARDS = {'quick': 16, 'thorough': 16}
WALL_CAP = {'quick': 900, 'thorough': 3400}

HARD = 0x80000000
PURPOSE = {'legacy': 44, 'p2sh-segwit': 49, 'segwit': 84}


def _master(case):
    from ref import bip32, bip39
    src = case['source']
    if src['kind'] == 'mnemonic':
        words = bip39.entropy_to_words(bytes.fromhex(src['entropy']), 'english')
        return bip32.master(bip39.seed(' '.join(words), src.get('passphrase') or '')), ' '.join(words)
    return bip32.master(bytes.fromhex(src['seed'])), None


def _create(case, tag, how=None):
    from bitcoinlib.wallets import Wallet
    from bitcoinlib.keys import HDKey
    from props import wallet_util as wu
    from ref import address as raddr
    uri, path = wu.db_uri(tag)
    net, wt = case['network'], case['witness_type']
    master, words = _master(case)
    how = how or case['source']['kind']
    if how == 'mnemonic':
        keys = words
    elif how == 'xprv':
        ver = raddr.xkey_version(net, True, wt, False)
        keys = master.xkey(ver)
    else:
        if case['source']['kind'] == 'mnemonic':
            from ref import bip39
            seed = bip39.seed(words, case['source'].get('passphrase') or '')
        else:
            seed = bytes.fromhex(case['source']['seed'])
        keys = HDKey.from_seed(seed, network=net, witness_type=wt)
    kw = {'account_id': case['account0']} if case.get('account0') else {}
    if how == 'mnemonic' and case['source'].get('passphrase'):
        # the BIP39 passphrase of a sentence is handed over as the password argument
        kw['password'] = case['source']['passphrase']
    w = Wallet.create('w', keys=keys, network=net, witness_type=wt, db_uri=uri, **kw)
    return w, uri, path


def _expected_path(wt, net, account, change, index):
    from props import wallet_util as wu
    return [HARD + PURPOSE[wt], HARD + wu.coin_type(net), HARD + account, change, index]


def _check_key(ctx, case, master, k, want_wt, want_account, want_change, want_index=None, private=True, net=None):
    """Compare one WalletKey at address depth with the reference derivation."""
    from props import wallet_util as wu
    from ref import bip32, ec
    from ref import address as raddr
    net = net or case['network']

    def bad(bucket, msg):
        raise Discrepancy(bucket, msg, case)
    try:
        path, addr, idx, chg, acc = k.path, k.address, k.address_index, k.change, k.account_id
    except Exception as e:
        bad('key.read.raises', 'reading WalletKey fields raised %r' % e)
    if want_index is None:
        want_index = idx
    exp = _expected_path(want_wt, net, want_account, want_change, want_index)
    exp_str = wu.path_str(exp)
    if path != exp_str:
        bad('path.template', 'key path %r, documented template gives %r' % (path, exp_str))
    if (idx, chg, acc) != (want_index, want_change, want_account):
        bad('path.fields', 'address_index/change/account %r want %r' % ((idx, chg, acc),
                                                                      (want_index, want_change, want_account)))
    ref_key = bip32.derive(master, exp)
    want_addr = wu.key_address(ref_key.pub, want_wt, net)
    if addr != want_addr:
        bad('address', 'address %s at %s, BIP32 derivation + standard encoding gives %s' % (addr, path, want_addr))
    try:
        hk = k.key()
        pub = hk.public_hex
        sec = hk.private_hex if hk.is_private else None
        wif = k.wif
    except Exception as e:
        bad('key.material.raises', 'reading key material raised %r' % e)
    if pub != ref_key.pub.hex():
        bad('pubkey', 'public key %s at %s, reference %s' % (pub, path, ref_key.pub.hex()))
    if private:
        if sec is None or int(sec, 16) != ref_key.secret:
            bad('secret', 'private key at %s differs from BIP32 derivation' % path)
        ver = raddr.xkey_version(net, True, want_wt, False)
        if ver is not None and wif != ref_key.xkey(ver):
            bad('wif', 'extended key at %s is %s, reference %s' % (path, wif, ref_key.xkey(ver)))
    return addr, want_index


def run_case(ctx, case):
    from props import wallet_util as _wu
    with _wu.deterministic_gc():
        return _run_case_inner(ctx, case)


def _run_case_inner(ctx, case):
    import os
    from props import wallet_util as wu
    wu.quiet_logging()
    tag = 'c09-%d-%d' % (os.getpid(), ctx.evaluations)
    master, words = _master(case)
    try:
        w, uri, path = _create(case, tag)
    except Exception as e:
        ctx.refusal('create.%s' % type(e).__name__)
        ctx.note('create_refusal', repr(e)[:200])
        return set()
    paths = [path]
    flags = set()
    try:
        log = _run_ops(ctx, case, w, uri, master, flags)
        # ---- restore -------------------------------------------------------------------------------------
        for how in ('seed', 'xprv') + (('mnemonic',) if words else ()):
            try:
                w2, uri2, path2 = _create(case, tag + '-' + how, how)
            except Exception as e:
                raise Discrepancy('restore.create.%s' % how, 'recreating the wallet from %s raised %r' % (how, e), case)
            paths.append(path2)
            try:
                flags2 = set()
                log2 = _run_ops(ctx, case, w2, uri2, master, flags2, reopen=False)
                if [a for a, _ in log2] != [a for a, _ in log]:
                    raise Discrepancy('restore.addresses.%s' % how,
                                      'wallet restored from %s hands out different addresses for the same requests' %
                                      how, case)
                ctx.klass('restore.' + how)
            finally:
                wu.close_wallet(w2)
        # ---- watch-only from the account public key -------------------------------------------------------
        wt = case['witness_type']
        try:
            # the account is named explicitly (the lowest one that has keys), whatever the default account is by now
            # (keys of the wallet's own network only: purpose and coin type of the path)
            ppfx = wu.path_str([HARD + PURPOSE[wt], HARD + wu.coin_type(case['network'])]) + '/'
            present = sorted(set(k.account_id for k in w.keys(depth=5) if k.path.startswith(ppfx)))
            acc_wo = present[0] if present else (case.get('account0') or 0)
            xpub = w.wif(is_private=False, account_id=acc_wo)
            if acc_wo != w.default_account_id:
                ctx.klass('restore.watchonly.non_default_account')
            from bitcoinlib.wallets import Wallet
            uri3, path3 = wu.db_uri(tag + '-wo')
            paths.append(path3)
            w3 = Wallet.create('wo', keys=xpub, network=case['network'], witness_type=wt, db_uri=uri3)
        except Exception as e:
            raise Discrepancy('restore.watchonly.create', 'creating a watch-only wallet from the account public key '
                              'raised %r' % e, case)
        try:
            orig = {}
            for k in w.keys(account_id=acc_wo, depth=5):
                if k.path.startswith(ppfx):
                    orig[(k.change, k.address_index)] = k.address
            n_cmp = 0
            for (chg, idx), addr in sorted(orig.items())[:8]:
                # one request object for the original and for the restored wallet: what a caller comparing the two does
                request = [chg, idx]
                try:
                    k0 = w.key_for_path(request, account_id=acc_wo)
                except Exception as e:
                    raise Discrepancy('restore.original.key', 'key_for_path([%d, %d]) for a key handed out before '
                                      'raised %r' % (chg, idx, e), case)
                if k0.address != addr:
                    raise Discrepancy('restore.original.address', 'key_for_path([%d, %d]) gives %s (%s), the key handed '
                                      'out at this change/index was %s' % (chg, idx, k0.address, k0.path, addr), case)
                try:
                    k3 = w3.key_for_path(request)
                    a3 = k3.address
                    priv = k3.key().is_private
                except Exception as e:
                    raise Discrepancy('restore.watchonly.key', 'watch-only key_for_path([%d, %d]) raised %r' %
                                      (chg, idx, e), case)
                if a3 != addr:
                    raise Discrepancy('restore.watchonly.address', 'watch-only wallet gives %s for change %d index %d, '
                                      'original wallet %s' % (a3, chg, idx, addr), case)
                if priv:
                    raise Discrepancy('restore.watchonly.private', 'watch-only wallet holds private key material', case)
                n_cmp += 1
            if n_cmp:
                ctx.klass('restore.watchonly')
        finally:
            wu.close_wallet(w3)
        # ---- wallet made from the account PRIVATE key ------------------------------------------------------
        # it can derive change/index below its own account only: keys of another witness type lie below another
        # hardened purpose level, so a request for them is either refused or - if answered - must give the key at the
        # documented path of THAT witness type; new keys never repeat an index
        from ref import bip32
        from ref import address as raddr
        net = case['network']
        acc_path = [HARD + PURPOSE[wt], HARD + wu.coin_type(net), HARD + acc_wo]
        try:
            akey = bip32.derive(master, acc_path)
            uri4, path4 = wu.db_uri(tag + '-ak')
            paths.append(path4)
            w4 = Wallet.create('ak', keys=akey.xkey(raddr.xkey_version(net, True, wt, False)), network=net,
                               witness_type=wt, db_uri=uri4)
        except Exception as e:
            ctx.refusal('accountkey.create.%s' % type(e).__name__)
            return flags
        try:
            issued = set()
            n_req = 0
            for op in case['ops']:
                if op['op'] not in ('new_key', 'new_key_change', 'get_key', 'get_keys') or n_req >= 8:
                    continue
                n_req += 1
                want_wt = op.get('wt') or wt
                change = 1 if op['op'] == 'new_key_change' else op.get('change', 0)
                try:
                    if op['op'] == 'new_key_change':
                        ks = [w4.new_key_change(witness_type=op.get('wt'))]
                    elif op['op'] == 'new_key':
                        ks = [w4.new_key(change=change, witness_type=op.get('wt'))]
                    elif op['op'] == 'get_key':
                        ks = [w4.get_key(change=change, witness_type=op.get('wt'))]
                    else:
                        ks = w4.get_keys(number_of_keys=op['count'], change=change, witness_type=op.get('wt'))
                    fields = [(k.address, k.address_index, k.change, k.path, k.key().private_hex) for k in ks]
                except Exception as e:
                    ctx.klass('accountkey.refused.other_witness_type' if want_wt != wt else 'accountkey.refused.own')
                    if want_wt == wt:
                        ctx.refusal('accountkey.%s.%s' % (op['op'], type(e).__name__))
                    continue
                for addr, idx, chg, kpath, sec in fields:
                    ref_key = bip32.derive(master, [HARD + PURPOSE[want_wt], HARD + wu.coin_type(net), HARD + acc_wo,
                                                    change, idx])
                    want_addr = wu.key_address(ref_key.pub, want_wt, net)
                    if addr != want_addr or chg != change or sec is None or int(sec, 16) != ref_key.secret:
                        raise Discrepancy('accountkey.address:' + ('other_wt' if want_wt != wt else 'own'),
                                          'wallet made from the account private key of %s: %s(witness_type=%r, change=%d) '
                                          'returned %s (%s, index %r, change %r); the %s key at index %r of this account '
                                          'is %s' % (wu.path_str(acc_path), op['op'], op.get('wt'), change, addr, kpath,
                                                     idx, chg, want_wt, idx, want_addr), case)
                    if op['op'].startswith('new_key') and (want_wt, change, idx) in issued:
                        raise Discrepancy('accountkey.index_repeated', '%s returned index %d of chain (%s, change %d) a '
                                          'second time' % (op['op'], idx, want_wt, change), case)
                    issued.add((want_wt, change, idx))
                ctx.klass('accountkey.key_checked.' + ('other_wt' if want_wt != wt else 'own'))
            if n_req:
                flags.add('account_key_wallet')
        finally:
            wu.close_wallet(w4)
        return flags
    finally:
        wu.close_wallet(w)
        for p in paths:
            try:
                os.remove(p)
            except OSError:
                pass


def _run_ops(ctx, case, w, uri, master, flags, reopen=True):
    """Interpret the operation list; returns [(address, path)] of every key handed out, in order."""
    from props import wallet_util as wu
    from bitcoinlib.wallets import Wallet
    net, wt0 = case['network'], case['witness_type']
    log = []
    chains = {}     # (wt, account, change) -> set of indices known to exist
    acc0 = case.get('account0') or 0
    chains[(wt0, acc0, 0)] = {0}      # Wallet.create makes the first receiving key (of its default account)
    accounts = {(wt0, net): {acc0}}      # accounts exist per (witness type, network)
    default = [acc0]
    all_addr = {}
    state = {'w': w}

    def note(k, wt, account, change, must_index=None, knet=None):
        addr, idx = _check_key(ctx, case, master, k, wt, account, change, must_index, net=knet)
        if knet and getattr(k, 'network', None) is not None and k.network.name != knet:
            raise Discrepancy('key.network', 'key requested for network %s is a key of network %s (%s)' %
                              (knet, k.network.name, k.path), case)
        ch = chains.setdefault((wt, account, change, knet or net), set())
        ch.add(idx)
        accounts.setdefault((wt, knet or net), set()).add(account)
        if addr in all_addr and all_addr[addr] != k.path:
            raise Discrepancy('address.shared', 'keys %s and %s share address %s' % (all_addr[addr], k.path, addr), case)
        all_addr[addr] = k.path
        log.append((addr, k.path))
        return idx

    for n, op in enumerate(case['ops']):
        w = state['w']
        name = op['op']
        wt = op.get('wt') or wt0
        if wt != wt0:
            flags.add('mixed_witness')
        try:
            if name in ('new_key', 'new_key_change'):
                acc = op.get('account', 0)
                change = 1 if name == 'new_key_change' else op.get('change', 0)
                # a second network of the same wallet: named explicitly in the request (only together with the
                # wallet's own witness type: the purpose of the path stays the same)
                knet = case.get('net2') if (op.get('net2') and not op.get('wt') and case.get('net2')) else None
                nkw = {'network': knet} if knet else {}
                before = _chain_indices(w, wt, knet or net, acc, change)
                if name == 'new_key_change':
                    k = w.new_key_change(account_id=acc, witness_type=op.get('wt'), **nkw)
                else:
                    k = w.new_key(account_id=acc, change=change, witness_type=op.get('wt'), **nkw)
                got = note(k, wt, acc, change, knet=knet)
                if knet:
                    flags.add('second_network')
                after = _chain_indices(state['w'], wt, knet or net, acc, change)
                new = sorted(after - before)
                # the wallet may create keys implicitly (index 0 of a new account); what it must not do is skip
                # or repeat: the new indices form one run directly above the highest existing index
                start = (max(before) + 1) if before else 0
                if got in before or not new or new != list(range(start, start + len(new))) or got != new[-1]:
                    raise Discrepancy('index.gap_or_repeat', '%s on chain (%s, account %d, change %d) returned index '
                                      '%d; indices before %r, created %r' %
                                      (name, wt, acc, change, got, sorted(before), new), case)
                if acc:
                    flags.add('multi_account')
            elif name == 'get_key':
                acc = op.get('account', 0)
                k = w.get_key(account_id=acc, witness_type=op.get('wt'), change=op.get('change', 0))
                note(k, wt, acc, op.get('change', 0))
            elif name == 'get_keys':
                ks = w.get_keys(account_id=op.get('account', 0), witness_type=op.get('wt'),
                                number_of_keys=op['count'], change=op.get('change', 0))
                idxs = [note(k, wt, op.get('account', 0), op.get('change', 0)) for k in ks]
                if len(set(idxs)) != len(idxs) or len(idxs) != op['count']:
                    raise Discrepancy('get_keys.count', 'get_keys(%d) returned indices %r' % (op['count'], idxs), case)
                flags.add('bulk')
            elif name == 'new_account':
                known = accounts.get((wt, net), set())
                a = w.new_account(witness_type=op.get('wt'))
                want = (max(known) + 1) if known else 0
                exp = wu.path_str([HARD + PURPOSE[wt], HARD + wu.coin_type(net), HARD + a.account_id])
                if a.path != exp or a.account_id != want:
                    raise Discrepancy('account.path', 'new_account returned %r (account %r), expected %r (account %d)' %
                                      (a.path, a.account_id, exp, want), case)
                accounts.setdefault((wt, net), set()).add(a.account_id)
                flags.add('multi_account')
            elif name == 'observe':
                # read-only requests: they must not change what the wallet hands out afterwards
                if op['what'] == 'public_master':
                    w.public_master()
                elif op['what'] == 'wif_public':
                    w.wif(is_private=False)
                elif op['what'] == 'account_key':
                    w.account(default[0])
                else:
                    w.keys(depth=5)
                flags.add('observed.' + op['what'])
            elif name == 'set_default_account':
                known = sorted(accounts.get((wt0, net), set()))
                a = known[op['pick'] % len(known)]
                w.default_account_id = a
                default[0] = a
                if a != acc0:
                    flags.add('default_account_changed')
            elif name == 'key_for_path':
                # no account named: the wallet's default account
                request = [op['change'], op['index']]
                k = w.key_for_path(request, witness_type=op.get('wt')) if op.get('wt') else w.key_for_path(request)
                note(k, wt, default[0], op['change'], op['index'])
                if op['index'] % 2:
                    # the caller's request object serves a second request
                    k = w.key_for_path(request, witness_type=op.get('wt')) if op.get('wt') else w.key_for_path(request)
                    note(k, wt, default[0], op['change'], op['index'])
            elif name == 'key_for_full_path':
                # the whole path is named, with the account level of one of the wallet's accounts (not necessarily the
                # default one): the key is a key of THAT account
                known = sorted(accounts.get((wt0, net), set()))
                a = known[op['pick'] % len(known)]
                full = wu.path_str(wu.single_path(wt0, net, a, op['change'], op['index']))
                k = w.key_for_path(full)
                note(k, wt0, a, op['change'], op['index'])
                if a != default[0]:
                    flags.add('full_path_other_account')
            elif name == 'keys_for_path':
                ks = w.keys_for_path([op['change'], op['index']], number_of_keys=op['count'])
                for j, k in enumerate(ks):
                    note(k, wt0, default[0], op['change'], op['index'] + j)
                if len(ks) != op['count']:
                    raise Discrepancy('keys_for_path.count', 'keys_for_path(number_of_keys=%d) returned %d keys' %
                                      (op['count'], len(ks)), case)
                flags.add('bulk')
            elif name == 'reopen':
                if reopen:
                    wu.close_wallet(w)
                    state['w'] = Wallet('w', db_uri=uri)
                    if 'bulk' in flags:
                        flags.add('bulk_then_reopen')
        except Discrepancy:
            raise
        except Exception as e:
            ctx.refusal('%s.%s' % (name, (type(e).__name__ + ':' + str(e))[:60]))
    # every key the wallet lists at address depth must be distinct
    w = state['w']
    seen = {}
    for k in w.keys(depth=5):
        if k.address in seen and seen[k.address] != k.path:
            raise Discrepancy('address.shared', 'keys %s and %s share address %s' % (seen[k.address], k.path, k.address),
                              case)
        seen[k.address] = k.path
    if state['w'] is not w:
        pass
    return log


def _chain_indices(w, wt, net, account, change):
    from props import wallet_util as wu
    prefix = wu.path_str([HARD + PURPOSE[wt], HARD + wu.coin_type(net), HARD + account, change]) + '/'
    return set(k.address_index for k in w.keys(account_id=account, depth=5) if k.path.startswith(prefix))


def replay(ctx, case):
    run_case(ctx, case)


def _strategy(ctx):
    from hypothesis import strategies as st
    from ref import address as raddr
    from props import wallet_util as wu

    @st.composite
    def cases(draw):
        net = draw(st.sampled_from(raddr.NETWORK_NAMES))
        wts = ['legacy'] if net.startswith('dogecoin') else ['legacy', 'segwit', 'p2sh-segwit']
        wt = draw(st.sampled_from(wts))
        other = st.sampled_from([None, None, None] + [x for x in wts if x != wt])
        if draw(st.booleans()):
            source = {'kind': 'mnemonic', 'entropy': draw(st.binary(min_size=16, max_size=16)).hex(),
                      'passphrase': draw(st.sampled_from(['', '', 'TREZOR', 'correct horse', 'p\u00e4ss']))}
        else:
            source = {'kind': draw(st.sampled_from(['seed', 'xprv'])),
                      'seed': draw(st.binary(min_size=16, max_size=32)).hex()}
        acc = st.sampled_from([0, 0, 0, 1, 2])
        op = st.one_of(
            st.fixed_dictionaries({'op': st.just('new_key'), 'account': acc, 'change': st.sampled_from([0, 0, 1]),
                                   'wt': other, 'net2': st.sampled_from([False, False, True])}),
            st.fixed_dictionaries({'op': st.just('new_key'), 'account': acc, 'change': st.sampled_from([0, 0, 1]),
                                   'wt': other}),
            st.fixed_dictionaries({'op': st.just('new_key_change'), 'account': acc, 'wt': other,
                                   'net2': st.sampled_from([False, True])}),
            st.fixed_dictionaries({'op': st.just('get_key'), 'account': acc, 'change': st.sampled_from([0, 1]),
                                   'wt': other}),
            st.fixed_dictionaries({'op': st.just('get_keys'), 'account': acc, 'change': st.sampled_from([0, 1]),
                                   'count': st.integers(1, 4), 'wt': other}),
            st.fixed_dictionaries({'op': st.just('new_account'), 'wt': other}),
            st.fixed_dictionaries({'op': st.just('key_for_path'), 'change': st.sampled_from([0, 1]),
                                   'index': st.sampled_from([0, 1, 5, 7, 100])}),
            st.fixed_dictionaries({'op': st.just('key_for_full_path'), 'pick': st.integers(0, 3),
                                   'change': st.sampled_from([0, 1]), 'index': st.sampled_from([0, 2, 5, 9, 40])}),
            st.fixed_dictionaries({'op': st.just('keys_for_path'), 'change': st.sampled_from([0, 1]),
                                   'index': st.sampled_from([0, 3, 20]), 'count': st.integers(1, 3)}),
            st.just({'op': 'reopen'}),
            st.fixed_dictionaries({'op': st.just('set_default_account'), 'pick': st.integers(0, 3)}),
            st.fixed_dictionaries({'op': st.just('observe'),
                                   'what': st.sampled_from(['public_master', 'wif_public', 'account_key', 'keys'])}),
        )
        others = [x for x in raddr.NETWORK_NAMES if x != net and wu.coin_type(x) != wu.coin_type(net) and
                  (wt == 'legacy' or not x.startswith('dogecoin'))]
        return {'kind': 'keys', 'network': net, 'witness_type': wt, 'source': source,
                'net2': draw(st.sampled_from(others)),
                'account0': draw(st.sampled_from([0, 0, 0, 2, 1])),
                'ops': draw(st.lists(op, min_size=4, max_size=ctx.scale(12, 25)))}
    return cases()


def run(ctx):
    def prop(case):
        ctx.klass('net.' + case['network'])
        ctx.klass('wt.' + case['witness_type'])
        ctx.klass('source.' + case['source']['kind'])
        flags = run_case(ctx, case)
        for f in flags:
            ctx.klass('history.' + f)
        ctx.nt(case)
        if len(ctx.samples) < 2 and flags:
            ctx.sample(case)
    ctx.run_given('keys', _strategy(ctx), prop, ctx.scale(6, 100), shrink=ctx.tier == 'thorough')
