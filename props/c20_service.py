"""C20 - the service layer fails over between providers and never fabricates answers; answers served from
the cache equal the answers that were stored.

The library is driven through its public entry points (Service(...).<method>) against k <= 4 *fake providers*
(plain Python classes attached to `bitcoinlib.services`, definitions written to the private providers.json), a
fake clock (the names `time` / `datetime` inside bitcoinlib.services.services) and a private SQLite cache (a named
shared in-memory database per case, or a file in the private data dir that is wiped per case).
Each provider follows a scripted behaviour per (method, call number): ok / empty-but-legitimate / malformed
answers, `False`, ClientError, a generic exception, a requests time-out, AttributeError, method missing.

Oracle = an explicit model of the *contract* (not of the code):
  * in any priority-compatible order (higher priority first, ties in any order) a provider answers iff it
    neither raises nor returns False; the value that comes back must be the answer of the first answering
    provider, provided fewer than max_errors recorded errors precede it (raised exceptions count, a False answer /
    swallowed AttributeError / missing method may or may not count - both readings are accepted);
  * the query may fail (the failure signals are exactly "raises ServiceError" and "returns False") only if no
    provider answers or the error limit is reached before the first answer; estimatefee may then also return the
    network's documented default fee;
  * a result obtained without asking any provider must equal an unexpired value that an answering provider
    supplied earlier for the same key (transactions: txid, raw bytes, input/output values and addresses, block
    height, taken from the reference serialiser ref/wire + ref/address);
  * malformed provider values may be passed through or make the call raise, nothing else may come back;
  * bookkeeping: keys of Service.results are answering providers incl. the one returned, keys of Service.errors
    are providers that failed.
"""
import itertools
import json
import os

from vlib.core import Discrepancy, HarnessError

LEVEL = 'fault_enumeration'
TECHNIQUE = ('exhaustive enumeration of provider fault plans (behaviour per provider x weak priority orders x '
             'max_errors x min/max providers x 13 query methods, cache off) + Hypothesis-generated stateful '
             'query/clock/outage/reopen sequences against an SQLite cache under a fake clock; oracle = contract '
             'model evaluated on the scripted plan and on the calls observed at the fake-provider boundary')
RULE = ('a case is a fault plan: network, k<=4 fake providers with priorities (ties included), per provider and '
        'method a scripted list of behaviours {ok, empty, malformed, false, client_error, generic, timeout, attr, '
        'nomethod} indexed by call number, (min_providers, max_providers) in {(1,1),(1,2),(2,2)}, max_errors in '
        '{1,2,4}, cache on/off, ignore_priority, a seed for the library RNG (tie-breaking) and a sequence of operations (query with '
        'arguments, clock tick, outage on/off = every provider raises, reopen = new Service on the same cache). '
        'The constructor is evaluated as a blockcount query. Enumerated part (per tier): every behaviour vector over '
        'the tier alphabet for k<=3 (thorough: k<=4), every weak priority order, max_errors, provider settings and '
        'every one of the 13 methods, cache off. Non-trivial = a plan containing an operation in which every '
        'top-priority provider fails to answer the queried method (so fail-over or failure handling is exercised), '
        'or a history answered from the cache alone although the confirmed chain goes on (limited reads followed by larger limits), or a cached address summary (getcacheaddressinfo) judged against the complete UTXO answers, or an operation answered from the cache without asking a provider; distinct by the whole case. [directed scenarios include balances of address lists answered partly from the cache] [and a second network using the same cache database: nothing the first stored is an answer for it] [fee targets on both sides of the cache group boundaries in every order]'
        ' [chains whose newest block holds the last transactions of the address (limited reads ending inside it); narrow block page followed by wider ones]')
ASSUMPTIONS = [
    'faults are immediate exceptions/values; a time-out is the exception requests raises, not elapsed time',
    'a provider "answers" iff it neither raises nor returns False (the library\'s own reading of "empty response"); '
    '0, [], "", {} are answers',
    'failure signals of a query are exactly: raises ServiceError, or returns False',
    'raised provider exceptions (other than AttributeError) count towards max_errors and the limit is a hard stop; '
    'False answers, swallowed AttributeErrors and missing methods may or may not count (both accepted)',
    'documented normalisations accepted: estimatefee clamps to the pinned network fee_min/fee_max and replaces an '
    'answer of 0 (or a failure) by the pinned fee_default; blockcount never goes backwards (a higher value obtained '
    'earlier may be kept); gettransaction overwrites a wrong txid; isspent returns bool(answer)',
    'cache expiries taken from the documentation: blockcount 60 s in the database / 3 s in memory, fee estimates '
    '600 s per bucket (<=1, <=5, >5 blocks), transactions never expire',
    'the constructor of a Service with min_providers>1 delegates its first blockcount to a nested Service with '
    'default max_errors=4: both limits are accepted for that call',
    'address-level cache composition (gettransactions / getutxos / getbalance / getblock answered partly from cache '
    'and partly from a provider) is checked only on a static chain on which all answering providers agree: the '
    'result must be a gap-free, duplicate-free run of the true history whose elements are provider objects or '
    'faithful rebuilds',
    'the cache database is SQLite (shared in-memory database or a file in the private data dir); other back-ends are '
    'not exercised',
    'library RNG (random) is re-seeded from the case; the model accepts every priority-compatible order instead of '
    'predicting the tie-break',
]
SHARDS = {'quick': 16, 'thorough': 16}
WALL_CAP = {'quick': 600, 'thorough': 3000}

METHODS = ['blockcount', 'estimatefee', 'getbalance', 'getutxos', 'gettransaction', 'gettransactions',
           'getrawtransaction', 'sendrawtransaction', 'getblock', 'getrawblock', 'mempool', 'isspent', 'getinfo']
METHOD_SET = frozenset(METHODS)
ANSWER = frozenset(['ok', 'empty', 'malformed'])
HARD_ERR = frozenset(['client_error', 'generic', 'timeout'])
SOFT_ERR = frozenset(['false', 'attr', 'nomethod'])
BEHAVIOURS = ['ok', 'empty', 'malformed', 'false', 'client_error', 'generic', 'timeout', 'attr', 'nomethod']
NETS = ['bitcoin', 'testnet', 'litecoin']
T0 = 1700000000
FEE_TABLE = [500, 999, 1000, 2000, 35000, 999999, 1000000, 1500000, 3000000]
ADDR_METHODS = frozenset(['getbalance', 'getutxos', 'gettransactions'])

F_BALANCE = 'C20-getbalance-zero-on-error-limit'
F_FEE_CACHED = 'C20-estimatefee-default-cached'
F_BC_STALE = 'C20-blockcount-stale-on-error-limit'
F_UTXO_GAP = 'C20-getutxos-cache-gap'
F_TXS_GAP = 'C20-gettransactions-cache-gap'
F_ORDER = 'C20-cache-order-within-block'

_ENV = {}


# =================================================================================================
# chain universe (reference-built): two tracked addresses and a short history of standard transactions
# =================================================================================================

class Universe(object):
    def __init__(self, net, salt):
        from ref import wire, ec, address as raddr
        from ref.hashes import hash160, sha256
        from props.txgen import _fake_sig
        self.net = net
        self.salt = salt
        pa = ec.ser_compressed(ec.pubkey(1000 + 3 * salt))
        pb = ec.ser_compressed(ec.pubkey(1001 + 3 * salt))
        pc = ec.ser_compressed(ec.pubkey(1002 + 3 * salt))
        ha, hb, hc = hash160(pa), hash160(pb), hash160(pc)
        self.addr = [raddr.address_for('p2pkh', ha, net), raddr.address_for('p2wpkh', hb, net)]
        spk_a0 = raddr.script_p2pkh(ha)
        spk_a1 = raddr.script_p2wpkh(hb)
        sig = lambda n: _fake_sig(salt * 100 + n)

        def ext(n):
            return sha256(b'c20-ext-%d-%d' % (salt, n))

        def foreign(kind, n):
            h = hash160(b'c20-out-%d-%d' % (salt, n))
            x = sha256(b'c20-out-%d-%d' % (salt, n))
            if kind == 'p2pkh':
                return raddr.script_p2pkh(h), raddr.address_for('p2pkh', h, net)
            if kind == 'p2sh':
                return raddr.script_p2sh(h), raddr.address_for('p2sh', h, net)
            if kind == 'p2wpkh':
                return raddr.script_p2wpkh(h), raddr.address_for('p2wpkh', h, net)
            if kind == 'p2wsh':
                return raddr.script_p2wsh(x), raddr.address_for('p2wsh', x, net)
            return raddr.script_p2tr(x), raddr.address_for('p2tr', x, net)
        kinds = ['p2pkh', 'p2sh', 'p2wpkh', 'p2wsh', 'p2tr']
        fk = lambda n: kinds[(salt + n) % 5]
        # external inputs: (TxIn, value, address)
        rs_c = raddr.script_p2wpkh(hc)
        ms = raddr.script_multisig(2, [pa, pb, pc])

        def ext_in(kind, n, idx):
            prev = ext(n)
            if kind == 'p2pkh':
                return wire.TxIn(prev, idx, wire.script_build([sig(n), pc])), raddr.address_for('p2pkh', hc, net)
            if kind == 'p2wpkh':
                return wire.TxIn(prev, idx, b'', 0xfffffffd, [sig(n), pc]), raddr.address_for('p2wpkh', hc, net)
            if kind == 'p2sh_p2wpkh':
                return (wire.TxIn(prev, idx, wire.script_build([rs_c]), 0xfffffffe, [sig(n), pc]),
                        raddr.address_for('p2sh', hash160(rs_c), net))
            if kind == 'p2sh_ms':
                return (wire.TxIn(prev, idx, wire.script_build([0, sig(n), sig(n + 50), ms])),
                        raddr.address_for('p2sh', hash160(ms), net))
            return (wire.TxIn(prev, idx, b'', 0xffffffff, [b'', sig(n), sig(n + 50), ms]),
                    raddr.address_for('p2wsh', sha256(ms), net))
        ekinds = ['p2pkh', 'p2wpkh', 'p2sh_p2wpkh', 'p2sh_ms', 'p2wsh_ms']
        ek = lambda n: ekinds[(salt + n) % 5]
        self.txs = []

        def add(vin_meta, vout_meta, height, locktime=0, version=2):
            tx = wire.Tx(version, [m[0] for m in vin_meta], [wire.TxOut(v, spk) for v, spk, _ in vout_meta], locktime)
            raw = tx.serialize()
            self.txs.append({
                'raw': raw.hex(), 'txid': tx.txid().hex(), 'n_in': len(vin_meta),
                'ins': [{'value': m[1], 'address': m[2], 'prev': m[0].prev_hash[::-1].hex(), 'n': m[0].prev_n}
                        for m in vin_meta],
                'outs': [{'value': v, 'address': a, 'spk': spk.hex()} for v, spk, a in vout_meta],
                'height': height, 'ts': 1600000000 + (height - 700000) * 600 if height else None,
                'segwit': tx.has_witness()})
            return tx
        base_h = 790000 + 17 * salt
        # tx0: external -> A0, foreign
        i0, a0 = ext_in(ek(0), 0, salt % 3)
        f0 = foreign(fk(0), 0)
        t0 = add([(i0, 500000 + salt, a0)], [(300000 + salt, spk_a0, self.addr[0]), (199000, f0[0], f0[1])], base_h)
        # tx1: A0 (tx0:0) + external -> A1, A0
        i1 = wire.TxIn(t0.txid()[::-1], 0, wire.script_build([sig(10), pa]))
        i1b, a1b = ext_in(ek(1), 1, 1)
        t1 = add([(i1, 300000 + salt, self.addr[0]), (i1b, 70000, a1b)],
                 [(250000, spk_a1, self.addr[1]), (110000 + salt, spk_a0, self.addr[0])],
                 # in one of five universes tx1 is mined in the same block as tx0 (later in the block)
                 base_h + (0 if salt % 5 == 3 else 10),
                 locktime=(base_h - 1 if salt % 5 == 3 else base_h + 9) if salt % 2 else 0)
        # tx2: A1 (tx1:0) + external -> A0, foreign, foreign
        i2 = wire.TxIn(t1.txid()[::-1], 0, b'', 0xffffffff, [sig(20), pb])
        i2b, a2b = ext_in(ek(2), 2, 0)
        f2, f2b = foreign(fk(2), 2), foreign(fk(3), 3)
        t2 = add([(i2, 250000, self.addr[1]), (i2b, 40000 + salt, a2b)],
                 [(150000, spk_a0, self.addr[0]), (100000, f2[0], f2[1]), (30000 + salt, f2b[0], f2b[1])],
                 # in two of five universes tx1 and tx2 are mined in the SAME block (ordering inside a block matters
                 # for after_txid queries answered from the cache)
                 base_h + (10 if salt % 5 == 1 else 20),
                 version=1 if salt % 3 == 0 else 2)
        # tx3 (unconfirmed): A0 (tx2:0) -> A1
        i3 = wire.TxIn(t2.txid()[::-1], 0, wire.script_build([sig(30), pa]))
        add([(i3, 150000, self.addr[0])], [(149000, spk_a1, self.addr[1])], None)
        self.by_txid = {t['txid']: n for n, t in enumerate(self.txs)}
        self.tip = base_h + 20
        # the block at base_h: it holds tx0 and, in the universes where tx1 is mined at the same height, tx1 as well
        # (header fields are synthetic; the service layer does not validate them)
        self.block_txs = [n for n, t in enumerate(self.txs) if t['height'] == base_h]
        self.block = {'block_hash': sha256(b'c20-block-%d' % salt)[::-1].hex(), 'height': base_h,
                      'prev_block': sha256(b'c20-prev-%d' % salt)[::-1].hex(),
                      'merkle_root': sha256(b'c20-mr-%d' % salt).hex(), 'time': 1600000000 + salt,
                      'bits': 0x1d00ffff - salt, 'version': 0x20000000, 'tx_count': len(self.block_txs)}
        self.rawblock = sha256(b'c20-rawblock-%d' % salt).hex() * 3

    # ---- truth about the (confirmed) chain ---------------------------------------------------------
    def spent_truth(self, txidx, n):
        """True/False for outputs of confirmed history; spending by the unconfirmed tx3 does not count."""
        txid = self.txs[txidx]['txid']
        for t in self.txs:
            if t['height'] is None:
                continue
            for i in t['ins']:
                if i['prev'] == txid and i['n'] == n:
                    return True
        return False

    def history(self, aidx, confirmed_only=False):
        a = self.addr[aidx]
        out = []
        for n, t in enumerate(self.txs):
            if confirmed_only and t['height'] is None:
                continue
            if any(i['address'] == a for i in t['ins']) or any(o['address'] == a for o in t['outs']):
                out.append(n)
        return out

    def utxos(self, aidx):
        a = self.addr[aidx]
        out = []
        for n, t in enumerate(self.txs):
            if t['height'] is None:
                continue
            for j, o in enumerate(t['outs']):
                if o['address'] == a and not self.spent_truth(n, j):
                    out.append((n, j, o['value']))
        return out

    def balance(self, aidx):
        return sum(u[2] for u in self.utxos(aidx))

    def aidx(self, address):
        return self.addr.index(address)


def _universe(net, salt):
    key = ('U', net, salt)
    if key not in _ENV:
        _ENV[key] = Universe(net, salt)
    return _ENV[key]


# =================================================================================================
# library access, fake providers, fake clock
# =================================================================================================

class _State(object):
    """Scripted behaviour of the fake providers for the case being executed (harness state)."""

    def __init__(self):
        self.case = None
        self.U = None
        self.counters = {}
        self.log = []
        self.outage = False
        self.epoch = 0
        self.now = T0

    def reset(self, case):
        self.case = case
        self.U = _universe(case['net'], case['salt'])
        self.U.novalue = case.get('novalue')
        self.U.spent_unknown = bool(case.get('spent_unknown'))
        self.counters = {}
        self.log = []
        self.outage = False
        self.epoch = 0
        self.now = T0

    def peek(self, i, m):
        if self.outage:
            return 'client_error'
        per = self.case['beh'].get(m)
        if not per or i >= len(per) or not per[i]:
            return 'ok'
        lst = per[i]
        n = self.counters.get((i, m), 0)
        return lst[n] if n < len(lst) else lst[-1]

    def consume(self, i, m, beh, args, val):
        if not self.outage:
            self.counters[(i, m)] = self.counters.get((i, m), 0) + 1
        self.log.append({'i': i, 'm': m, 'beh': beh, 'args': args, 'val': val})

    def invoke(self, i, m, args):
        L = _ENV['lib']
        beh = self.peek(i, m)
        if beh in ANSWER:
            val = _answer(self, i, m, beh, args)
            self.consume(i, m, beh, args, val)
            return val
        self.consume(i, m, beh, args, None)
        if beh == 'false':
            return False
        if beh == 'client_error':
            raise L['ClientError']('scripted failure of vp%d' % i)
        if beh == 'generic':
            raise ValueError('scripted generic failure of vp%d' % i)
        if beh == 'timeout':
            raise L['Timeout']('scripted time-out of vp%d' % i)
        if beh == 'attr':
            raise AttributeError('scripted AttributeError of vp%d' % i)
        raise HarnessError('unknown behaviour %r' % beh)


_ST = _State()


def _make_client(idx):
    class FakeClient(object):
        _idx = idx

        def __init__(self, *args):
            pass

        def __getattr__(self, name):
            if name not in METHOD_SET:
                raise AttributeError(name)
            if _ST.peek(self._idx, name) == 'nomethod':
                _ST.consume(self._idx, name, 'nomethod', None, None)
                raise AttributeError(name)
            i = self._idx

            def call(*args):
                return _ST.invoke(i, name, args)
            return call
    FakeClient.__name__ = 'P%d' % idx
    return FakeClient


def _lib():
    if 'lib' in _ENV:
        return _ENV['lib']
    import logging
    import types
    import datetime as _dtm
    import bitcoinlib.services as services_pkg
    from bitcoinlib.services import services as SS
    from bitcoinlib.services.baseclient import ClientError
    from bitcoinlib.transactions import Transaction
    from bitcoinlib.blocks import Block
    logging.disable(logging.CRITICAL)
    try:
        from requests.exceptions import ReadTimeout as Timeout
    except Exception:                                            # pragma: no cover
        Timeout = TimeoutError
    ns = types.SimpleNamespace(**{'P%d' % i: _make_client(i) for i in range(4)})
    setattr(services_pkg, 'verifake', ns)
    real_dt = _dtm.datetime
    epoch0 = real_dt(1970, 1, 1)

    class FakeDT(real_dt):
        @classmethod
        def now(cls, tz=None):
            base = epoch0 + _dtm.timedelta(seconds=_ST.now)
            if tz is None:
                return base
            return base.replace(tzinfo=_dtm.timezone.utc).astimezone(tz)

        @classmethod
        def utcnow(cls):
            return epoch0 + _dtm.timedelta(seconds=_ST.now)

    class FakeTime(object):
        @staticmethod
        def time():
            return float(_ST.now)

    for name in ('time', 'datetime'):
        if not hasattr(SS, name):
            raise HarnessError('bitcoinlib.services.services has no global %r to put the fake clock on' % name)
    SS.time = FakeTime
    SS.datetime = FakeDT
    _ENV['lib'] = {'SS': SS, 'Service': SS.Service, 'ServiceError': SS.ServiceError, 'ClientError': ClientError,
                   'Transaction': Transaction, 'Block': Block, 'Timeout': Timeout, 'real_dt': real_dt,
                   'utc': _dtm.timezone.utc, 'data_dir': str(SS.BCL_DATA_DIR), 'providers_written': None}
    return _ENV['lib']


def _write_providers(case):
    L = _lib()
    prov = {}
    for i in range(case['k']):
        prov['vp%d' % i] = {'provider': 'verifake', 'network': case['net'], 'client_class': 'P%d' % i,
                            'provider_coin_id': '', 'url': 'fake://vp%d/' % i, 'api_key': '',
                            'priority': case['prio'][i], 'denominator': 1, 'network_overrides': None, 'timeout': 0}
    txt = json.dumps(prov, sort_keys=True)
    if L['providers_written'] != txt:
        with open(os.path.join(L['data_dir'], 'providers.json'), 'w') as f:
            f.write(txt)
        L['providers_written'] = txt


def _cache_path():
    return os.path.join(_lib()['data_dir'], 'c20_cache.sqlite')


def _cache_uri(case, keep):
    """cache == 'file': SQLite file in the private data dir (wiped per case); cache == True: a named shared
    in-memory SQLite database that lives as long as the harness holds a connection (same SQL, no fsync)."""
    if not case['cache']:
        return ''
    if case['cache'] == 'file':
        return _cache_path()
    if 'uri' not in keep:
        import sqlite3
        _ENV['memdb'] = _ENV.get('memdb', 0) + 1
        name = 'c20mem_%d_%d' % (os.getpid(), _ENV['memdb'])
        keep['conn'] = sqlite3.connect('file:%s?mode=memory&cache=shared' % name, uri=True, check_same_thread=False)
        keep['uri'] = 'sqlite:///file:%s?mode=memory&cache=shared&uri=true' % name
    return keep['uri']


def _wipe_cache():
    import sqlite3
    p = _cache_path()
    if not os.path.exists(p):
        return
    c = sqlite3.connect(p)
    try:
        for tb in ('cache_transactions_node', 'cache_transactions', 'cache_address', 'cache_blocks',
                   'cache_variables'):
            try:
                c.execute('delete from %s' % tb)
            except sqlite3.OperationalError:
                pass
        c.commit()
    finally:
        c.close()


def _close(srv):
    try:
        if srv is not None and srv.cache is not None and srv.cache.session is not None:
            bind = srv.cache.session.get_bind()
            srv.cache.session.close()
            bind.dispose()
    except Exception:
        pass


# =================================================================================================
# what a provider answers (harness side; built from the reference universe)
# =================================================================================================

def _lib_tx(U, txidx, i, confirmed=True):
    """Transaction object as a provider client would deliver it: parsed from the reference raw bytes, block data
    and input values filled in."""
    L = _lib()
    t = U.txs[txidx]
    tx = L['Transaction'].parse(bytes.fromhex(t['raw']), strict=True, network=U.net)
    if t['height'] is not None and confirmed:
        tx.block_height = t['height']
        tx.confirmations = 100 + i
        tx.date = L['real_dt'].fromtimestamp(t['ts'], L['utc'])
        tx.status = 'confirmed'
    else:
        tx.block_height = None
        tx.confirmations = 0
        tx.date = None
        tx.status = 'unconfirmed'
    for k_, (inp, m) in enumerate(zip(tx.inputs, t['ins'])):
        inp.value = m['value']
        if getattr(U, 'novalue', None) == txidx and k_ == len(tx.inputs) - 1:
            # what providers that do not know the value of a foreign previous output deliver
            inp.value = 0
    for n, o in enumerate(tx.outputs):
        if t['outs'][n]['address'] in U.addr and not getattr(U, 'spent_unknown', False):
            o.spent = U.spent_truth(txidx, n)
        else:
            # (providers that deliver transactions without spent information: every output "unknown")
            o.spent = None
    tx.update_totals()
    return tx


def _answer(st, i, m, beh, args):
    U = st.U
    salt = st.case['salt']
    if m == 'blockcount':
        if beh == 'ok':
            if st.case.get('at_tip'):
                # the chain ends with the block of the last confirmed transaction of the universe
                return max(t['height'] for t in U.txs if t['height'] is not None)
            return 800000 + 10 * st.epoch + i
        return 0 if beh == 'empty' else 'height?'
    if m == 'estimatefee':
        if beh == 'ok':
            return FEE_TABLE[(salt + i + args[0]) % len(FEE_TABLE)] + 3 * i
        return 0 if beh == 'empty' else '2000'
    if m == 'getbalance':
        if beh == 'ok':
            return sum(U.balance(U.aidx(a)) for a in args[0]) + (1 + i if args[0] else 0)
        return 0 if beh == 'empty' else 'balance?'
    if m == 'getutxos':
        if beh == 'ok':
            address, after_txid, limit = args
            out = []
            for (n, j, v) in U.utxos(U.aidx(address)):
                t = U.txs[n]
                out.append({'address': address, 'txid': t['txid'], 'confirmations': 100 + i, 'output_n': j,
                            'input_n': 0, 'block_height': t['height'], 'fee': None, 'size': 0, 'value': v,
                            'script': '', 'date': None})
                if t['txid'] == after_txid:
                    out = []
            return out[:limit]
        return [] if beh == 'empty' else [{'txid': 'zz'}]
    if m == 'gettransaction':
        n = U.by_txid.get(args[0])
        if n is None:
            return False
        if beh == 'ok':
            return _lib_tx(U, n, i)
        if beh == 'empty':                      # legitimate but not cacheable: the provider sees it unconfirmed
            return _lib_tx(U, n, i, confirmed=False)
        return _lib_tx(U, (n + 1) % len(U.txs), i)   # malformed: some other transaction
    if m == 'gettransactions':
        if beh == 'ok':
            address, after_txid, limit = args
            out = []
            for n in U.history(U.aidx(address)):
                out.append(n)
                if U.txs[n]['txid'] == after_txid:
                    out = []
            return [_lib_tx(U, n, i) for n in out[:limit]]
        return [] if beh == 'empty' else ['not-a-transaction']
    if m == 'getrawtransaction':
        n = U.by_txid.get(args[0])
        if beh == 'ok':
            return bytes.fromhex(U.txs[n]['raw']).hex() if n is not None else False
        return '' if beh == 'empty' else None
    if m == 'sendrawtransaction':
        if beh == 'ok':
            return {'txid': 'sent-by-vp%d' % i, 'response_dict': {'provider': i, 'raw': args[0]}}
        return {} if beh == 'empty' else None
    if m == 'getblock':
        blockid, parse, page, limit = args
        if beh == 'malformed':
            return {'block_hash': 'zz'}
        bd = dict(U.block)
        bd.update({'nonce': 1000 + i, 'depth': None, 'page': page, 'pages': 1, 'limit': limit})
        if beh == 'empty':
            bd['txs'] = []
        elif parse:
            bd['txs'] = [_lib_tx(U, n, i) for n in U.block_txs[(page - 1) * limit:page * limit]]
        else:
            bd['txs'] = [U.txs[n]['txid'] for n in U.block_txs[(page - 1) * limit:page * limit]]
        return bd
    if m == 'getrawblock':
        if beh == 'ok':
            return '%02x' % i + U.rawblock
        return '' if beh == 'empty' else None
    if m == 'mempool':
        if beh == 'ok':
            return [args[0], 'seen-by-vp%d' % i]
        return [] if beh == 'empty' else None
    if m == 'isspent':
        if beh == 'ok':
            n = U.by_txid.get(args[0])
            return 1 if (n is not None and U.spent_truth(n, args[1])) else 0
        return 0 if beh == 'empty' else 'maybe'
    if m == 'getinfo':
        if beh == 'ok':
            return {'blockcount': 800000 + i, 'chain': 'main', 'difficulty': 1, 'hashrate': 0, 'mempool_size': i}
        return {} if beh == 'empty' else None
    raise HarnessError('no answer for method %s' % m)


# =================================================================================================
# contract model
# =================================================================================================

def compatible_orders(prio):
    """All orders of provider indices compatible with the priorities (higher first, ties in any order)."""
    groups = {}
    for i, p in enumerate(prio):
        groups.setdefault(p, []).append(i)
    per = [list(itertools.permutations(groups[p])) for p in sorted(groups, reverse=True)]
    for combo in itertools.product(*per):
        yield [i for g in combo for i in g]


def contract(prio, behs, max_errors):
    """-> (set of providers whose answer may be returned, may the query fail?)"""
    answerers = set()
    fail = False
    for order in compatible_orders(prio):
        lo = hi = 0
        done = False
        for i in order:
            if lo >= max_errors:
                fail = True
                done = True
                break
            if hi >= max_errors:
                fail = True
            b = behs[i]
            if b in ANSWER:
                answerers.add(i)
                done = True
                break
            if b in HARD_ERR:
                lo += 1
            hi += 1
        if not done:
            fail = True
    return answerers, fail


def first_fails(prio, behs):
    top = max(prio)
    return all(behs[i] not in ANSWER for i in range(len(prio)) if prio[i] == top)


def _segment(entries):
    rounds = []
    cur = None
    for e in entries:
        if cur is None or cur['m'] != e['m'] or e['i'] in cur['seen']:
            cur = {'m': e['m'], 'entries': [], 'seen': set()}
            rounds.append(cur)
        cur['entries'].append(e)
        cur['seen'].add(e['i'])
    return rounds


def _fee_limits(net):
    from ref import address as raddr
    n = raddr.net(net)
    return n['fee_min'], n['fee_max'], n['fee_default']


def _clamp_fee(net, fee):
    lo, hi, _ = _fee_limits(net)
    return lo if fee < lo else hi if fee > hi else fee


def _fee_bucket(blocks):
    return 'high' if blocks <= 1 else 'medium' if blocks <= 5 else 'low'


def _is_subsequence(sub, full):
    it = iter(full)
    return bool(sub) and all(any(x == y for y in it) for x in sub)


def _same(v, a):
    return v is a or (type(v) is type(a) and v == a)


def _tx_equals_ref(v, t, U):
    """Is the library Transaction v the same transaction as reference entry t? -> None or text of difference"""
    try:
        if v.txid != t['txid']:
            return 'txid %s != %s' % (v.txid, t['txid'])
        if v.raw_hex() != t['raw']:
            return 'raw bytes differ: %s.. vs %s..' % (v.raw_hex()[:120], t['raw'][:120])
        if len(v.inputs) != len(t['ins']) or len(v.outputs) != len(t['outs']):
            return 'input/output count differs'
        for n, (i, m) in enumerate(zip(v.inputs, t['ins'])):
            if i.value != m['value']:
                return 'input %d value %r != %r' % (n, i.value, m['value'])
            if i.address != m['address']:
                return 'input %d address %r != %r' % (n, i.address, m['address'])
        for n, (o, m) in enumerate(zip(v.outputs, t['outs'])):
            if o.value != m['value']:
                return 'output %d value %r != %r' % (n, o.value, m['value'])
            if o.address != m['address']:
                return 'output %d address %r != %r' % (n, o.address, m['address'])
        if v.block_height != t['height']:
            return 'block_height %r != %r' % (v.block_height, t['height'])
        if t['height'] is not None and not (isinstance(v.confirmations, int) and v.confirmations >= 1):
            # (the number itself moves with the chain; a transaction that was stored as confirmed has at least one)
            return 'confirmations %r for a transaction stored as confirmed in block %d' % (v.confirmations, t['height'])
    except Exception as e:
        return 'cached transaction unusable: %r' % e
    return None


def _match(m, v, e, case, U):
    """Does return value v equal provider answer e['val'] (after the documented normalisation of method m)?"""
    a = e['val']
    if m == 'estimatefee':
        if not isinstance(a, int) or isinstance(a, bool):
            return _same(v, a)
        if a == 0:
            d = _fee_limits(case['net'])[2]
            return bool(d) and type(v) is int and v == _clamp_fee(case['net'], d)
        return type(v) is int and v == _clamp_fee(case['net'], a)
    if m == 'isspent':
        return v is bool(a)
    if m in ('gettransaction',):
        return v is a
    if m in ('gettransactions', 'getutxos'):
        return isinstance(v, list) and isinstance(a, list) and len(v) == len(a) and \
            all(x is y for x, y in zip(v, a))
    if m == 'getblock':
        L = _lib()
        if not isinstance(v, L['Block']) or not isinstance(a, dict):
            return False
        try:
            return (v.block_hash.hex() == a['block_hash'] and v.height == a['height'] and
                    v.nonce_int == a['nonce'] and v.merkle_root.hex() == a['merkle_root'] and
                    v.prev_block.hex() == a['prev_block'] and v.time == a['time'] and v.bits_int == a['bits'] and
                    v.version_int == a['version'] and v.tx_count == a['tx_count'] and
                    len(v.transactions) == len(a['txs']) and all(x is y for x, y in zip(v.transactions, a['txs'])))
        except Exception:
            return False
    return _same(v, a)


# =================================================================================================
# case execution
# =================================================================================================

class _Run(object):
    def __init__(self, ctx, case):
        self.ctx = ctx
        self.case = case
        self.L = _lib()
        self.srv = None
        self.services = []
        self.nt = False
        self.tainted = False
        self.keep = {}
        # model of what answering providers supplied (the only legitimate cache content)
        self.m_fee = {}          # bucket -> (value, t)
        self.m_fee_fb = {}       # bucket -> t of a default fall-back without provider answer
        self.m_bc = []           # (value, t) blockcounts obtained from providers
        self.m_tx = set()        # universe indices of transactions supplied by a provider (confirmed form)
        self.m_bal = {}          # address index -> balance figures legitimately in the cache
        self.m_addr_known = set()  # addresses for which a provider answered an address-level query
        # addresses for which an 'empty' provider may have been believed ("no history") although the chain has one:
        # what the cache then holds is consistent with what it was told, not with the chain - gap checks are off
        self.lied_empty = set()
        self.m_blk = False
        self.m_bc_failed = None  # time of the last legitimately failed blockcount (the library remembers it for 3 s)

    # ---- helpers -----------------------------------------------------------------------------------
    def disc(self, bucket, msg, kf=None):
        self.ctx.disc(bucket, msg, getattr(self, 'case0', self.case), kf=kf)

    def switch_network(self, op):
        """The same cache database is used by a Service of ANOTHER network (one cache for all networks is the
        library's default). Its providers answer from that network's own chain; nothing has been stored for it yet, so
        the model of legitimate cache content starts empty again: whatever the first network left in the cache is not
        an answer for this one."""
        c2 = dict(self.case, net=op['net'], salt=op['salt'])
        if not hasattr(self, 'case0'):
            self.case0 = self.case
        self.case = c2
        _write_providers(c2)
        _ST.case = c2
        _ST.U = _universe(c2['net'], c2['salt'])
        _ST.U.novalue = c2.get('novalue')
        _ST.U.spent_unknown = bool(c2.get('spent_unknown'))
        self.m_fee, self.m_fee_fb, self.m_bc = {}, {}, []
        self.m_tx, self.m_bal, self.m_addr_known, self.lied_empty = set(), {}, set(), set()
        self.m_blk = False
        self.m_bc_failed = None
        self.nt = True
        self.ctx.klass('second_network_on_same_cache')
        return self.open()

    def observe(self, fn):
        SE = self.L['ServiceError']
        try:
            v = fn()
        except SE as e:
            return ('fail', 'ServiceError(%s)' % e)
        except Exception as e:
            return ('exc', '%s: %s' % (type(e).__name__, e))
        if v is False:
            return ('fail', 'returned False')
        return ('ret', v)

    def behs(self, m):
        return [_ST.peek(i, m) for i in range(self.case['k'])]

    def prio(self):
        """priorities the contract is evaluated with: ignore_priority=True makes every order acceptable"""
        c = self.case
        return [1] * c['k'] if c.get('ignp') else c['prio']

    # ---- operations ---------------------------------------------------------------------------------
    def open(self):
        c = self.case
        import random
        random.seed(c['rseed'] + len(self.services))
        snapshot = self.behs('blockcount')
        pre = len(_ST.log)
        box = {}

        def mk():
            box['s'] = self.L['Service'](network=c['net'], min_providers=c['minp'], max_providers=c['maxp'],
                                         cache_uri=_cache_uri(c, self.keep),
                                         max_errors=c['max_errors'], ignore_priority=bool(c.get('ignp')))
            return box['s']._blockcount
        obs = self.observe(mk)
        self.srv = box.get('s')
        if self.srv is not None:
            self.services.append(self.srv)
        if obs[0] == 'ret' and obs[1] is None:
            obs = ('fail', '_blockcount None')
        self.judge_blockcount(obs, snapshot, _ST.log[pre:], ctor=True)
        return self.srv is not None

    def query(self, op):
        m = op['m']
        a = op.get('a', {})
        U = _ST.U
        srv = self.srv
        if m == 'blockcount':
            snapshot = self.behs(m)
            pre = len(_ST.log)
            obs = self.observe(srv.blockcount)
            self.judge_blockcount(obs, snapshot, _ST.log[pre:], ctor=False)
            return
        if m == 'addrinfo':
            # what the cache says about an address (no provider is involved)
            pre = len(_ST.log)
            obs = self.observe(lambda: srv.getcacheaddressinfo(U.addr[a['addr']]))
            if len(_ST.log) != pre:
                raise HarnessError('getcacheaddressinfo asked providers')
            self.judge_addrinfo(a, obs)
            return
        if m == 'estimatefee':
            call = lambda: srv.estimatefee(a['blocks'])
        elif m == 'getbalance':
            call = lambda: srv.getbalance([U.addr[x] for x in a['addrs']])
        elif m == 'getutxos':
            call = lambda: srv.getutxos(U.addr[a['addr']], '' if a.get('after', -1) < 0 else U.txs[a['after']]['txid'],
                                        a.get('limit', 20))
        elif m == 'gettransaction':
            call = lambda: srv.gettransaction(U.txs[a['tx']]['txid'])
        elif m == 'gettransactions':
            call = lambda: srv.gettransactions(U.addr[a['addr']],
                                               '' if a.get('after', -1) < 0 else U.txs[a['after']]['txid'],
                                               a.get('limit', 20))
        elif m == 'getrawtransaction':
            call = lambda: srv.getrawtransaction(U.txs[a['tx']]['txid'])
        elif m == 'sendrawtransaction':
            call = lambda: srv.sendrawtransaction(U.txs[a['tx']]['raw'])
        elif m == 'getblock':
            call = lambda: srv.getblock(U.block['block_hash'] if a.get('byhash') else U.block['height'],
                                        bool(a.get('parse')), a.get('page', 1), a.get('limit', 10))
        elif m == 'getrawblock':
            call = lambda: srv.getrawblock(U.block['height'])
        elif m == 'mempool':
            call = lambda: srv.mempool('' if a.get('tx', -1) < 0 else U.txs[a['tx']]['txid'])
        elif m == 'isspent':
            call = lambda: srv.isspent(U.txs[a['tx']]['txid'], a['n'])
        elif m == 'getinfo':
            call = srv.getinfo
        else:
            raise HarnessError('unknown method %r' % m)
        snapshot = self.behs(m)
        pre = len(_ST.log)
        obs = self.observe(call)
        self.judge(m, a, obs, snapshot, _ST.log[pre:])

    # ---- oracle: cached address summary ---------------------------------------------------------------
    def judge_addrinfo(self, a, obs):
        """getcacheaddressinfo: a stored UTXO count is a claim about the address ("n outputs, worth b"); it must be
        the summary of a complete UTXO answer / of the completely cached history - in the static universe that is
        the chain's own list (with or without the spends of the unconfirmed transaction)."""
        U = _ST.U
        ctx = self.ctx
        if obs[0] != 'ret' or not isinstance(obs[1], dict):
            self.disc('unexpected-exception.addrinfo', 'getcacheaddressinfo -> %r' % (obs,))
            return
        d = obs[1]
        if d.get('n_utxos') is None:
            ctx.klass('addrinfo.no-claim')
            return
        if self.tainted or a['addr'] in self.lied_empty:
            ctx.klass('addrinfo.not-judged')
            return
        conf = U.utxos(a['addr'])
        mem_spent = set((i['prev'], i['n']) for t in U.txs if t['height'] is None for i in t['ins'])
        mem = [u for u in conf if (U.txs[u[0]]['txid'], u[1]) not in mem_spent]
        ok = set((sum(x[2] for x in lst), len(lst)) for lst in (conf, mem))
        got = (d.get('balance'), d.get('n_utxos'))
        if got in ok:
            ctx.klass('addrinfo.claim-correct')
            self.served('addrinfo')
            return
        if got[1] in set(n for _, n in ok) and got[0] in self.m_bal.get(a['addr'], ()):
            # the count comes from a complete UTXO answer and the balance is the copy of a balance a provider supplied
            # for this very address in a later getbalance (the simulated providers differ by a marker amount, so the two
            # fields can stem from two answers)
            ctx.klass('addrinfo.balance-from-getbalance-answer')
            self.served('addrinfo')
            return
        self.disc('cache.addrinfo.fabricated', 'getcacheaddressinfo(address %d) reports balance %r in %r unspent outputs; '
                  'the complete UTXO answers for this address are %r (no provider reported anything else)' %
                  (a['addr'], got[0], got[1], sorted(ok)))

    # ---- oracle: blockcount --------------------------------------------------------------------------
    def judge_blockcount(self, obs, snapshot, entries, ctor):
        c = self.case
        ctx = self.ctx
        now = _ST.now
        rounds = _segment(entries)
        if any(r['m'] != 'blockcount' for r in rounds):
            raise HarnessError('blockcount query called other provider methods: %r' % [r['m'] for r in rounds])
        max_age_ok = (lambda t: now - t < 60) if c['cache'] else (lambda t: now - t <= 3)
        prior_all = set(v for v, _ in self.m_bc)
        prior_valid = set(v for v, t in self.m_bc if max_age_ok(t))
        what = 'Service()' if ctor else 'blockcount()'
        if not rounds:
            ctx.klass('blockcount.no-provider-asked')
            if obs[0] == 'ret':
                if obs[1] in prior_valid and type(obs[1]) is int:
                    self.served('blockcount')
                    return
                stale = getattr(self, 'm_bc_stale', None)
                # (the recorded block count finding at work: the expired value the library fell back to when the error
                # limit was reached is kept as the current block count for the 3 s in which no provider is asked again)
                kept = stale is not None and obs[1] == stale[0] and 0 <= now - stale[1] <= 3
                self.disc('cache.blockcount', '%s returned %r without asking a provider; unexpired stored values: %r '
                          '(all: %r) at t+%d%s' % (what, obs[1], sorted(prior_valid), sorted(prior_all), now - T0,
                                                   ' (the expired value adopted %d s ago when the error limit was '
                                                   'reached)' % (now - stale[1]) if kept else ''),
                          kf=F_BC_STALE if kept else None)
                return
            if self.m_bc_failed is not None and now - self.m_bc_failed <= 3:
                ctx.klass('blockcount.failure-remembered-3s')
                return
            self.disc('blockcount.fail-without-asking', '%s failed (%s) without asking any provider' % (what, obs[1]))
            return
        if first_fails(self.prio(), snapshot):
            self.nt = True
            ctx.klass('first-fails.blockcount')
        limits = [c['max_errors']]
        if ctor and c['minp'] > 1 and 4 not in limits:
            limits.append(4)
        A, fail_ok = set(), False
        for lim in limits:
            a_, f_ = contract(self.prio(), snapshot, lim)
            A |= a_
            fail_ok = fail_ok or f_
        first = rounds[0]['entries']
        cands = [e for e in first if e['i'] in A and e['beh'] in ANSWER]
        mal = any(snapshot[i] == 'malformed' for i in A)
        answered_vals = [e['val'] for e in entries if e['beh'] in ANSWER]
        multi = len(rounds) > 1
        if multi:
            ctx.klass('blockcount.multi-round')
        any_round_unanswered = any(not any(e['beh'] in ANSWER for e in r['entries']) for r in rounds)
        if obs[0] == 'fail':
            if fail_ok or mal or (multi and any_round_unanswered):
                ctx.klass('outcome.fail')
                self.m_bc_failed = now
                return
            self.disc('fail-though-provider-answers.blockcount',
                      '%s failed (%s) although provider(s) %s answer within the error limit; behaviours %r prio %r '
                      'max_errors %d' % (what, obs[1], sorted(A), snapshot, c['prio'], c['max_errors']))
            return
        if obs[0] == 'exc':
            if mal or any(e['beh'] == 'malformed' for e in entries):
                ctx.klass('outcome.exception-on-malformed')
                self.tainted = True
                return
            self.disc('unexpected-exception.blockcount', '%s raised %s; behaviours %r prio %r' %
                      (what, obs[1], snapshot, c['prio']))
            return
        v = obs[1]
        matched = [e for e in cands if _same(v, e['val'])]
        if matched:
            ctx.klass('outcome.answer')
            if any(e['beh'] == 'malformed' for e in matched):
                self.tainted = True
                return
            if type(v) is int:
                self.m_bc.append((v, now))
            if not multi and not (ctor and c['minp'] > 1):
                self.bookkeeping('blockcount', rounds[0], matched)
            return
        if mal:
            self.tainted = True
            if v in prior_all or any(_same(v, x) for x in answered_vals):
                return
            self.disc('wrong-answer.blockcount', '%s returned %r after a malformed answer; not a provider value' %
                      (what, v))
            return
        fresh_ints = [e['val'] for e in cands if type(e['val']) is int]
        if v in prior_all and type(v) is int:
            if any(x < v for x in fresh_ints) or (multi and any(_same(v, x) or x < v for x in answered_vals
                                                               if type(x) is int)):
                ctx.klass('blockcount.kept-higher-earlier-value')      # documented: never go backwards
                self.m_bc.append((v, now))
                return
            if v in prior_valid:
                ctx.klass('blockcount.kept-unexpired-value')
                return
            if not cands and fail_ok:
                self.disc('stale.blockcount', '%s returned the expired value %r (obtained %r, now t+%d) when the '
                          'providers reached the error limit without an answer; behaviours %r prio %r max_errors %d' %
                          (what, v, [(x, t - T0) for x, t in self.m_bc], now - T0, snapshot, c['prio'],
                           c['max_errors']), kf=F_BC_STALE)
                self.m_bc_stale = (v, now)
                return
        if multi and any(_same(v, x) for x in answered_vals):
            ctx.klass('blockcount.consensus-value')
            if type(v) is int:
                self.m_bc.append((v, now))
            return
        if not cands and fail_ok:
            self.disc('fabricated.blockcount', '%s returned %r although no provider answered within the error limit; '
                      'behaviours %r prio %r max_errors %d' % (what, v, snapshot, c['prio'], c['max_errors']))
            return
        self.disc('wrong-answer.blockcount', '%s returned %r; acceptable provider answers %r (providers %s); '
                  'behaviours %r prio %r max_errors %d' % (what, v, [e['val'] for e in cands], sorted(A), snapshot,
                                                          c['prio'], c['max_errors']))

    # ---- oracle: every other method ------------------------------------------------------------------
    def judge(self, m, a, obs, snapshot, entries):
        c = self.case
        ctx = self.ctx
        U = _ST.U
        rounds = _segment(entries)
        main = [r for r in rounds if r['m'] == m]
        side = [r for r in rounds if r['m'] != m]
        if any(r['m'] != 'blockcount' for r in side):
            raise HarnessError('%s called unexpected provider methods %r' % (m, [r['m'] for r in side]))
        side_unanswered = any(not any(e['beh'] in ANSWER for e in r['entries']) for r in side)
        side_limit = any(contract(self.prio(), self._round_behs(r), c['max_errors'])[1] for r in side)
        side_mal = any(e['beh'] == 'malformed' for r in side for e in r['entries'])
        side_fail = side_unanswered or side_limit
        self._side_fail = side_fail or side_mal
        if side:
            ctx.klass('side-blockcount-round')
            for r in side:                     # heights obtained on the way are legitimate cache content too
                for e in r['entries']:
                    if e['beh'] in ANSWER and type(e['val']) is int:
                        self.m_bc.append((e['val'], _ST.now))
        if len(main) > 1:
            ctx.klass('multi-round.%s' % m)
            self.tainted = True
            return
        what = '%s(%s)' % (m, json.dumps(a, sort_keys=True))
        if not main:
            self.judge_cached(m, a, obs, what, side_fail, side_mal)
            return
        if first_fails(self.prio(), snapshot):
            self.nt = True
            ctx.klass('first-fails.%s' % m)
        A, fail_ok = contract(self.prio(), snapshot, c['max_errors'])
        cands = [e for e in main[0]['entries'] if e['i'] in A and e['beh'] in ANSWER]
        mal = any(snapshot[i] == 'malformed' for i in A)
        desc = 'behaviours %r prio %r max_errors %d providers %d-%d' % (snapshot, c['prio'], c['max_errors'],
                                                                       c['minp'], c['maxp'])
        composing = c['cache'] and (m in ADDR_METHODS or m == 'getblock')
        if m == 'isspent' and obs == ('fail', 'returned False') and any(_match(m, False, e, c, U) for e in cands):
            obs = ('ret', False)       # "unspent" is a legitimate answer of this method
        if obs[0] == 'fail':
            zero_fee_no_default = m == 'estimatefee' and any(e['val'] == 0 for e in cands) and \
                not _fee_limits(c['net'])[2]
            if fail_ok or side_fail or mal or side_mal or zero_fee_no_default:
                ctx.klass('outcome.fail')
                return
            self.disc('fail-though-provider-answers.%s' % m, '%s failed (%s) although provider(s) %s answer within '
                      'the error limit; %s' % (what, obs[1], sorted(A), desc))
            return
        if obs[0] == 'exc':
            if mal or side_mal:
                ctx.klass('outcome.exception-on-malformed')
                self.tainted = True
                return
            self.disc('unexpected-exception.%s' % m, '%s raised %s; %s' % (what, obs[1], desc))
            return
        v = obs[1]
        if composing:
            self.judge_composed(m, a, v, cands, fail_ok, main[0], rounds, what, desc)
            return
        matched = [e for e in cands if _match(m, v, e, c, U)]
        if matched:
            ctx.klass('outcome.answer')
            if any(e['beh'] == 'malformed' for e in matched):
                self.tainted = True
                return
            self.learn(m, a, v, matched[0])
            if rounds[-1] is main[0]:
                self.bookkeeping(m, main[0], matched)
            return
        if m == 'estimatefee' and fail_ok and not cands:
            d = _fee_limits(c['net'])[2]
            if d and type(v) is int and v == _clamp_fee(c['net'], d):
                ctx.klass('outcome.fee-default-fallback')
                self.m_fee_fb[_fee_bucket(a['blocks'])] = _ST.now
                return
        if mal:
            self.tainted = True
        if not cands and fail_ok:
            kf = None
            if m == 'getbalance' and type(v) is int and v == 0:
                kf = F_BALANCE
            self.disc('fabricated.%s' % m, '%s returned %s although no provider answered within the error limit '
                      '(a failure - ServiceError or False - is required); %s' % (what, _short(v), desc), kf=kf)
            return
        self.disc('wrong-answer.%s' % m, '%s returned %s; acceptable: answer of provider(s) %s = %s; %s' %
                  (what, _short(v), sorted(A), [_short(e['val']) for e in cands], desc))

    def _round_behs(self, r):
        """behaviour vector for a side round: observed behaviours where called, 'ok' otherwise (only used to see
        whether that round could legitimately hit the error limit)."""
        b = ['ok'] * self.case['k']
        for e in r['entries']:
            b[e['i']] = e['beh']
        return b

    def served(self, m):
        self.nt = True
        self.ctx.klass('cache-served.%s' % m)

    def learn(self, m, a, v, e):
        """a provider answer came back: it is legitimate cache content from now on"""
        U = _ST.U
        now = _ST.now
        if m == 'estimatefee':
            self.m_fee[_fee_bucket(a['blocks'])] = (v, now)
        elif m == 'gettransaction':
            if e['beh'] == 'ok':
                self.m_tx.add(a['tx'])
        elif m == 'gettransactions':
            for t in e['val']:
                self.m_tx.add(U.by_txid[t.txid])
        elif m == 'getblock':
            if a.get('parse') and e['beh'] == 'ok':
                self.m_tx.update(U.block_txs[(a.get('page', 1) - 1) * a.get('limit', 10):a.get('page', 1) * a.get('limit', 10)])
            self.m_blk = True

    def bookkeeping(self, m, rnd, matched):
        srv = self.srv
        try:
            res_keys = set(srv.results.keys())
            err_keys = set(srv.errors.keys())
        except Exception as e:
            self.disc('bookkeeping', 'results/errors unreadable after %s: %r' % (m, e))
            return
        answered = set('vp%d' % e['i'] for e in rnd['entries'] if e['beh'] in ANSWER)
        failed = set('vp%d' % e['i'] for e in rnd['entries'] if e['beh'] not in ANSWER)
        chosen = set('vp%d' % e['i'] for e in matched)
        if not res_keys <= answered or not (res_keys & chosen):
            self.disc('bookkeeping.results', 'after %s: results keys %r; providers that answered %r; returned answer '
                      'belongs to %r' % (m, sorted(res_keys), sorted(answered), sorted(chosen)))
        if not err_keys <= failed:
            self.disc('bookkeeping.errors', 'after %s: errors keys %r but only %r failed' %
                      (m, sorted(err_keys), sorted(failed)))

    # ---- oracle: result without asking a provider for the queried method ------------------------------
    def judge_cached(self, m, a, obs, what, side_fail, side_mal):
        c = self.case
        ctx = self.ctx
        U = _ST.U
        now = _ST.now
        if m == 'isspent' and obs == ('fail', 'returned False') and c['cache'] and a['tx'] in self.m_tx:
            obs = ('ret', False)       # "unspent" read from the cached transaction
        if obs[0] == 'fail':
            if side_fail or side_mal:
                ctx.klass('outcome.fail')
                return
            self.disc('fail-without-asking.%s' % m, '%s failed (%s) without asking any provider' % (what, obs[1]))
            return
        if obs[0] == 'exc':
            if side_mal:
                self.tainted = True
                return
            self.disc('unexpected-exception.%s' % m, '%s raised %s without asking any provider' % (what, obs[1]))
            return
        v = obs[1]
        if not c['cache']:
            self.disc('fabricated.%s' % m, '%s returned %r without asking any provider and without a cache' %
                      (what, _short(v)))
            return
        if m == 'estimatefee':
            b = _fee_bucket(a['blocks'])
            ent = self.m_fee.get(b)
            if ent and now - ent[1] < 600 and type(v) is int and v == ent[0]:
                self.served(m)
                return
            fb = self.m_fee_fb.get(b)
            d = _fee_limits(c['net'])[2]
            kf = None
            if fb is not None and now - fb < 600 and d and v == _clamp_fee(c['net'], d):
                kf = F_FEE_CACHED
            self.disc('cache.estimatefee', '%s returned %r from the cache at t+%d; provider-supplied cache content '
                      'for bucket %s: %r, default fall-back happened at %r' %
                      (what, v, now - T0, b, None if not ent else (ent[0], ent[1] - T0),
                       None if fb is None else fb - T0), kf=kf)
            return
        if m in ('gettransaction', 'getrawtransaction', 'isspent'):
            n = a['tx']
            if n not in self.m_tx:
                self.disc('cache.%s.never-stored' % m, '%s returned %r from the cache but no provider ever supplied '
                          'that transaction in confirmed form' % (what, _short(v)))
                return
            t = U.txs[n]
            if m == 'gettransaction':
                diff = _tx_equals_ref(v, t, U)
                if diff:
                    self.disc('cache.gettransaction.differs', '%s served from cache differs from what was stored: %s'
                              % (what, diff))
                    return
            elif m == 'getrawtransaction':
                if v != t['raw']:
                    self.disc('cache.getrawtransaction.differs', '%s served from cache: %r.. stored %r..' %
                              (what, _short(v), t['raw'][:80]))
                    return
            else:
                truth = U.spent_truth(n, a['n'])
                if v is not truth:
                    self.disc('cache.isspent.differs', '%s served from cache: %r, the stored transaction says %r' %
                              (what, v, truth))
                    return
            self.served(m)
            return
        if m in ADDR_METHODS or m == 'getblock':
            self.judge_composed(m, a, v, [], False, None, [], what, 'no provider asked')
            return
        self.disc('fabricated.%s' % m, '%s returned %r without asking any provider (method has no cache)' %
                  (what, _short(v)))

    # ---- oracle: address-level methods and getblock with the cache on ---------------------------------
    def judge_composed(self, m, a, v, cands, fail_ok, rnd, rounds, what, desc):
        """Cache on, address-level methods and getblock: the result may be composed of cached rows and one
        provider answer. Cached rows must be faithful copies of what answering providers supplied and form a
        gap-free run of the (static) chain history; the fresh part must be exactly one acceptable provider answer."""
        c = self.case
        ctx = self.ctx
        U = _ST.U
        asked = rnd is not None
        if any(e['beh'] == 'malformed' for e in cands):
            self.tainted = True
            return
        if m == 'getbalance':
            asked_addrs = None
            if asked:
                for e in rnd['entries']:
                    if e['args'] is not None:
                        asked_addrs = list(e['args'][0])
                        break
                if asked_addrs is None:
                    ctx.klass('getbalance.asked-list-unobservable')
                    return
            else:
                asked_addrs = []
            cached_part = [x for x in a['addrs'] if U.addr[x] not in asked_addrs]
            missing = [x for x in cached_part if not self.m_bal.get(x)]
            if missing:
                self.disc('cache.getbalance.never-stored', '%s returned %s, answered from the cache for address(es) %r '
                          'whose balance no provider supplied (asked providers for %r); %s' %
                          (what, _short(v), missing, asked_addrs, desc))
                return
            cached_sums = set(sum(combo) for combo in
                              itertools.product(*[sorted(self.m_bal[x]) for x in cached_part]))
            if not asked_addrs:
                fresh = [0]              # nothing (or the empty list) was asked: the cache holds the whole answer
            else:
                fresh = [e['val'] for e in cands if type(e['val']) is int]
            ok_vals = set(s + f for s in cached_sums for f in fresh)
            if type(v) is int and v in ok_vals:
                ctx.klass('outcome.answer')
                if cached_part:
                    self.served(m)
                if len(asked_addrs) == 1 and cands:
                    self.m_bal.setdefault(U.aidx(asked_addrs[0]), set()).update(fresh)
                return
            if asked_addrs and not cands and fail_ok:
                kf = F_BALANCE if (type(v) is int and v in cached_sums) else None
                self.disc('fabricated.getbalance', '%s returned %s although no provider answered for %r within the '
                          'error limit (cached part: %r); %s' % (what, _short(v), asked_addrs, sorted(cached_sums),
                                                                 desc), kf=kf)
                return
            self.disc('wrong-answer.getbalance', '%s returned %s; acceptable %r (cached part %r: %r, providers asked '
                      'for %r); %s' % (what, _short(v), sorted(ok_vals), cached_part,
                                       [sorted(self.m_bal[x]) for x in cached_part], asked_addrs, desc))
            return
        if asked and not cands:
            # a provider round happened but nobody acceptable answered -> only a failure was acceptable
            self.disc('fabricated.%s' % m, '%s returned %s although no provider answered within the error limit; %s' %
                      (what, _short(v), desc))
            return
        if m in ('getutxos', 'gettransactions'):
            if not isinstance(v, list):
                self.disc('wrong-answer.%s' % m, '%s returned %s' % (what, _short(v)))
                return
            # split into cached rows (objects no provider handed out in this call) and the fresh tail
            fresh_ids = set(id(x) for e in cands for x in e['val'])
            n_cached = 0
            while n_cached < len(v) and id(v[n_cached]) not in fresh_ids:
                n_cached += 1
            head, tail = v[:n_cached], v[n_cached:]
            if asked:
                if not any(len(tail) == len(e['val']) and all(x is y for x, y in zip(tail, e['val'])) for e in cands):
                    self.disc('wrong-answer.%s' % m, '%s: the part of the result that is not from the cache (%d rows '
                              'after %d cached) is not the answer of an acceptable provider %r; %s' %
                              (what, len(tail), n_cached, [(e['i'], len(e['val'])) for e in cands], desc))
                    return
                if not tail and any(e['beh'] == 'empty' for e in cands) and U.history(a['addr']):
                    self.lied_empty.add(a['addr'])
            elif tail:
                raise HarnessError('fresh rows without a provider round')
            elif not head and a.get('limit', 20) > 0:
                # nothing asked, nothing cached: an empty list is an invented "no history"
                known = U.addr[a['addr']] in self.m_addr_known
                if not known:
                    self.disc('fabricated.%s' % m, '%s returned [] without asking a provider and without cached rows' %
                              what)
                    return
            after = a.get('after', -1)
            if m == 'getutxos':
                truth = U.utxos(a['addr'])
                if after >= 0:
                    cut = [k for k, u in enumerate(truth) if u[0] == after]
                    truth = truth[cut[-1] + 1:] if cut else truth
                try:
                    got = [(U.by_txid[u['txid']], u['output_n'], u['value']) for u in head]
                except Exception as e:
                    self.disc('cache.getutxos.differs', '%s: unusable cached rows: %r' % (what, e))
                    return
                if got != truth[:len(got)] and a['addr'] in self.lied_empty:
                    ctx.klass('gap-check-off.empty-provider-believed')
                elif got != truth[:len(got)]:
                    kf = None
                    if _is_subsequence(got, truth) and all(g[0] in self.m_tx for g in got) and \
                            all(u[0] not in self.m_tx for u in truth[:truth.index(got[-1])] if u not in got):
                        kf = F_UTXO_GAP
                    elif sorted(got) == sorted(truth[:len(got)]) and \
                            all(U.txs[g[0]]['height'] == U.txs[h[0]]['height'] for g, h in zip(got, truth)):
                        kf = F_ORDER
                    self.disc('cache.getutxos.gap', '%s: cached rows %r + provider answer %r: not a gap-free run of '
                              'the unspent outputs %r of the chain (transactions in cache: %r); %s' %
                              (what, got, [(u['txid'][:8], u['output_n']) for u in tail], truth, sorted(self.m_tx),
                               desc), kf=kf)
                    if kf is None:
                        return
                if any(g[0] not in self.m_tx for g in got):
                    self.disc('cache.getutxos.never-stored', '%s contains cached rows of transactions no provider '
                              'supplied: %r' % (what, got))
                    return
                if cands and cands[0]['args'][1] == '' and len(cands[0]['val']) < cands[0]['args'][2] and \
                        len(set(_short(e['val']) for e in cands)) == 1:
                    # a complete fresh list: the library may keep its sum as the address balance
                    self.m_bal.setdefault(a['addr'], set()).add(sum(u['value'] for u in cands[0]['val']))
            else:
                hist = U.history(a['addr'])
                if after >= 0 and after in hist:
                    hist = hist[hist.index(after) + 1:]
                try:
                    got = [U.by_txid[t.txid] for t in head]
                except Exception as e:
                    self.disc('cache.gettransactions.differs', '%s: unusable cached rows: %r' % (what, e))
                    return
                if got != hist[:len(got)] and a['addr'] in self.lied_empty:
                    ctx.klass('gap-check-off.empty-provider-believed')
                elif got != hist[:len(got)]:
                    kf = None
                    if _is_subsequence(got, hist) and all(g in self.m_tx for g in got) and \
                            all(n not in self.m_tx for n in hist[:hist.index(got[-1])] if n not in got):
                        kf = F_TXS_GAP
                    elif sorted(got) == sorted(hist[:len(got)]) and \
                            all(U.txs[g]['height'] == U.txs[h]['height'] for g, h in zip(got, hist)):
                        # the right transactions, only those of one block in another order
                        kf = F_ORDER
                    self.disc('cache.gettransactions.gap', '%s: cached transactions %r + provider answer (%d rows): '
                              'not a gap-free run of the address history %r (transactions in cache: %r); %s' %
                              (what, got, len(tail), hist, sorted(self.m_tx), desc), kf=kf)
                    if kf is None:
                        return
                for t, n in zip(head, got):
                    if n not in self.m_tx:
                        self.disc('cache.gettransactions.never-stored', '%s contains transaction %d that no provider '
                                  'supplied in confirmed form' % (what, n))
                        return
                    diff = _tx_equals_ref(t, U.txs[n], U)
                    if diff:
                        self.disc('cache.gettransactions.differs', '%s: cached transaction %d differs from what was '
                                  'stored: %s' % (what, n, diff))
                        return
                if not asked and a['addr'] not in self.lied_empty and not self.tainted and \
                        (after < 0 or after in U.history(a['addr'])):
                    # (an after_txid that is not a transaction of this address has no defined answer)
                    # answered from the cache alone: the cache vouches for the history being complete up to its
                    # block count, so fewer rows than the limit means "there is nothing more" - that must be true
                    # of the confirmed chain
                    conf = [n for n in hist if U.txs[n]['height'] is not None]
                    lim = max(a.get('limit', 20), 0)
                    if len(got) < min(lim, len(conf)) and got == conf[:len(got)]:
                        # when the block count round of this very query failed, the library compared the address's
                        # last block with a stale / zero block count: the recorded blockcount finding at work
                        bcs = [e for e in _ST.log if e.get('m') == 'blockcount']
                        bc_failed = getattr(self, '_side_fail', False) or \
                            (bool(bcs) and bcs[-1].get('beh') != 'ok')     # (an 'empty' block count is 0: no answer)
                        # (with several providers per query the 'empty' answer 0 of one of them can be the one the
                        # library adopts although another one answered: the zero block count it then works with is
                        # visible in the object itself)
                        if not bc_failed and any(e.get('beh') != 'ok' for e in bcs) and \
                                not getattr(self.srv, '_blockcount', None):
                            bc_failed = True
                        self.disc('cache.gettransactions.truncated', '%s answered from the cache alone with %r although '
                                  'the confirmed history goes on: %r (limit %d); no provider was asked%s' %
                                  (what, got, conf, lim, ' (the last block count request had failed: the library works '
                                   'with a stale / zero block count)' if bc_failed else ''),
                                  kf=F_BC_STALE if bc_failed else None)
                        return
                if len(v) > max(a.get('limit', 20), 0) and all(len(e['val']) <= e['args'][2] for e in cands):
                    self.disc('wrong-answer.gettransactions', '%s returned %d transactions, limit %d' %
                              (what, len(v), a.get('limit', 20)))
                    return
                for t in tail:
                    if t.block_height and t.txid in U.by_txid:
                        if U.by_txid[t.txid] not in self.m_tx:
                            if not hasattr(self, 'm_tx_addrpos'):
                                self.m_tx_addrpos = set()
                            self.m_tx_addrpos.add(U.by_txid[t.txid])      # first stored by an address-level answer
                        self.m_tx.add(U.by_txid[t.txid])
                if all(n in self.m_tx for n in U.history(a['addr'], confirmed_only=True)):
                    # the whole confirmed history is legitimately cached: the balance derived from it is the chain's
                    self.m_bal.setdefault(a['addr'], set()).add(U.balance(a['addr']))
            if n_cached:
                self.served(m)
            if asked:
                self.m_addr_known.add(U.addr[a['addr']])
            ctx.klass('outcome.answer')
            return
        if m == 'getblock':
            L = _lib()
            if asked:
                matched = [e for e in cands if _match(m, v, e, c, U)]
                if matched:
                    ctx.klass('outcome.answer')
                    self.learn(m, a, v, matched[0])
                    return
                self.disc('wrong-answer.getblock', '%s returned %s; acceptable: answers of %r; %s' %
                          (what, _short(v), [e['i'] for e in cands], desc))
                return
            if not self.m_blk:
                self.disc('cache.getblock.never-stored', '%s returned %s from the cache, no provider supplied it' %
                          (what, _short(v)))
                return
            b = U.block
            try:
                okb = (isinstance(v, L['Block']) and v.block_hash.hex() == b['block_hash'] and
                       v.height == b['height'] and v.merkle_root.hex() == b['merkle_root'] and
                       v.prev_block.hex() == b['prev_block'] and v.time == b['time'] and
                       v.bits_int == b['bits'] and v.version_int == b['version'] and v.tx_count == b['tx_count'] and
                       1000 <= v.nonce_int < 1004)
                txs = list(v.transactions)
            except Exception:
                okb, txs = False, []
            if not okb:
                self.disc('cache.getblock.differs', '%s served from cache differs from the stored block: %s' %
                          (what, _short(v)))
                return
            got = [U.by_txid.get(t.txid if a.get('parse') else t) for t in txs]
            pg, lm = a.get('page', 1), a.get('limit', 10)
            want_txs = U.block_txs[(pg - 1) * lm:pg * lm]           # the requested page
            if got != want_txs:
                self.disc('cache.getblock.tx-differs', '%s: cached block lists transactions %r, the first page of '
                          'the stored block is %r' % (what, got, want_txs),
                          # (the recorded order finding as it shows on a PAGE: transactions of this block, no
                          # duplicates, as many as the page holds - a slice of the block in another order)
                          # ... or, when a transaction of this block was first stored by an address-level answer
                          # (its position column is its place in THAT answer and collides with the block's own
                          # numbering), any duplicate-free selection of this block's transactions
                          kf=F_ORDER if (None not in got and len(set(got)) == len(got) and
                                         set(got) <= set(U.block_txs) and
                                         (len(got) == len(want_txs) or
                                          set(U.block_txs) & getattr(self, 'm_tx_addrpos', set()))) else None)
                return
            if a.get('parse'):
                for t, n in zip(txs, got):
                    diff = _tx_equals_ref(t, U.txs[n], U) if n in self.m_tx else 'never stored'
                    if diff:
                        self.disc('cache.getblock.tx-differs', '%s: cached block transaction %d: %s' % (what, n, diff))
                        return
            self.served(m)
            return

    # ---- driver ---------------------------------------------------------------------------------------
    def run(self):
        case = self.case
        try:
            _write_providers(case)
            if case['cache'] == 'file':
                _wipe_cache()
            _ST.reset(case)
            if not self.open():
                return
            for op in case['ops']:
                if self.tainted:
                    break
                k = op['op']
                if k == 'tick':
                    _ST.now += op['dt']
                    _ST.epoch += 1
                elif k == 'outage':
                    _ST.outage = bool(op['on'])
                elif k == 'reopen':
                    _close(self.srv)
                    if not self.open():
                        break
                elif k == 'q':
                    self.query(op)
                elif k == 'net':
                    if not self.switch_network(op):
                        break
                else:
                    raise HarnessError('unknown op %r' % k)
        finally:
            for s in self.services:
                _close(s)
            self.srv = None
            self.services = []
            _ST.outage = False
            if self.keep.get('conn') is not None:
                try:
                    self.keep['conn'].close()
                except Exception:
                    pass
                self.keep = {}


def _short(v):
    try:
        s = repr(v)
    except Exception:
        s = '<unrepresentable %s>' % type(v).__name__
    return s if len(s) <= 160 else s[:157] + '...'


def run_case(ctx, case):
    r = _Run(ctx, case)
    r.run()
    return r


def replay(ctx, case):
    run_case(ctx, case)


# =================================================================================================
# generators
# =================================================================================================

def weak_orders(k):
    """All weak orderings of k providers as priority vectors with dense ranks 1..r."""
    out = []
    for vec in itertools.product(range(1, k + 1), repeat=k):
        if set(vec) == set(range(1, max(vec) + 1)):
            out.append(list(vec))
    return out


SETTINGS = [(1, 1), (1, 2), (2, 2)]
LIMITS = [1, 2, 4]
DEFAULT_ARGS = {
    'blockcount': {}, 'estimatefee': {'blocks': 3}, 'getbalance': {'addrs': [0, 1]},
    'getutxos': {'addr': 0, 'after': -1, 'limit': 20}, 'gettransaction': {'tx': 1},
    'gettransactions': {'addr': 0, 'after': -1, 'limit': 20}, 'getrawtransaction': {'tx': 2},
    'sendrawtransaction': {'tx': 3}, 'getblock': {'parse': False, 'limit': 10}, 'getrawblock': {},
    'mempool': {'tx': 3}, 'isspent': {'tx': 0, 'n': 0}, 'getinfo': {},
}


def enum_plans(ctx):
    """Deterministic enumeration (cache off): yields (index, case)."""
    quick = ctx.tier == 'quick'
    alpha = ['ok', 'client_error', 'false', 'empty'] if quick else ['ok', 'client_error', 'false', 'empty', 'attr']
    kmax = 3 if quick else 4
    idx = 0
    for m in METHODS:
        for k in range(1, kmax + 1):
            orders = weak_orders(k)
            if k == 4:
                # behaviour vectors are enumerated in full, so priority vectors are needed only up to relabelling
                # of the providers: the non-increasing ones
                orders = [o for o in orders if all(o[j] >= o[j + 1] for j in range(k - 1))]
            for behs in itertools.product(alpha, repeat=k):
                for prio in orders:
                    for (minp, maxp) in SETTINGS:
                        for lim in LIMITS:
                            idx += 1
                            if idx % ctx.nshards != ctx.shard:
                                continue
                            if m == 'blockcount':
                                # constructor = first call, explicit query after the 3 s memory expiry = second call
                                beh = {m: [[b, b2] for b, b2 in zip(behs, behs[1:] + behs[:1])]}
                                ops = [{'op': 'tick', 'dt': 4}, {'op': 'q', 'm': m, 'a': {}}]
                            else:
                                beh = {m: [[b] for b in behs]}
                                ops = [{'op': 'q', 'm': m, 'a': DEFAULT_ARGS[m]}]
                            yield idx, {'kind': 'plan', 'net': NETS[(idx // 9) % 3], 'k': k, 'prio': prio,
                                        'minp': minp, 'maxp': maxp, 'max_errors': lim, 'cache': False, 'rseed': idx,
                                        'salt': (idx // 9) % 5,
                                        'beh': beh, 'ops': ops}


def cache_scenarios(ctx):
    """Deterministic cache scenarios (fill, let the fake clock pass an expiry boundary / take the providers down /
    reopen, read back through the same or a related method), split over the shards."""
    out = []

    def q(m, **a):
        return {'op': 'q', 'm': m, 'a': a}

    def mid(dt, outage, reopen):
        ops = []
        if dt:
            ops.append({'op': 'tick', 'dt': dt})
        if reopen:
            ops.append({'op': 'reopen'})
        if outage:
            ops.append({'op': 'outage', 'on': True})
        return ops
    tf = (False, True)
    # (confirmation targets on both sides of the two group boundaries 1|2 and 5|6, in every order: what was stored for
    # one group is no answer for a target of another group)
    for blocks in (1, 2, 3, 5, 6, 25):
        for dt in (599, 600, 601):
            for second in ((1, 2, 5, 6, 25) if dt == 599 else (blocks, {1: 2, 2: 1, 3: 5, 5: 6, 6: 5, 25: 5}[blocks])):
                for outage in tf:
                    for reopen in tf:
                        out.append((['estimatefee'], [q('estimatefee', blocks=blocks)] + mid(dt, outage, reopen) +
                                    [q('estimatefee', blocks=second)]))
    for dt in (3, 4, 59, 60, 61):
        for outage in tf:
            for reopen in tf:
                for cache in (True, 'file', False):
                    out.append((['blockcount'], mid(dt, outage, reopen) + [q('blockcount')], cache))
    for tx in range(4):
        for follow in (q('gettransaction', tx=tx), q('getrawtransaction', tx=tx), q('isspent', tx=min(tx, 2), n=0),
                       q('isspent', tx=min(tx, 2), n=1)):
            for outage in tf:
                for reopen in tf:
                    out.append((['gettransaction'], [q('gettransaction', tx=tx)] + mid(0, outage, reopen) + [follow]))
    for addr in (0, 1):
        for limit in (20, 2):
            first = q('gettransactions', addr=addr, after=-1, limit=limit)
            for follow in (dict(first), q('getutxos', addr=addr, after=-1, limit=20), q('getbalance', addrs=[addr]),
                           q('getbalance', addrs=[0, 1]), q('gettransactions', addr=addr, after=0, limit=20),
                           q('gettransactions', addr=addr, after=1, limit=20),
                           q('gettransactions', addr=addr, after=1, limit=1),
                           q('gettransaction', tx=1), q('isspent', tx=1, n=1)):
                for outage in tf:
                    for dt in (0, 61):
                        out.append((['gettransactions'], [first] + mid(dt, outage, False) + [follow]))
    for parse in tf:
        for follow in (q('getblock', parse=parse, byhash=True, limit=10), q('getblock', parse=not parse, limit=10),
                       q('gettransaction', tx=0)):
            for outage in tf:
                for reopen in tf:
                    out.append((['getblock'], [q('getblock', parse=parse, limit=10)] + mid(0, outage, reopen) +
                                [follow]))
    # a transaction fetched on its own, then address-level queries (cache holds a later transaction only)
    for tx in (1, 2):
        for addr in (0, 1):
            for reopen in tf:
                out.append((['gettransaction'], [q('gettransaction', tx=tx)] + mid(0, False, reopen) +
                            [q('getutxos', addr=addr, after=-1, limit=20)]))
                out.append((['gettransaction'], [q('gettransaction', tx=tx)] + mid(0, False, reopen) +
                            [q('getbalance', addrs=[addr]), q('gettransactions', addr=addr, after=-1, limit=20)]))
    # a block read page by page (in the universes whose block holds two transactions), then the first page again
    for parse in tf:
        for reopen in tf:
            p1 = q('getblock', parse=parse, byhash=False, limit=1, page=1)
            p2 = q('getblock', parse=parse, byhash=False, limit=1, page=2)
            out.append((['getblock'], [p1, p2] + mid(0, False, reopen) + [dict(p1), dict(p2)]))
            out.append((['getblock'], [q('getblock', parse=parse, byhash=False, limit=10, page=1)] +
                        mid(0, False, reopen) + [dict(p1), dict(p2)]))
    # a narrow first page of a block, then a wider page / the whole block (with and without parsed transactions)
    for parse in tf:
        for parse2 in tf:
            for reopen in tf:
                out.append((['getblock'], [q('getblock', parse=parse, byhash=False, limit=1, page=1)] +
                            mid(0, False, reopen) + [q('getblock', parse=parse2, byhash=False, limit=10, page=1),
                                                     q('getblock', parse=parse2, byhash=False, limit=2, page=1)],
                            True, None, 4, {'salt': 3}))
    # a history read in limited steps, then without limit
    for addr in (0, 1):
        for l1, l2 in ((1, 2), (1, 3), (2, 3), (2, 4), (1, 20), (2, 20)):
            for reopen in tf:
                out.append((['gettransactions'], [q('gettransactions', addr=addr, after=-1, limit=l1),
                                                  q('gettransactions', addr=addr, after=-1, limit=l2)] +
                            mid(0, False, reopen) + [q('gettransactions', addr=addr, after=-1, limit=20),
                                                     q('addrinfo', addr=addr)]))
    # what the cache claims about an address after its history / its UTXOs were read once or twice
    for addr in (0, 1):
        gt = q('gettransactions', addr=addr, after=-1, limit=20)
        gu = q('getutxos', addr=addr, after=-1, limit=20)
        ai = q('addrinfo', addr=addr)
        gb = q('getbalance', addrs=[addr])
        for seq in ([gt, ai], [gu, ai], [gt, gu, ai, gb], [gt, gu, gu, ai, gb], [gu, gu, ai, gb], [gt, gt, ai],
                    [gt, gu, gt, gu, ai, gb], [q('gettransactions', addr=addr, after=0, limit=20), ai],
                    [gt, q('getutxos', addr=addr, after=1, limit=20), ai, gb]):
            for reopen in tf:
                out.append((['gettransactions', 'getutxos'], seq[:-1] + mid(0, False, reopen) + seq[-1:]))
    # balance of a list of addresses when part of the list is answered from the cache (per-address balances stored by
    # earlier history reads) and the rest by a provider, then the per-address balances and cache records again
    for a, b in ((0, 1), (1, 0)):
        gta = q('gettransactions', addr=a, after=-1, limit=20)
        gtb = q('gettransactions', addr=b, after=-1, limit=20)
        gua = q('getutxos', addr=a, after=-1, limit=20)
        tail = [q('getbalance', addrs=[b]), q('getbalance', addrs=[a]), q('addrinfo', addr=b), q('addrinfo', addr=a),
                q('getbalance', addrs=[b, a])]
        for head in ([gta, gtb], [gta], [gtb], [gua, gtb], [gta, gtb, q('getbalance', addrs=[a])],
                     [q('getbalance', addrs=[a]), gta, gtb]):
            for lst in ([a, b], [b, a]):
                for reopen in tf:
                    out.append((['gettransactions', 'getbalance'], head + [q('getbalance', addrs=lst)] +
                                mid(0, False, reopen) + tail))
    # two networks on one cache database: what the first left there (block by height, transactions, block count, fee)
    # is no answer for the second
    for parse in tf:
        for byhash in tf:
            for first in ([q('getblock', parse=parse, byhash=False, limit=10)],
                          [q('getblock', parse=parse, byhash=False, limit=10), q('gettransaction', tx=1),
                           q('estimatefee', blocks=3), q('blockcount')]):
                for same_salt in tf:
                    if same_salt and byhash:
                        # (the simulated chains of one salt share their block hashes, real networks never do: a block
                        # found by HASH in the other network's rows would be an artefact of the simulation)
                        continue
                    out.append((['getblock'], first + [{'op': 'net', 'net': None, 'same_salt': same_salt},
                                                        q('getblock', parse=parse, byhash=byhash, limit=10),
                                                        q('gettransaction', tx=1), q('estimatefee', blocks=3),
                                                        q('blockcount')], 'file' if same_salt else True))
    # histories read in limited steps while the last confirmed transaction sits in the newest block of the chain (in
    # the universes of salt 1 that block holds two transactions of the address: a limited read can end between them)
    for addr in (0, 1):
        for m in ('gettransactions', 'getutxos'):
            for l1, l2 in ((1, 20), (2, 20), (2, 3), (1, 2)):
                for salt in (1, 3, 0):
                    for reopen in tf:
                        out.append(([m], [q(m, addr=addr, after=-1, limit=l1)] + mid(0, False, reopen) +
                                    [q(m, addr=addr, after=-1, limit=l2), q('addrinfo', addr=addr)], True, None, 4,
                                    {'salt': salt, 'at_tip': True}))
    # one transaction of the history comes without the value of one of its inputs (a provider that does not know the
    # previous output): the library does not store such a transaction; what it serves from the cache afterwards is
    # still a gap-free run of the history
    for addr in (0, 1):
        for tx in (1, 2):
            for m in ('gettransactions', 'getutxos'):
                for reopen in tf:
                    out.append(([m], [q(m, addr=addr, after=-1, limit=20)] + mid(0, False, reopen) +
                                [q(m, addr=addr, after=-1, limit=20), q('getbalance', addrs=[addr]),
                                 q('addrinfo', addr=addr)], True, None, 4, {'novalue': tx}))
    # transactions delivered without spent information (unknown for every output), then the spent status of their
    # outputs is asked for: unknown is not an answer
    for tx in range(3):
        for first in (q('gettransaction', tx=tx), q('getblock', parse=True, limit=10),
                      q('gettransactions', addr=0, after=-1, limit=20)):
            for reopen in tf:
                out.append((['gettransaction', 'isspent'], [first] + mid(0, False, reopen) +
                            [q('isspent', tx=tx, n=0), q('isspent', tx=tx, n=1)], True, None, 4,
                            {'spent_unknown': True}))
    # fee estimate while every provider is down (documented default), then again when they are back
    for blocks in (1, 3, 25):
        for dt in (1, 599, 601):
            for first_fail in ('client_error', 'false', 'timeout'):
                out.append((['estimatefee'], [q('estimatefee', blocks=blocks)] + mid(dt, False, dt == 599) +
                            [q('estimatefee', blocks=blocks)], True,
                            {'estimatefee': [[first_fail, 'ok'], [first_fail, 'ok']]}, 1))
    for n, item in enumerate(out):
        if n % ctx.nshards != ctx.shard:
            continue
        methods, ops = item[0], item[1]
        cache = item[2] if len(item) > 2 else (True if n % 7 else 'file')
        # two providers; in every third scenario the preferred one fails the first time it is asked
        beh = {}
        if len(item) > 3 and item[3] is not None:
            beh = item[3]
        elif n % 3 == 0:
            beh = {m: [['client_error', 'ok'], ['ok']] for m in methods}
        # (the second network of a 'net' step: the next one in the list, with the same or another chain)
        ops = [dict(o, net=NETS[(n + 1) % 3], salt=(n % 5) if o.get('same_salt') else (n + 2) % 5)
               if o.get('op') == 'net' else o for o in ops]
        plan = {'kind': 'plan', 'net': NETS[n % 3], 'k': 2, 'prio': [2, 1] if n % 2 else [1, 1], 'minp': 1,
                'maxp': 1 + (n % 5 == 0), 'max_errors': item[4] if len(item) > 4 else 4, 'cache': cache, 'rseed': n,
                'salt': n % 5, 'beh': beh, 'ops': ops}
        if len(item) > 5:
            plan.update(item[5])
        yield n, plan


def plan_strategy(ctx, cached):
    from hypothesis import strategies as st
    beh1 = st.sampled_from(['ok', 'ok', 'ok', 'empty', 'malformed', 'false', 'false', 'client_error', 'client_error',
                            'generic', 'timeout', 'attr', 'nomethod'])
    beh_bc = st.sampled_from(['ok'] * 8 + ['false', 'client_error', 'generic', 'attr', 'empty'])
    beh_ok = st.sampled_from(['ok'] * 7 + ['empty', 'false', 'client_error', 'generic', 'malformed', 'nomethod'])
    if cached:
        q_methods = ['estimatefee', 'estimatefee', 'blockcount', 'gettransaction', 'gettransaction',
                     'getrawtransaction', 'isspent', 'gettransactions', 'gettransactions', 'getutxos', 'getbalance',
                     'getblock', 'mempool']
    else:
        q_methods = METHODS

    def args_for(m):
        if m == 'estimatefee':
            return st.fixed_dictionaries({'blocks': st.sampled_from([1, 2, 3, 5, 6, 25])})
        if m == 'getbalance':
            return st.fixed_dictionaries({'addrs': st.sampled_from([[0], [1], [0, 1], [1, 0]])})
        if m == 'getutxos':
            return st.fixed_dictionaries({'addr': st.integers(0, 1), 'after': st.sampled_from([-1, -1, -1, 0, 1]),
                                          'limit': st.sampled_from([20, 20, 1, 2])})
        if m in ('gettransaction', 'getrawtransaction'):
            return st.fixed_dictionaries({'tx': st.integers(0, 3)})
        if m == 'gettransactions':
            return st.fixed_dictionaries({'addr': st.integers(0, 1), 'after': st.sampled_from([-1, -1, -1, 0, 1]),
                                          'limit': st.sampled_from([20, 20, 20, 1, 2, 3])})
        if m == 'sendrawtransaction':
            return st.fixed_dictionaries({'tx': st.integers(0, 3)})
        if m == 'getblock':
            return st.fixed_dictionaries({'parse': st.booleans(), 'byhash': st.booleans(),
                                          'limit': st.sampled_from([10, 25, 1])})
        if m == 'mempool':
            return st.fixed_dictionaries({'tx': st.integers(-1, 3)})
        if m == 'isspent':
            return st.fixed_dictionaries({'tx': st.integers(0, 2), 'n': st.integers(0, 1)})
        return st.just({})

    q = st.sampled_from(q_methods).flatmap(
        lambda m: st.fixed_dictionaries({'op': st.just('q'), 'm': st.just(m), 'a': args_for(m)}))
    tick = st.fixed_dictionaries({'op': st.just('tick'), 'dt': st.sampled_from([1, 3, 4, 59, 60, 61, 599, 600, 601])})
    outage = st.fixed_dictionaries({'op': st.just('outage'), 'on': st.booleans()})
    reopen = st.just({'op': 'reopen'})

    @st.composite
    def plans(draw):
        k = draw(st.sampled_from([1, 2, 2, 3, 3, 3, 4, 4]))
        prio = draw(st.lists(st.sampled_from([1, 5, 10]), min_size=k, max_size=k))
        minp, maxp = draw(st.sampled_from([(1, 1), (1, 1), (1, 2), (2, 2)] if cached else SETTINGS))
        lim = draw(st.sampled_from(LIMITS))
        flow = draw(st.sampled_from(['pair', 'pair', 'addr', 'tx'])) if cached else None
        if flow in ('addr', 'tx'):
            # address / transaction flows: fill the cache through one method, read it back through the others
            ad = draw(st.integers(0, 1))
            txn = draw(st.integers(0, 2))
            qq = lambda m, a: {'op': 'q', 'm': m, 'a': a}
            if flow == 'addr':
                ops = [qq('gettransactions', {'addr': ad, 'after': -1, 'limit': draw(st.sampled_from([20, 20, 2]))})]
            else:
                ops = [qq('gettransaction', {'tx': txn})]
            follow = st.sampled_from([
                qq('getutxos', {'addr': ad, 'after': -1, 'limit': 20}), qq('getutxos', {'addr': ad, 'after': 1,
                                                                                          'limit': 20}),
                qq('getbalance', {'addrs': [ad]}), qq('getbalance', {'addrs': [0, 1]}),
                qq('gettransactions', {'addr': ad, 'after': -1, 'limit': 20}),
                qq('gettransactions', {'addr': ad, 'after': 0, 'limit': 20}),
                qq('gettransaction', {'tx': txn}), qq('getrawtransaction', {'tx': txn}),
                qq('isspent', {'tx': txn, 'n': 0}), qq('isspent', {'tx': txn, 'n': 1}),
                qq('getblock', {'parse': True, 'byhash': False, 'limit': 10}),
                qq('addrinfo', {'addr': ad}), qq('addrinfo', {'addr': ad})])
            ops += draw(st.lists(st.one_of(follow, follow, follow, tick, outage, reopen), min_size=1, max_size=4))
        elif cached:
            # scenario skeletons: query, let time pass / providers fail / reopen, query the same thing again
            first = draw(q)
            gap = draw(st.lists(st.one_of(tick, tick, outage, reopen, q), min_size=0, max_size=2))
            again = draw(st.sampled_from(['same', 'same', 'related', 'related', 'other']))
            second = dict(first) if again == 'same' else draw(q)
            if again == 'related':
                fm, fa = first['m'], first['a']
                rel = None
                if fm == 'gettransaction':
                    rel = draw(st.sampled_from([('getrawtransaction', {'tx': fa['tx']}),
                                                ('isspent', {'tx': min(fa['tx'], 2), 'n': 0}),
                                                ('isspent', {'tx': min(fa['tx'], 2), 'n': 1})]))
                elif fm == 'gettransactions':
                    rel = draw(st.sampled_from([('gettransaction', {'tx': 1}), ('gettransaction', {'tx': 2}),
                                                ('getrawtransaction', {'tx': 1}), ('isspent', {'tx': 1, 'n': 1}),
                                                ('getutxos', {'addr': fa['addr'], 'after': -1, 'limit': 20}),
                                                ('getbalance', {'addrs': [fa['addr']]}),
                                                ('getbalance', {'addrs': [0, 1]}),
                                                ('gettransactions', {'addr': fa['addr'], 'after': 1, 'limit': 20})]))
                elif fm == 'getutxos':
                    rel = draw(st.sampled_from([('getbalance', {'addrs': [fa['addr']]}),
                                                ('gettransactions', {'addr': fa['addr'], 'after': -1, 'limit': 20}),
                                                ('gettransactions', {'addr': fa['addr'], 'after': 0, 'limit': 20})]))
                elif fm == 'getblock':
                    rel = draw(st.sampled_from([('gettransaction', {'tx': 0}), ('getrawtransaction', {'tx': 0}),
                                                ('getblock', {'parse': not fa['parse'], 'byhash': True, 'limit': 10})]))
                elif fm == 'getbalance':
                    rel = draw(st.sampled_from([('getbalance', {'addrs': [0]}), ('getbalance', {'addrs': [1, 0]}),
                                                ('getutxos', {'addr': 0, 'after': -1, 'limit': 20})]))
                if rel:
                    second = {'op': 'q', 'm': rel[0], 'a': rel[1]}
            tail = draw(st.lists(st.one_of(q, tick, outage, reopen, st.just(dict(first))), min_size=0, max_size=3))
            down = draw(st.booleans())
            ops = [first] + gap + ([{'op': 'outage', 'on': True}] if down else []) + [second] + tail
        else:
            ops = draw(st.lists(st.one_of(q, q, q, tick, outage, reopen), min_size=1, max_size=5))
        used = sorted(set(o['m'] for o in ops if o['op'] == 'q'))
        beh = {}

        def script(first, later, n):
            # cached scenarios: the first call mostly succeeds so that there is something to serve later
            return draw(st.tuples(first, st.lists(later, min_size=0, max_size=n - 1)).map(lambda t: [t[0]] + t[1]))
        for m in used:
            if m == 'blockcount':
                continue
            beh[m] = [script(beh_ok if cached else beh1, beh1, 3) for _ in range(k)]
        bc = beh_bc if 'blockcount' not in used else (beh_ok if cached else beh1)
        beh['blockcount'] = [script(bc, beh_bc if 'blockcount' not in used else beh1, 4) for _ in range(k)]
        return {'kind': 'plan', 'net': draw(st.sampled_from(NETS)), 'k': k, 'prio': prio, 'minp': minp, 'maxp': maxp,
                'max_errors': lim, 'cache': (draw(st.sampled_from([True] * 7 + ['file'])) if cached else False),
                'rseed': draw(st.integers(0, 2 ** 32 - 1)), 'ignp': draw(st.sampled_from([False] * 7 + [True])),
                'salt': draw(st.integers(0, 5)), 'beh': beh, 'ops': ops,
                'at_tip': draw(st.sampled_from([False, False, False, True])) if cached else False,
                'spent_unknown': draw(st.sampled_from([False, False, False, True])) if cached else False}
    return plans()


# =================================================================================================
# probes for the suspected findings
# =================================================================================================

PROBE_CASES = [
    (F_BALANCE,
     {'kind': 'plan', 'net': 'bitcoin', 'k': 2, 'prio': [2, 1], 'minp': 1, 'maxp': 1, 'max_errors': 1, 'cache': False,
      'rseed': 1, 'salt': 0, 'beh': {'getbalance': [['client_error'], ['ok']]},
      'ops': [{'op': 'q', 'm': 'getbalance', 'a': {'addrs': [0]}}]},
     'Service.getbalance returns 0 (a balance no provider supplied) instead of failing when the providers reach '
     'max_errors before any of them answered'),
    (F_FEE_CACHED,
     {'kind': 'plan', 'net': 'testnet', 'k': 2, 'prio': [2, 1], 'minp': 1, 'maxp': 1, 'max_errors': 1, 'cache': True,
      'rseed': 1, 'salt': 0, 'beh': {'estimatefee': [['client_error', 'ok'], ['ok']]},
      'ops': [{'op': 'q', 'm': 'estimatefee', 'a': {'blocks': 3}}, {'op': 'tick', 'dt': 61},
              {'op': 'q', 'm': 'estimatefee', 'a': {'blocks': 3}}]},
     'Service.estimatefee stores the network default fee in the cache after a fall-back (no provider answered) and '
     'serves it for 600 s as if it were a provider estimate, although providers answer again'),
    (F_BC_STALE,
     {'kind': 'plan', 'net': 'bitcoin', 'k': 2, 'prio': [2, 1], 'minp': 1, 'maxp': 1, 'max_errors': 1, 'cache': False,
      'rseed': 1, 'salt': 0, 'beh': {'blockcount': [['ok', 'client_error'], ['ok']]},
      'ops': [{'op': 'tick', 'dt': 100}, {'op': 'q', 'm': 'blockcount', 'a': {}}]},
     'Service.blockcount returns its expired in-memory value instead of failing when the providers reach max_errors '
     'before any of them answered'),
    (F_UTXO_GAP,
     {'kind': 'plan', 'net': 'bitcoin', 'k': 1, 'prio': [1], 'minp': 1, 'maxp': 1, 'max_errors': 4, 'cache': True,
      'rseed': 1, 'salt': 0, 'beh': {},
      'ops': [{'op': 'q', 'm': 'gettransaction', 'a': {'tx': 2}},
              {'op': 'q', 'm': 'getutxos', 'a': {'addr': 0, 'after': -1, 'limit': 20}}]},
     'Service.getutxos trusts the cache to hold every earlier output of the address: after gettransaction(tx2) cached '
     'one later transaction, getutxos returns that cached output plus the provider answer *after* it and silently '
     'omits the earlier unspent output (partial UTXO list)'),
    (F_TXS_GAP,
     {'kind': 'plan', 'net': 'bitcoin', 'k': 1, 'prio': [1], 'minp': 1, 'maxp': 1, 'max_errors': 4, 'cache': True,
      'rseed': 1, 'salt': 0, 'beh': {},
      'ops': [{'op': 'q', 'm': 'gettransaction', 'a': {'tx': 1}},
              {'op': 'q', 'm': 'getbalance', 'a': {'addrs': [0]}},
              {'op': 'q', 'm': 'gettransactions', 'a': {'addr': 0, 'after': -1, 'limit': 20}}]},
     'Service.gettransactions trusts the cache to hold the address history from its start: with one transaction '
     'cached by gettransaction and an address record created by getbalance, it returns the cached transaction plus '
     'the provider answer after it and omits the earlier transactions (partial history)'),
    (F_ORDER,
     {'beh': {'blockcount': [['ok']], 'gettransaction': [['ok']], 'gettransactions': [['ok']]}, 'cache': True, 'ignp': False, 'k': 1, 'kind': 'plan', 'max_errors': 1, 'maxp': 1, 'minp': 1, 'net': 'bitcoin', 'ops': [{'a': {'tx': 2}, 'm': 'gettransaction', 'op': 'q'}, {'a': {'addr': 0, 'after': -1, 'limit': 20}, 'm': 'gettransactions', 'op': 'q'}, {'a': {'addr': 0, 'after': -1, 'limit': 20}, 'm': 'gettransactions', 'op': 'q'}], 'prio': [1], 'rseed': 0, 'salt': 1},
     'two transactions of one address mined in the same block, the later one cached first (gettransaction): the '
     'cached address history lists them in the order of storing, not in the order the provider reported'),
]


def probes(ctx):
    saved = ctx.findings
    ctx.findings = {}
    try:
        for fid, case, what in PROBE_CASES:
            try:
                replay(ctx, case)
                ctx.probe(fid, False, what)
            except Discrepancy:
                ctx.probe(fid, True, what)
    finally:
        ctx.findings = saved


# =================================================================================================
# run
# =================================================================================================

def _execute(ctx, case):
    r = run_case(ctx, case)
    if r.nt:
        ctx.nt(case)
        ctx.klass('nontrivial')
    ctx.klass('k=%d' % case['k'])
    if len(set(case['prio'])) < case['k']:
        ctx.klass('priority-tie')
    ctx.klass('cache.%s' % ('on' if case['cache'] else 'off'))
    if case.get('ignp'):
        ctx.klass('ignore_priority')
    if r.tainted:
        ctx.klass('ended-after-malformed-answer')
    return r


def run(ctx):
    _lib()
    # 1. exhaustive fault-plan enumeration, cache off ----------------------------------------------------
    done = True
    n = 0
    for idx, case in enum_plans(ctx):
        n += 1
        if n % 256 == 0 and ctx.out_of_time():
            done = False
            break
        ctx.klass('enum.method.' + (case['ops'][-1]['m']))
        ok = ctx.guard(lambda c: _execute(ctx, c), case)
        if idx % 4001 == 0:
            ctx.sample(case)
    ctx.exhaustive('fault plans k<=%d x %d behaviours x weak priority orders x max_errors{1,2,4} x provider settings '
                   'x 13 methods (cache off)' % (ctx.scale(3, 4), ctx.scale(4, 5)), done)

    # 1b. deterministic cache scenarios around the expiry boundaries ------------------------------------------
    for n, case in cache_scenarios(ctx):
        ctx.klass('scenario.' + case['ops'][0].get('m', 'blockcount'))
        ctx.guard(lambda c: _execute(ctx, c), case)
    ctx.exhaustive('cache scenarios: fill / expiry boundary, outage, reopen / read back (estimatefee buckets, '
                   'blockcount, transaction, address history, block)')

    # 2. sampled plans with the full behaviour alphabet, operation sequences, cache off -----------------------
    def prop_plain(case):
        for o in case['ops']:
            if o['op'] == 'q':
                ctx.klass('seq.method.' + o['m'])
        _execute(ctx, case)
    ctx.run_given('plans', plan_strategy(ctx, False), prop_plain, ctx.scale(500, 6000))

    # 3. stateful sequences against the SQLite cache under the fake clock -------------------------------------
    def prop_cached(case):
        for o in case['ops']:
            if o['op'] == 'q':
                ctx.klass('cseq.method.' + o['m'])
            else:
                ctx.klass('cseq.op.' + o['op'])
        r = _execute(ctx, case)
        if r.nt and len(ctx.samples) < 6:
            ctx.sample(case)
    ctx.run_given('cached', plan_strategy(ctx, True), prop_cached, ctx.scale(140, 2000))
