"""C15 - BIP38: encrypt -> decrypt with the same passphrase returns the same key and compression flag in the
plain and the EC-multiplied mode, the encrypted strings agree with the BIP38 specification, a different
passphrase fails, and newly generated encrypted keys use fresh entropy on every call.

Oracle: ref/bip38 (written from the BIP text; scrypt from hashlib, AES from pycryptodome as shared primitive),
ref/ec, ref/address (pinned network prefixes). Published BIP38 vectors are replayed as explicit cases.
"""
import unicodedata

from vlib.core import Discrepancy

LEVEL = 'exploration'
TECHNIQUE = ('Hypothesis differential against ref/bip38 (both modes) + round trip + wrong-passphrase variants + '
             'call histories for entropy freshness; BIP38 vectors as explicit cases')
RULE = ('plain mode: secret (boundary-biased) x compressed flag x 11 networks x passphrase (ASCII / non-ASCII in NFC / '
        'not in NFC, incl. NUL and astral characters / text that reads as hexadecimal) x entry point (Key, HDKey legacy, HDKey default witness type): '
        'encrypted string must equal the reference, decrypt with the same passphrase returns secret and flag, the '
        'reference string decrypts too, a passphrase that differs after NFC must raise. EC-multiplied mode: '
        'passphrase x owner salt x optional lot/sequence (incl. sequence 0) x 24-byte seed x compressed x network: '
        'intermediate code, encrypted key and address must equal the reference, bip38_decrypt / Key(enc, password) '
        'return passfactor*factorb and the flag, wrong passphrase must raise. Freshness: histories of 2..5 calls of '
        'bip38_create_new_encrypted_wif without seed (same intermediate code) and 2 calls of '
        'bip38_intermediate_password without owner_salt inside one process must give pairwise distinct results. '
        'Non-trivial = non-ASCII passphrase, uncompressed key, lot/sequence, non-bitcoin network, a wrong-passphrase '
        'check, or a history of >= 2 generation calls (every generated case satisfies at least one); distinct by all '
        'case fields. One scrypt evaluation costs ~0.35 s, so the quick tier runs ~10 cases per shard.')
ASSUMPTIONS = ['ref/bip38.py follows the BIP38 text (self-tested on the published vectors); the passphrase is '
               'NFC-normalised UTF-8 as the BIP prescribes',
               'for networks other than bitcoin the address hash is taken over the P2PKH address of that network '
               '(the natural generalisation; the library does the same in plain mode)',
               'any exception derived from Exception counts as "fails" for a wrong passphrase',
               'freshness can only be refuted by observing equal outputs; distinct outputs do not prove good '
               'randomness', 'confirmation codes are not checked (not part of the statement)']
SHARDS = {'quick': 16, 'thorough': 16}
WALL_CAP = {'quick': 600, 'thorough': 3000}

F_FRESH = 'C15-default-argument-entropy'
F_NFC = 'C15-passphrase-not-nfc-normalised'
F_ECNET = 'C15-ec-decrypt-ignores-network'
F_SEQ0 = 'C15-lot-sequence-zero-refused'
F_HDSEG = 'C15-hdkey-encrypt-nonstandard-addresshash'

VECTORS = [
    # (encrypted, passphrase, secret hex, compressed)  -- BIP38 "Test vectors"
    ('6PRVWUbkzzsbcVac2qwfssoUJAN1Xhrg6bNk8J7Nzm5H7kxEbn2Nh2ZoGg', 'TestingOneTwoThree',
     'cbf4b9f70470856bb4f40f80b87edb90865997ffee6df315ab166d713af433a5', False),
    ('6PYNKZ1EAgYgmQfmNVamxyXVWHzK5s6DGhwP4J5o44cvXdoY7sRzhtpUeo', 'TestingOneTwoThree',
     'cbf4b9f70470856bb4f40f80b87edb90865997ffee6df315ab166d713af433a5', True),
    ('6PRW5o9FLp4gJDDVqJQKJFTpMvdsSGJxMYHtHaQBF3ooa8mwD69bapcDQn', '\u03d2\u0301\u0000\U00010400\U0001f4a9',
     '64eeab5f9be2a01a8365a579511eb3373c87c40da6d2a25f05bda68fe077b66e', False),
    ('6PfQu77ygVyJLZjfvMLyhLMQbYnu5uguoJJ4kMCLqWwPEdfpwANVS76gTX', 'TestingOneTwoThree',
     'a43a940577f4e97f5c4d39eb14ff083a98187c64ea7c99ef7ce460833959a519', False),
    ('6PgNBNNzDkKdhkT6uJntUXwwzQV8Rr2tZcbkDcuC9DZRsS6AtHts4Ypo1j', 'MOLON LABE',
     '44ea95afbf138356a05ea32110dfd627232d0f2991ad221187be356f19fa8190', False),
]


def _lib():
    import bitcoinlib.keys as keys
    return keys


def nfc(s):
    return unicodedata.normalize('NFC', s)


def _prefix(net):
    from ref import address
    return address.prefix_p2pkh(net)


def _pub(secret, compressed):
    from ref import ec
    pt = ec.pubkey(secret)
    return ec.ser_compressed(pt) if compressed else ec.ser_uncompressed(pt)


def _wrong(pw, mode):
    """a passphrase that is different after NFC normalisation"""
    if mode == 'append':
        w = pw + 'x'
    elif mode == 'drop':
        w = pw[:-1] if pw else 'x'
    elif mode == 'case':
        w = pw.swapcase()
    elif mode == 'space':
        w = pw + ' '
        try:
            # for a hex-like passphrase: the text its hex digits decode to
            w = bytes.fromhex(pw).decode('utf8') if pw.strip() else w
        except ValueError:
            pass
    else:
        w = 'wrong passphrase'
    if nfc(w) == nfc(pw):
        w = pw + '\u00e9x'
    return w


def pw_class(pw):
    try:
        if pw.strip() and bytes.fromhex(pw) is not None:
            return 'hexlike'
    except ValueError:
        pass
    if nfc(pw) != pw:
        return 'not_nfc'
    if all(ord(c) < 128 for c in pw):
        return 'ascii' if pw else 'empty'
    return 'non_ascii_nfc'


# ---- plain (non-EC-multiplied) mode --------------------------------------------------------------

def check_nonec(ctx, case):
    """case: kind=nonec, secret(hex), compressed, network, passphrase, wrong_mode, entry Key|HDKey_legacy|HDKey_segwit"""
    from ref import bip38, address
    keys = _lib()
    secret = int(case['secret'], 16)
    comp, net, pw, entry = case['compressed'], case['network'], case['passphrase'], case.get('entry', 'Key')
    shex = '%064x' % secret
    prefix = _prefix(net)

    def make():
        if entry == 'Key':
            return keys.Key(shex, network=net, compressed=comp)
        return keys.HDKey(shex, network=net, compressed=comp,
                          witness_type='legacy' if entry == 'HDKey_legacy' else 'segwit')

    def load(enc, password):
        if entry == 'Key':
            return keys.Key(enc, password=password, network=net)
        return keys.HDKey(enc, password=password, network=net,
                          witness_type='legacy' if entry == 'HDKey_legacy' else 'segwit')
    try:
        k = make()
        # read-only address requests on the key object before it is encrypted (its other public key form, its own
        # form): the encrypted key is salted with the hash of the key's OWN address whatever was looked at before
        for how in case.get('touch') or ():
            try:
                if how == 'other_form':
                    k.address(compressed=not comp, encoding='base58', script_type='p2pkh')
                elif how == 'uncompressed':
                    k.address_uncompressed()
                elif how == 'own':
                    k.address()
                elif how == 'address_obj':
                    k.address_obj
                elif how == 'segwit_form':
                    k.address(encoding='bech32', script_type='p2wpkh')
                elif how == 'p2sh_form':
                    k.address(encoding='base58', script_type='p2sh_p2wpkh')
            except Exception:
                pass
        enc = k.encrypt(pw)
    except Exception as e:
        raise Discrepancy('nonec.encrypt.raises', '%s(%s, network=%r, compressed=%r).encrypt(%r) raised %r' %
                          (entry, shex, net, comp, pw, e), case)
    want = bip38.encrypt_nonec(secret, comp, pw, prefix)
    same_as_spec = enc == want
    if not same_as_spec:
        kf = None
        if entry == 'HDKey_segwit' and comp:
            seg_addr = address.key_address(_pub(secret, True), net, 'p2wpkh')
            if enc == bip38.encrypt_nonec_for_address(secret, True, pw.encode('utf8'), seg_addr):
                kf = F_HDSEG
        elif nfc(pw) != pw and enc == bip38.encrypt_nonec(secret, comp, pw.encode('utf8'), prefix):
            kf = F_NFC
        ctx.disc('nonec.encrypt.differs', '%s(%s, network=%r, compressed=%r).encrypt(%r) = %s, BIP38 gives %s' %
                 (entry, shex, net, comp, pw, enc, want), case, kf=kf)
    # round trip through the library with the same passphrase
    try:
        k2 = load(enc, pw)
    except Exception as e:
        raise Discrepancy('nonec.roundtrip.raises', '%s(%r, password=%r, network=%r) (string made by encrypt) raised '
                          '%r' % (entry, enc, pw, net, e), case)
    if k2.secret != secret or bool(k2.compressed) != comp:
        raise Discrepancy('nonec.roundtrip.differs', 'decrypting %r gives secret %x compressed=%r, encrypted was %x '
                          'compressed=%r' % (enc, k2.secret, k2.compressed, secret, comp), case)
    # the specification's string must decrypt as well (only a separate question when the strings differ)
    if not same_as_spec and entry != 'HDKey_segwit':
        try:
            k3 = load(want, pw)
            if k3.secret != secret or bool(k3.compressed) != comp:
                raise Discrepancy('nonec.spec_decrypt.differs', 'decrypting the BIP38 string %r gives %x' %
                                  (want, k3.secret), case)
        except Discrepancy:
            raise
        except Exception as e:
            ctx.disc('nonec.spec_decrypt.raises', '%s(%r, password=%r, network=%r) (the BIP38 encryption of %s) '
                     'raised %r' % (entry, want, pw, net, shex, e), case, kf=F_NFC if nfc(pw) != pw else None)
    # wrong passphrase
    wrong = _wrong(pw, case.get('wrong_mode', 'append'))
    try:
        k4 = load(enc, wrong)
    except Exception:
        ctx.refusal('nonec.wrong_passphrase')
        return
    raise Discrepancy('nonec.wrong_passphrase.accepted', '%s(%r, password=%r) (encrypted with %r) returned key %x' %
                      (entry, enc, wrong, pw, k4.secret), case)


# ---- EC-multiplied mode --------------------------------------------------------------------------

def check_ec(ctx, case):
    """case: kind=ec, passphrase, salt(hex, 8 bytes), lot, sequence (None = no lot/sequence), seed(hex, 24 bytes),
    compressed, network, wrong_mode, entry func|Key"""
    from ref import bip38, address
    keys = _lib()
    pw, salt, seedb = case['passphrase'], bytes.fromhex(case['salt']), bytes.fromhex(case['seed'])
    lot, seq = case.get('lot'), case.get('sequence')
    comp, net, entry = case['compressed'], case['network'], case.get('entry', 'func')
    prefix = _prefix(net)
    # 1. intermediate code
    try:
        if lot is None:
            ic = keys.bip38_intermediate_password(pw, owner_salt=salt.hex())
        else:
            ic = keys.bip38_intermediate_password(pw, lot=lot, sequence=seq, owner_salt=salt.hex())
    except Exception as e:
        kf = F_SEQ0 if (lot is not None and seq == 0 and isinstance(e, ValueError) and
                        'Both lot & sequence are required' in str(e)) else None
        ctx.disc('ec.intermediate.raises', 'bip38_intermediate_password(%r, lot=%r, sequence=%r, owner_salt=%s) '
                 'raised %r' % (pw, lot, seq, salt.hex(), e), case, kf=kf)
        return
    want_ic = bip38.intermediate_code(pw, salt, lot, seq)
    if ic != want_ic:
        raise Discrepancy('ec.intermediate.differs', 'bip38_intermediate_password(%r, lot=%r, sequence=%r, '
                          'owner_salt=%s) = %s, BIP38 gives %s' % (pw, lot, seq, salt.hex(), ic, want_ic), case)
    # 2. new encrypted key from the code
    try:
        r = keys.bip38_create_new_encrypted_wif(ic, compressed=comp, seed=seedb.hex(), network=net)
        enc, addr = r['encrypted_wif'], r['address']
    except Exception as e:
        raise Discrepancy('ec.create.raises', 'bip38_create_new_encrypted_wif(%s, compressed=%r, seed=%s, network=%r) '
                          'raised %r' % (ic, comp, seedb.hex(), net, e), case)
    want_enc, want_addr = bip38.create_from_intermediate(want_ic, seedb, comp, prefix)
    if enc != want_enc or addr != want_addr:
        raise Discrepancy('ec.create.differs', 'bip38_create_new_encrypted_wif(%s, compressed=%r, seed=%s, '
                          'network=%r) = (%s, %s), BIP38 gives (%s, %s)' %
                          (ic, comp, seedb.hex(), net, enc, addr, want_enc, want_addr), case)
    secret, rcomp = bip38.decrypt(want_enc, pw, prefix)
    if rcomp != comp or address.key_address(_pub(secret, comp), net, 'p2pkh') != want_addr:
        raise RuntimeError('reference BIP38 inconsistent for %r' % (case,))
    if r.get('public_key') != _pub(secret, comp).hex() or bool(r.get('compressed')) != comp:
        raise Discrepancy('ec.create.public_key', 'returned public key %r / compressed %r do not belong to the '
                          'generated key' % (r.get('public_key'), r.get('compressed')), case)

    # 3. decrypt with the same passphrase
    def dec(password):
        if entry == 'Key':
            k = keys.Key(enc, password=password, network=net)
            return k.secret, bool(k.compressed)
        import inspect
        if 'network' in inspect.signature(keys.bip38_decrypt).parameters:
            out = keys.bip38_decrypt(enc, password, network=net)      # (signature after a fix of F_ECNET)
        else:
            out = keys.bip38_decrypt(enc, password)
        return int.from_bytes(out[0], 'big'), bool(out[2])
    try:
        got = dec(pw)
    except Exception as e:
        kf = None
        if 'Address hash has invalid checksum' in str(e):
            if prefix != _prefix('bitcoin'):
                kf = F_ECNET
            elif nfc(pw) != pw:
                kf = F_NFC
        ctx.disc('ec.decrypt.raises', 'decrypting %s (made for network %r from passphrase %r) with the same '
                 'passphrase via %s raised %r' % (enc, net, pw, entry, e), case, kf=kf)
        got = None
    if got is not None and got != (secret, comp):
        raise Discrepancy('ec.decrypt.differs', 'decrypting %s gives secret %x compressed=%r, BIP38 gives %x '
                          'compressed=%r' % (enc, got[0], got[1], secret, comp), case)
    # 4. wrong passphrase
    wrong = _wrong(pw, case.get('wrong_mode', 'append'))
    try:
        got = dec(wrong)
    except Exception:
        ctx.refusal('ec.wrong_passphrase')
        return
    raise Discrepancy('ec.wrong_passphrase.accepted', 'decrypting %s with %r (made with %r) returned key %x' %
                      (enc, wrong, pw, got[0]), case)


# ---- freshness ---------------------------------------------------------------------------------------

def check_fresh(ctx, case):
    """case: kind=fresh, mode create|intermediate, passphrase, salt(hex), n, compressed, network, lot, sequence"""
    from ref import bip38
    keys = _lib()
    pw, n, mode = case['passphrase'], case['n'], case['mode']
    outs = []
    if mode == 'create':
        ic = bip38.intermediate_code(pw, bytes.fromhex(case['salt']), case.get('lot'), case.get('sequence'))
        for i in range(n):
            try:
                r = keys.bip38_create_new_encrypted_wif(ic, compressed=case['compressed'], network=case['network'])
            except Exception as e:
                raise Discrepancy('fresh.create.raises', 'call %d of bip38_create_new_encrypted_wif(%s) raised %r' %
                                  (i + 1, ic, e), case)
            outs.append((r['encrypted_wif'], r['address']))
        what = 'bip38_create_new_encrypted_wif(%s) without seed' % ic
    else:
        for i in range(n):
            try:
                if case.get('lot') is None:
                    ic = keys.bip38_intermediate_password(pw)
                else:
                    ic = keys.bip38_intermediate_password(pw, lot=case['lot'], sequence=case['sequence'])
                salt = bip38.owner_entropy_of_intermediate(ic)[:4 if case.get('lot') is not None else 8]
            except Exception as e:
                raise Discrepancy('fresh.intermediate.raises', 'call %d of bip38_intermediate_password(%r) raised %r' %
                                  (i + 1, pw, e), case)
            outs.append((ic, salt.hex()))
        what = 'bip38_intermediate_password(%r) without owner_salt' % pw
    if len(set(outs)) != len(outs):
        kf = F_FRESH if len(set(outs)) == 1 else None
        ctx.disc('fresh.%s.repeats' % mode, '%d successive calls of %s returned %d distinct results: %r' %
                 (n, what, len(set(outs)), outs[:2]), case, kf=kf)
    if mode == 'intermediate' and len(set(o[1] for o in outs)) != len(outs) and len(set(outs)) == len(outs):
        raise Discrepancy('fresh.intermediate.salt_repeats', 'owner salts repeat: %r' % (outs,), case)


# ---- published vectors -----------------------------------------------------------------------------

def check_vector(ctx, case):
    """case: kind=vector, index, entry Key|func"""
    from ref import bip38
    keys = _lib()
    enc, pw, shex, comp = VECTORS[case['index']]
    secret = int(shex, 16)
    if bip38.decrypt(enc, pw) != (secret, comp):
        raise RuntimeError('reference BIP38 fails the published vector %d' % case['index'])
    try:
        if case.get('entry', 'Key') == 'Key':
            k = keys.Key(enc, password=pw)
            got = (k.secret, bool(k.compressed))
        else:
            out = keys.bip38_decrypt(enc, pw)
            got = (int.from_bytes(out[0], 'big'), bool(out[2]))
    except Exception as e:
        ctx.disc('vector.raises', 'BIP38 vector %s with passphrase %r raised %r' % (enc, pw, e), case,
                 kf=F_NFC if nfc(pw) != pw else None)
        return
    if got != (secret, comp):
        kf = F_NFC if (nfc(pw) != pw and case.get('entry') == 'func' and enc.startswith('6PR')) else None
        ctx.disc('vector.differs', 'BIP38 vector %s decrypts to %x compressed=%r, published %s compressed=%r' %
                 (enc, got[0], got[1], shex, comp), case, kf=kf)


DISPATCH = {'nonec': check_nonec, 'ec': check_ec, 'fresh': check_fresh, 'vector': check_vector}


def replay(ctx, case):
    DISPATCH[case['kind']](ctx, case)


def probes(ctx):
    saved = ctx.findings
    ctx.findings = {}
    try:
        plist = [
            (F_FRESH, {'kind': 'fresh', 'mode': 'create', 'passphrase': 'pw', 'salt': '0001020304050607', 'n': 2,
                       'compressed': True, 'network': 'bitcoin'},
             'two successive bip38_create_new_encrypted_wif(code) calls return the same encrypted key and address '
             '(seed=os.urandom(24) and owner_salt=os.urandom(8) are default arguments, evaluated once at import)'),
            (F_SEQ0, {'kind': 'ec', 'passphrase': 'pw', 'salt': '0001020304050607', 'lot': 100000, 'sequence': 0,
                      'seed': '00' * 24, 'compressed': True, 'network': 'bitcoin'},
             "bip38_intermediate_password(pw, lot=100000, sequence=0) raises 'Both lot & sequence are required' "
             "(sequence 0 is valid; the check uses truthiness)"),
        ]
        if True:
            plist += [
                (F_NFC, {'kind': 'vector', 'index': 2, 'entry': 'Key'},
                 'the BIP38 unicode vector (passphrase U+03D2 U+0301 U+0000 U+10400 U+1F4A9) does not decrypt: '
                 'bip38_encrypt / bip38_decrypt use the raw UTF-8 passphrase instead of its NFC form (the EC branch of '
                 'bip38_decrypt too, while bip38_intermediate_password normalises: a non-NFC passphrase cannot '
                 'decrypt its own EC-multiplied key)'),
                (F_ECNET, {'kind': 'ec', 'passphrase': 'pw', 'salt': '0001020304050607', 'lot': None,
                           'sequence': None, 'seed': '000102030405060708090a0b0c0d0e0f1011121314151617',
                           'compressed': True, 'network': 'litecoin', 'entry': 'Key'},
                 "an EC-multiplied key made by bip38_create_new_encrypted_wif(..., network='litecoin') cannot be "
                 "decrypted (bip38_decrypt checks the address hash against the bitcoin address): 'Address hash has "
                 "invalid checksum' for every network whose P2PKH prefix differs from bitcoin's"),
                (F_HDSEG, {'kind': 'nonec', 'secret': '01', 'compressed': True, 'network': 'bitcoin',
                           'passphrase': 'pw', 'entry': 'HDKey_segwit'},
                 "HDKey(...).encrypt(pw) with the default witness type takes the address hash over the bech32 "
                 "address: the string differs from the BIP38 encryption of the key and Key(enc, password=pw) or "
                 "any other BIP38 implementation rejects it"),
            ]
        for fid, case, what in plist:
            try:
                replay(ctx, case)
                ctx.probe(fid, False, what)
            except Discrepancy:
                ctx.probe(fid, True, what)
    finally:
        ctx.findings = saved


# ---- strategies ------------------------------------------------------------------------------------

def passphrases(k=0):
    from hypothesis import strategies as st
    ascii_pw = st.one_of(st.sampled_from(['TestingOneTwoThree', 'Satoshi', 'a', '', 'correct horse battery staple']),
                         st.text(alphabet=st.characters(min_codepoint=0x20, max_codepoint=0x7e), min_size=1,
                                 max_size=20))
    nfc_pw = st.one_of(
        st.sampled_from(['\u039c\u039f\u039b\u03a9\u039d \u039b\u0391\u0392\u0395', 'M\u00fcnchen', '\u5bc6\u7801',
                         '\U0001f4a9\U00010400', '\u00e9', 'p\u0000w', '\ufb01sh']),
        st.text(alphabet=st.characters(min_codepoint=0xa1, max_codepoint=0x2fff, exclude_categories=('Cs', 'Cn')),
                min_size=1, max_size=8).map(nfc))
    non_nfc = st.one_of(
        st.sampled_from(['e\u0301', '\u212b', '\u03d2\u0301\u0000\U00010400\U0001f4a9', 'cafe\u0301', '\u2126hm',
                         'A\u0323\u030a', '\u1100\u1161']),
        st.tuples(st.text(alphabet='abcXYZ ', max_size=4),
                  st.sampled_from(['e\u0301', 'o\u0308', '\u212b', 'A\u030a', '\u2126', 'n\u0303']),
                  st.text(alphabet='abcXYZ ', max_size=4)).map(lambda t: t[0] + t[1] + t[2]))
    # passphrases that happen to read as hexadecimal (the library's to_bytes() decodes such strings when it is
    # handed one): they are text like any other
    hexlike = st.one_of(
        st.sampled_from(['123456', '0000', 'cafebabe', 'dead beef', 'AB', '70617373776f7264', '00']),
        st.binary(min_size=1, max_size=8).map(bytes.hex),
        st.binary(min_size=1, max_size=6).map(lambda b: b.hex().upper()))
    return st.one_of(*_rot([ascii_pw, nfc_pw, non_nfc, hexlike], k))


WRONG_MODES = ['append', 'drop', 'case', 'space', 'other']


def _rot(seq, k):
    """rotate a choice list by the shard number: with ~4 examples per shard the first example of every shard is
    Hypothesis' minimal one (first element everywhere); rotating makes those minimal examples differ per shard"""
    seq = list(seq)
    k %= len(seq)
    return seq[k:] + seq[:k]


def _nets(k):
    from hypothesis import strategies as st
    from ref.address import NETWORK_NAMES
    return st.sampled_from(_rot(NETWORK_NAMES, k))


def nonec_strategy(k=0):
    from hypothesis import strategies as st
    from vlib import gen

    def build(t):
        secret, comp, net, pw, wm, entry = t[:6]
        if entry == 'HDKey_segwit':
            comp = True
            pw = nfc(pw)
        touch = t[6] if entry != 'HDKey_segwit' else []
        return {'kind': 'nonec', 'secret': '%064x' % secret, 'compressed': comp, 'network': net, 'passphrase': pw,
                'wrong_mode': wm, 'entry': entry, 'touch': touch}
    return st.tuples(gen.secrets(), st.sampled_from(_rot([False, True], k)), _nets(k), passphrases(k),
                     st.sampled_from(_rot(WRONG_MODES, k)),
                     st.sampled_from(_rot(['Key', 'Key', 'HDKey_legacy', 'Key', 'HDKey_segwit'], k)),
                     st.one_of(st.just([]), st.lists(st.sampled_from(['other_form', 'uncompressed', 'own', 'address_obj',
                                                                      'segwit_form', 'p2sh_form']), min_size=1, max_size=2))
                     ).map(build)


def ec_strategy(k=0):
    from hypothesis import strategies as st
    from vlib import gen
    with_ls = st.tuples(st.one_of(st.sampled_from(_rot([100000, 999999, 263183], k)), st.integers(100000, 999999)),
                        st.one_of(st.sampled_from(_rot([1, 4095, 0, 2], k)), st.integers(1, 4095)))
    lotseq = st.one_of(*_rot([st.none(), with_ls, st.none()], k))

    def build(t):
        pw, salt, ls, seed, comp, net, wm, entry = t
        return {'kind': 'ec', 'passphrase': pw, 'salt': salt.hex(), 'lot': ls[0] if ls else None,
                'sequence': ls[1] if ls else None, 'seed': seed.hex(), 'compressed': comp, 'network': net,
                'wrong_mode': wm, 'entry': entry}
    from ref.address import NETWORK_NAMES
    return st.tuples(passphrases(k), st.binary(min_size=8, max_size=8), lotseq, st.binary(min_size=24, max_size=24),
                     st.sampled_from(_rot([True, False], k)),
                     st.sampled_from(_rot(['bitcoin', 'regtest', 'bitcoin'] + NETWORK_NAMES + ['bitcoin'], k)),
                     st.sampled_from(_rot(WRONG_MODES, k)),
                     st.sampled_from(_rot(['func', 'Key'], k))).map(build)


def fresh_strategy(k=0):
    from hypothesis import strategies as st
    from vlib import gen

    def build(t):
        mode, pw, salt, n, comp, net, ls = t
        return {'kind': 'fresh', 'mode': mode, 'passphrase': pw, 'salt': salt.hex(),
                'n': 2 if mode == 'intermediate' else n, 'compressed': comp, 'network': net,
                'lot': ls[0] if ls else None, 'sequence': ls[1] if ls else None}
    return st.tuples(st.sampled_from(_rot(['create', 'intermediate', 'create'], k)), passphrases(k),
                     st.binary(min_size=8, max_size=8), st.integers(2, 5), st.booleans(), _nets(k),
                     st.one_of(st.none(), st.tuples(st.integers(100000, 999999), st.integers(1, 4095)))).map(build)


def run(ctx):
    # published vectors, one per shard (both entry points over the run)
    jobs = [(i, e) for e in ('Key', 'func') for i in range(len(VECTORS))]
    for j, (i, e) in enumerate(jobs):
        if j % ctx.nshards == ctx.shard:
            case = {'kind': 'vector', 'index': i, 'entry': e}
            ctx.nt(('vector', i, e))
            ctx.klass('vector')
            ctx.guard(lambda c: check_vector(ctx, c), case)
            ctx.sample(case)

    def common(case):
        pw = case['passphrase']
        ctx.nt((case['kind'], case))
        ctx.klass('%s.passphrase.%s' % (case['kind'], pw_class(pw)))
        ctx.klass('%s.network.%s' % (case['kind'], case['network']))
        if 'compressed' in case:
            ctx.klass('%s.%s' % (case['kind'], 'compressed' if case['compressed'] else 'uncompressed'))
        if len(ctx.samples) < 6:
            ctx.sample(case)

    def prop_nonec(case):
        common(case)
        ctx.klass('nonec.entry.' + case['entry'])
        check_nonec(ctx, case)
    ctx.run_given('nonec', nonec_strategy(ctx.shard), prop_nonec, ctx.scale(4, 60))

    def prop_ec(case):
        common(case)
        ctx.klass('ec.entry.' + case['entry'])
        ctx.klass('ec.lotseq' if case['lot'] is not None else 'ec.no_lotseq')
        if case['sequence'] == 0:
            ctx.klass('ec.sequence_zero')
        check_ec(ctx, case)
    ctx.run_given('ec', ec_strategy(ctx.shard), prop_ec, ctx.scale(3, 45))

    def prop_fresh(case):
        common(case)
        ctx.klass('fresh.mode.' + case['mode'])
        ctx.klass('fresh.calls', case['n'])
        check_fresh(ctx, case)
    ctx.run_given('fresh', fresh_strategy(ctx.shard), prop_fresh, ctx.scale(2, 12))
