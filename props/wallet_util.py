"""Helpers shared by the wallet-level properties (C07-C10): isolated SQLite files, deterministic RNG,
wallet construction, reference derivation of wallet keys."""
import hashlib
import os

from ref import address as raddr
from ref import bip32 as rbip32
from ref import ec
from ref.hashes import hash160, sha256
from vlib import env

HARD = rbip32.HARD
PURPOSE = {('legacy', False): 44, ('p2sh-segwit', False): 49, ('segwit', False): 84,
           ('legacy', True): 45, ('p2sh-segwit', True): 48, ('segwit', True): 48}
SCRIPT_TYPE_ID = {'p2sh-segwit': 1, 'segwit': 2}     # BIP48 script type level
SEGWIT_NETWORKS = [n for n in raddr.NETWORK_NAMES if not n.startswith('dogecoin')]


def db_uri(tag):
    d = os.path.join(env.data_dir(), 'wdb')
    os.makedirs(d, exist_ok=True)
    path = os.path.join(d, '%s.sqlite' % tag)
    return 'sqlite:///' + path, path


def reseed(value):
    """Make the library's own RNG use (random, numpy.random) a function of the case."""
    import random
    import numpy
    random.seed(value)
    numpy.random.seed(value & 0xffffffff)


def fake_txid(*parts):
    return hashlib.sha256(('|'.join(str(p) for p in parts)).encode()).hexdigest()


def quiet_logging():
    import logging
    logging.getLogger('bitcoinlib').setLevel(logging.CRITICAL)


def coin_type(network):
    return raddr.NETWORKS[network]['bip44_cointype']


def master_from_seed(seed_bytes):
    return rbip32.master(seed_bytes)


def single_path(witness_type, network, account, change, index):
    return [HARD + PURPOSE[(witness_type, False)], HARD + coin_type(network), HARD + account, change, index]


def path_str(path, private=True):
    return ('m' if private else 'M') + ''.join('/%d%s' % (p & ~HARD, "'" if p & HARD else '') for p in path)


def key_address(pub_bytes, witness_type, network):
    kind = {'legacy': 'p2pkh', 'p2sh-segwit': 'p2sh_p2wpkh', 'segwit': 'p2wpkh'}[witness_type]
    return raddr.key_address(pub_bytes, network, kind)


def multisig_address(m, pubs_sorted, witness_type, network):
    script = raddr.script_multisig(m, pubs_sorted)
    kind = {'legacy': 'p2sh', 'p2sh-segwit': 'p2sh_p2wsh', 'segwit': 'p2wsh'}[witness_type]
    return raddr.script_address(script, network, kind), script


def close_wallet(w):
    try:
        w.session.close()
    except Exception:
        pass
    try:
        w.session.bind.dispose() if getattr(w.session, 'bind', None) is not None else None
    except Exception:
        pass


def reset_service_cache():
    """The library keeps one service cache database per data directory, shared by every wallet and Service object of
    the process. Cases must not see what earlier cases (or earlier shrink attempts of the same case: same seeds, same
    addresses) left there, otherwise a case is not a function of its fields. The file is removed before a case;
    connections still open on the old file keep their unlinked copy."""
    import glob
    for path in glob.glob(os.path.join(env.data_dir(), 'database', 'bitcoinlib_cache.sqlite*')):
        try:
            os.remove(path)
        except OSError:
            pass


class deterministic_gc(object):
    """WalletKey.__del__ closes the wallet's shared SQLAlchemy session. When the *cyclic* garbage collector happens to
    run in the middle of a query the library raises InvalidRequestError at a random point - a timing accident, not a
    function of the case. The cyclic collector is therefore switched off while a case runs (reference-counted
    deletions still happen exactly where the code drops its objects) and run once between cases."""

    def __enter__(self):
        import gc
        reset_service_cache()
        self._was = gc.isenabled()
        gc.disable()
        return self

    def __exit__(self, *a):
        import gc
        gc.collect()
        if self._was:
            gc.enable()
        return False
