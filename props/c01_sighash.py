"""C01 - the digest the library signs/checks for input i is the consensus sighash (legacy SIGHASH_ALL /
BIP143), so a library-made signature is valid on the real network.

Oracles: (1) differential on the digest: Transaction.signature_hash(i) vs ref/sighash computed on the
reference parse of the serialised transaction with script code and amount taken from the plan (never
from the library's locking_script/redeemscript); (2) end to end: every signature embedded in raw() after
sign() must satisfy the reference interpreter against the prevout script the plan says is being spent;
(3) the same for transactions the library *parses* from reference-built signed bytes.
"""
from vlib.core import Discrepancy

LEVEL = 'exploration'
TECHNIQUE = ('Hypothesis transaction plans realised through the API; differential digest vs ref/sighash and '
             'reference-interpreter verification of embedded signatures')
RULE = ('Sub-check "history": sign, compute every digest, apply 1..4 documented mutations (set_locktime_*, sequence / '
        'locktime assignment, output value, add_output, interleaved digest/verify calls), sign_and_update(), then '
        'compare digests and interpreter verdict on the final serialisation. Plans: 1..4 inputs (thorough ..8) of kinds p2pkh (compressed/uncompressed), p2pk, p2sh m-of-n multisig, '
        'p2wpkh, p2sh-p2wpkh, p2wsh multisig, p2sh-p2wsh multisig, mixed freely; outpoint index / sequence / '
        'version / locktime / value from boundary sets and random; 1..4 outputs (plus 252/253/300-output shapes) of '
        'p2pkh/p2sh/p2wpkh/p2wsh/p2tr/nulldata/raw scripts given by address or script; all 11 networks. '
        'Sub-check "parse": the same plans serialised and signed by the reference, parsed by the library. '
        'Non-trivial = >=2 inputs, or a segwit or multisig input, or a boundary value (value >= 2^32, >= 252 '
        'outputs, non-final sequence, odd version, uncompressed key); distinct by hash of the plan. [history: verify() is also asked BEFORE anything is signed again and compared with the consensus interpreter on the current serialisation] [api: digests for hash types 02/03/81/82/83 of every input against the reference] [merge: two signed plans merged (merge_transaction / +), every input of the result against reference digest and interpreter]')
ASSUMPTIONS = ['ref/sighash.py + ref/interp.py implement consensus (BIP143 example signature, round-trip spends in '
               'ref/selftest.py)', 'only SIGHASH_ALL: Transaction.sign refuses every other hash type',
               'bare multisig inputs cannot be expressed through Input and are not generated']
SHARDS = {'quick': 16, 'thorough': 16}
WALL_CAP = {'quick': 600, 'thorough': 3000}
KF_LEGACY_TYPES = 'C01-legacy-sighash-other-hash-types'


def _ref_digest(ref_tx, k, inp, hashtype=1):
    from props import txplan
    from ref import sighash
    po = txplan.prevout(inp)
    if po['segwit']:
        return sighash.bip143_sighash(ref_tx, k, po['script_code'], inp['value'], hashtype)
    return sighash.legacy_sighash(ref_tx, k, po['script_code'], hashtype)


def check_api(ctx, case):
    from props import txplan
    from ref import wire, interp
    plan = case['plan']
    try:
        # (digests are asked of inputs whose keys are known; inputs known by their address only come into play when the
        # transaction is signed, below)
        t = txplan.realise(plan, allow_keyless=False)
    except Exception as e:
        ctx.refusal('realise.%s' % type(e).__name__)
        ctx.note('last_realise_refusal', repr(e)[:200])
        return
    try:
        raw0 = t.raw()
        ref_tx = wire.Tx.parse(raw0)
    except Exception as e:
        raise Discrepancy('api.raw.unparseable', 'raw() of unsigned API transaction not parseable: %r' % e, case)
    for k, inp in enumerate(plan['inputs']):
        want = _ref_digest(ref_tx, k, inp)
        try:
            got = t.signature_hash(k, 1, t.inputs[k].witness_type)
        except Exception as e:
            raise Discrepancy('digest.raises:' + inp['kind'], 'signature_hash(%d) raised %r' % (k, e), case)
        if got != want:
            ctx.disc('digest.mismatch:' + inp['kind'],
                     'input %d (%s): library digest %s, consensus digest %s' % (k, inp['kind'], got.hex(), want.hex()),
                     case)
            return
    # the other hash types: the library signs with SIGHASH_ALL only, but it CHECKS a signature against the digest its
    # hash type byte selects, and signature_hash(i, hash_type) is what an external signer is given
    from ref import sighash as rsig
    for k, inp in enumerate(plan['inputs']):
        for ht in case.get('hash_types') or ():
            want = _ref_digest(ref_tx, k, inp, ht)
            try:
                got = t.signature_hash(k, ht, t.inputs[k].witness_type)
            except Exception as e:
                ctx.refusal('digest.hash_type_%#x.%s' % (ht, type(e).__name__))
                continue
            ctx.klass('digest.hash_type.%s' % ('segwit' if txplan.prevout(inp)['segwit'] else 'legacy'))
            if got != want:
                po = txplan.prevout(inp)
                kf = None
                if not po['segwit'] and got == rsig.legacy_sighash(ref_tx, k, po['script_code'], 1, _append=ht):
                    kf = KF_LEGACY_TYPES
                ctx.disc('digest.hash_type_mismatch:%s' % ('segwit' if po['segwit'] else 'legacy'),
                         'input %d (%s), hash type %#x: library digest %s, consensus digest %s' %
                         (k, inp['kind'], ht, got.hex(), want.hex()), case, kf=kf)
                return
    # sign through the library, verify with the reference interpreter
    try:
        if any(i.get('keyless') for i in plan['inputs']):
            t = txplan.realise(plan)
            ctx.klass('api.keyless_input')
        txplan.sign_history(t, plan)
        raw1 = t.raw()
    except Exception as e:
        raise Discrepancy('sign.raises', 'sign()/raw() raised %r' % e, case)
    try:
        signed = wire.Tx.parse(raw1)
    except Exception as e:
        raise Discrepancy('signed.unparseable', 'signed raw() not parseable by the reference: %r' % e, case)
    for k, inp in enumerate(plan['inputs']):
        po = txplan.prevout(inp)
        ok, why = interp.verify_input(signed, k, po['spk'], inp['value'])
        if not ok:
            ctx.disc('e2e.invalid:' + inp['kind'],
                     'input %d (%s) signed by the library is rejected by the consensus interpreter: %s; raw=%s' %
                     (k, inp['kind'], why, raw1.hex()[:600]), case)
            return


def _ref_signed_tx(plan, hash_types=None, digest_of=None):
    """Serialise and sign the plan with the reference only. hash_types: {input index: [hash type per signature, in key
    order]} (default SIGHASH_ALL); digest_of: {input index: other input index} - the signatures of that input are made
    over the digest of the OTHER input (a transaction nobody may accept)."""
    from props import txplan
    from ref import wire, ec
    vin = []
    for inp in plan['inputs']:
        vin.append(wire.TxIn(bytes.fromhex(inp['prev'])[::-1], inp['n'], b'', inp['seq']))
    vout = [wire.TxOut(o['value'], txplan.output_script(o)) for o in plan['outputs']]
    tx = wire.Tx(plan['version'], vin, vout, plan['locktime'])
    for k, inp in enumerate(plan['inputs']):
        po = txplan.prevout(inp)
        pubs = txplan.input_pubs(inp)
        by_pub = {txplan.pub_bytes(d, inp['compressed']): d for d in inp['secrets']}
        signer_pubs = [txplan.pub_bytes(inp['secrets'][s], inp['compressed']) for s in inp['signers']]
        sigs = []
        hts = (hash_types or {}).get(k) or (hash_types or {}).get(str(k)) or []
        src = (digest_of or {}).get(k, (digest_of or {}).get(str(k), k))
        for p in pubs:   # signatures in key order, as CHECKMULTISIG requires
            if p in signer_pubs:
                ht = hts[len(sigs)] if len(sigs) < len(hts) else 1
                dg = _ref_digest(tx, src, plan['inputs'][src], ht)
                r, s = ec.sign(dg, by_pub[p])
                sigs.append(ec.der_encode(r, s) + bytes([ht]))
        kind = inp['kind']
        if kind == 'p2pkh':
            tx.vin[k].script_sig = wire.script_build([sigs[0], pubs[0]])
        elif kind == 'p2pk':
            tx.vin[k].script_sig = wire.script_build([sigs[0]])
        elif kind == 'p2sh_ms':
            tx.vin[k].script_sig = wire.script_build([0] + sigs + [po['redeem']])
        elif kind == 'p2wpkh':
            tx.vin[k].witness = [sigs[0], pubs[0]]
        elif kind == 'p2sh_p2wpkh':
            tx.vin[k].script_sig = wire.script_build([po['redeem']])
            tx.vin[k].witness = [sigs[0], pubs[0]]
        elif kind == 'p2wsh_ms':
            tx.vin[k].witness = [b''] + sigs + [po['witness_script']]
        else:
            tx.vin[k].script_sig = wire.script_build([po['redeem']])
            tx.vin[k].witness = [b''] + sigs + [po['witness_script']]
    return tx


def check_parse(ctx, case):
    """The library parses reference-built, reference-signed bytes: its digest for every input must be the
    consensus digest (so its verifier judges real-network transactions by the right message)."""
    from props import txplan
    from ref import interp
    from bitcoinlib.transactions import Transaction
    plan = case['plan']
    tx = _ref_signed_tx(plan)
    for k, inp in enumerate(plan['inputs']):
        ok, why = interp.verify_input(tx, k, txplan.prevout(inp)['spk'], inp['value'])
        if not ok:
            raise AssertionError('harness: reference-signed input does not verify: %s' % why)
    raw = tx.serialize()
    try:
        t = Transaction.parse(raw, network=plan['network'])
    except Exception as e:
        ctx.disc('parse.raises', 'Transaction.parse raised %r on a valid standard transaction %s' %
                 (e, raw.hex()[:400]), case)
        return
    for k, inp in enumerate(plan['inputs']):
        li = t.inputs[k]
        # the wire format does not carry amounts (and for p2pk not the key): supply them as a caller must
        li.value = inp['value']
        if inp['kind'] == 'p2pk':
            ctx.klass('parse.p2pk_skipped')
            continue
        want = _ref_digest(tx, k, inp)
        try:
            got = t.signature_hash(k, 1, li.witness_type)
        except Exception as e:
            ctx.disc('parse.digest.raises:' + inp['kind'], 'signature_hash(%d) after parse raised %r' % (k, e), case)
            return
        if got != want:
            ctx.disc('parse.digest.mismatch:' + inp['kind'],
                     'parsed input %d (%s): library digest %s, consensus digest %s; raw=%s' %
                     (k, inp['kind'], got.hex(), want.hex(), raw.hex()[:400]), case)
            return


def check_history(ctx, case):
    """The digest is a function of the transaction's *current* state, whatever the history of digest
    computations and documented mutations before it (caches must not survive a mutation): sign, warm every
    digest, mutate through the API, re-sign, then compare again on the final serialisation."""
    from props import txplan
    from ref import wire, interp
    plan = case['plan']
    try:
        t = txplan.realise(plan, with_private=True, allow_keyless=False)
        t.sign()
        for k in range(len(plan['inputs'])):
            t.signature_hash(k, 1, t.inputs[k].witness_type)
        t.verify()
    except Exception as e:
        ctx.refusal('history.setup.%s' % type(e).__name__)
        return
    applied = 0
    for op in case['ops']:
        name = op['op']
        k = op.get('i', 0) % len(t.inputs)
        try:
            if name == 'set_locktime_blocks':
                t.set_locktime_blocks(op['v'])
            elif name == 'set_locktime_time':
                t.set_locktime_time(op['v'])
            elif name == 'set_locktime_relative_blocks':
                t.set_locktime_relative_blocks(op['v'], input_index_n=k)
            elif name == 'set_locktime_relative_time':
                t.set_locktime_relative_time(op['v'], input_index_n=k)
            elif name == 'assign_sequence':
                t.inputs[k].sequence = op['v']
            elif name == 'assign_locktime':
                t.locktime = op['v']
            elif name == 'output_value':
                o = t.outputs[op.get('j', 0) % len(t.outputs)]
                o.value = max(0, o.value + op['v'])
            elif name == 'add_output':
                t.add_output(op['v'] % 100000, lock_script=b'\x76\xa9\x14' + bytes([op['v'] % 251]) * 20 + b'\x88\xac')
            elif name == 'digest':
                t.signature_hash(k, 1, t.inputs[k].witness_type)
            elif name == 'verify':
                t.verify()
            applied += 1
        except Exception as e:
            ctx.refusal('history.%s.%s' % (name, type(e).__name__))
    # the digest the library *checks*: before anything is signed again, verify() must judge the signatures the
    # transaction carries now against the digest of the transaction as it serialises now (a signature object that was
    # created or verified for an earlier state must not be checked against the digest of that earlier state)
    try:
        pre = wire.Tx.parse(t.raw())
        got_v = t.verify()
    except Exception as e:
        ctx.refusal('history.verify_before_resign.%s' % type(e).__name__)
        pre = None
    if pre is not None and len(pre.vin) == len(plan['inputs']):
        verdicts = [interp.verify_input(pre, k, txplan.prevout(inp)['spk'], inp['value'])
                    for k, inp in enumerate(plan['inputs'])]
        if not any(why in ('unsatisfied locktime', 'unsatisfied sequence') for ok, why in verdicts):
            want_v = all(ok for ok, why in verdicts)
            ctx.klass('history.verify_before_resign.' + ('still_valid' if want_v else 'invalidated'))
            if bool(got_v) != want_v:
                bad = [k for k, (ok, why) in enumerate(verdicts) if not ok]
                ctx.disc('history.verify_%s_on_%s:%s' % (bool(got_v), 'valid' if want_v else 'invalid',
                                                        plan['inputs'][bad[0] if bad else 0]['kind']),
                         'after %r without signing again: Transaction.verify() -> %r, but under the consensus digest of '
                         'the transaction as it serialises now the inputs %r are invalid (%s)' %
                         ([o['op'] for o in case['ops']], got_v, bad, [w for ok, w in verdicts if not ok][:2]), case)
                return
    try:
        t.sign_and_update()
        raw = t.raw()
        final = wire.Tx.parse(raw)
    except Exception as e:
        ctx.refusal('history.resign.%s' % type(e).__name__)
        return
    if len(final.vin) != len(plan['inputs']):
        raise Discrepancy('history.input_count', 'inputs changed', case)
    for k, inp in enumerate(plan['inputs']):
        cur = dict(inp, seq=final.vin[k].sequence)
        want = _ref_digest(final, k, cur)
        try:
            got = t.signature_hash(k, 1, t.inputs[k].witness_type)
        except Exception as e:
            raise Discrepancy('history.digest.raises:' + inp['kind'], 'signature_hash(%d) raised %r' % (k, e), case)
        if got != want:
            ctx.disc('history.digest.mismatch:' + inp['kind'],
                     'after %r: input %d (%s) library digest %s, consensus digest of the serialised transaction %s' %
                     ([o['op'] for o in case['ops']], k, inp['kind'], got.hex(), want.hex()), case)
            return
        ok, why = interp.verify_input(final, k, txplan.prevout(inp)['spk'], inp['value'])
        if not ok and not (why in ('unsatisfied locktime', 'unsatisfied sequence')):
            ctx.disc('history.e2e.invalid:' + inp['kind'],
                     'after %r and sign_and_update(): input %d (%s) is rejected by the consensus interpreter: %s' %
                     ([o['op'] for o in case['ops']], k, inp['kind'], why), case)
            return


def check_merge(ctx, case):
    """Two signed transactions merged into one (Transaction.merge_transaction / t1 + t2: inputs and outputs joined,
    everything signed again): every input of the result, wherever it ended up, is signed over - and checked against -
    the consensus digest of the merged transaction. case: kind=merge, plan, plan2, how 'merge'|'add'"""
    from props import txplan
    from ref import wire, interp
    plan, plan2 = case['plan'], dict(case['plan2'], network=case['plan']['network'])
    try:
        ta = txplan.realise(plan, with_private=True, allow_keyless=False)
        tb = txplan.realise(plan2, with_private=True, allow_keyless=False)
        ta.sign()
        tb.sign()
    except Exception as e:
        ctx.refusal('merge.setup.%s' % type(e).__name__)
        return
    try:
        if case.get('how') == 'add':
            t = ta + tb
        else:
            ta.merge_transaction(tb)
            t = ta
        final = wire.Tx.parse(t.raw())
    except Exception as e:
        ctx.refusal('merge.%s' % type(e).__name__)
        return
    by_outpoint = {}
    for inp in plan['inputs'] + plan2['inputs']:
        by_outpoint[(inp['prev'], inp['n'])] = inp
    if len(by_outpoint) != len(plan['inputs']) + len(plan2['inputs']):
        ctx.exclude('merge: the two parts spend the same outpoint')
        return
    if len(final.vin) != len(plan['inputs']) + len(plan2['inputs']):
        raise Discrepancy('merge.input_count', 'merged transaction has %d inputs, the two parts %d + %d' %
                          (len(final.vin), len(plan['inputs']), len(plan2['inputs'])), case)
    all_ok = True
    for k, vin in enumerate(final.vin):
        inp = by_outpoint.get((vin.prev_hash[::-1].hex(), vin.prev_n))
        if inp is None:
            raise Discrepancy('merge.unknown_input', 'input %d of the merged transaction spends an outpoint of neither '
                              'part' % k, case)
        cur = dict(inp, seq=vin.sequence)
        want = _ref_digest(final, k, cur)
        try:
            got = t.signature_hash(k, 1, t.inputs[k].witness_type)
        except Exception as e:
            raise Discrepancy('merge.digest.raises:' + inp['kind'], 'signature_hash(%d) raised %r' % (k, e), case)
        if got != want:
            ctx.disc('merge.digest.mismatch:' + inp['kind'], 'merged transaction, input %d (%s): library digest %s, '
                     'consensus digest %s' % (k, inp['kind'], got.hex(), want.hex()), case)
            return
        ok, why = interp.verify_input(final, k, txplan.prevout(inp)['spk'], inp['value'])
        if not ok and why not in ('unsatisfied locktime', 'unsatisfied sequence'):
            all_ok = False
            ctx.disc('merge.e2e.invalid:' + inp['kind'], 'merged and re-signed transaction: input %d (%s) is rejected by '
                     'the consensus interpreter: %s' % (k, inp['kind'], why), case)
            return
    try:
        v = bool(t.verify())
    except Exception as e:
        raise Discrepancy('merge.verify.raises', 'verify() of the merged transaction raised %r' % e, case)
    if all_ok and not v:
        ctx.disc('merge.verify_false', 'every input of the merged transaction is valid under the consensus digest, '
                 'verify() says False', case)
    ctx.count()


DISPATCH = {'api': check_api, 'parse': check_parse, 'history': check_history, 'merge': check_merge}


def probes(ctx):
    saved = ctx.findings
    ctx.findings = {}
    case = {'kind': 'api', 'hash_types': [2],
            'plan': {'inputs': [{'alt_type': False, 'compressed': True, 'give_spk': False, 'kind': 'p2pkh', 'm': 1,
                                 'n': 0, 'prev': '11' * 32, 'secrets': [0x1234567], 'seq': 0xffffffff, 'signers': [0],
                                 'sort': False, 'value': 100000}],
                     'locktime': 0, 'network': 'bitcoin', 'version': 1,
                     'outputs': [{'by': 'address', 'kind': 'p2pkh', 'payload': '22' * 20, 'value': 90000}]}}
    try:
        try:
            check_api(ctx, case)
            ctx.probe(KF_LEGACY_TYPES, False, '')
        except Discrepancy as d:
            ctx.probe(KF_LEGACY_TYPES, True, 'signature_hash(0, SIGHASH_NONE) of a legacy P2PKH input is the hash of the '
                      'SIGHASH_ALL preimage with hash type 02 appended, not the consensus digest for SIGHASH_NONE (%s)' %
                      d.bucket)
    finally:
        ctx.findings = saved


def replay(ctx, case):
    DISPATCH[case['kind']](ctx, case)


def _account(ctx, case):
    from props import txplan
    plan = case['plan']
    flags = txplan.boundary_flags(plan)
    for f in flags:
        ctx.klass(case['kind'] + '.' + f)
    for i in plan['inputs']:
        ctx.klass('%s.kind.%s' % (case['kind'], i['kind']))
    ctx.klass('net.' + plan['network'])
    if flags & {'multi_input', 'segwit', 'multisig', 'value>=2^32', 'out>=2^32', 'many_outputs', 'nonfinal_seq',
                'odd_version', 'uncompressed'}:
        ctx.nt((case['kind'], plan))
    if len(ctx.samples) < 3:
        ctx.sample(case)


def run(ctx):
    from hypothesis import strategies as st
    from props import txplan

    def prop(case):
        _account(ctx, case)
        DISPATCH[case['kind']](ctx, case)

    mi = ctx.scale(4, 8)
    api = st.fixed_dictionaries({'kind': st.just('api'), 'plan': txplan.plans(max_inputs=mi),
                                 'hash_types': st.lists(st.sampled_from([2, 3, 0x81, 0x82, 0x83]), max_size=2,
                                                        unique=True)})
    ctx.run_given('api', api, prop, ctx.scale(60, 1500))
    par = st.fixed_dictionaries({'kind': st.just('parse'), 'plan': txplan.plans(max_inputs=mi)})
    ctx.run_given('parse', par, prop, ctx.scale(40, 1000))

    u32 = st.one_of(st.sampled_from([0, 1, 144, 65535, 0xfffffffd, 0xfffffffe, 0xffffffff]), st.integers(0, 0xffffffff))
    hop = st.one_of(
        st.fixed_dictionaries({'op': st.just('set_locktime_blocks'), 'v': st.sampled_from([1, 100, 800000, 499999999])}),
        st.fixed_dictionaries({'op': st.just('set_locktime_time'), 'v': st.sampled_from([500000001, 1700000000])}),
        st.fixed_dictionaries({'op': st.just('set_locktime_relative_blocks'), 'v': st.sampled_from([1, 144, 65535]),
                               'i': st.integers(0, 3)}),
        st.fixed_dictionaries({'op': st.just('set_locktime_relative_time'), 'v': st.sampled_from([512, 5120, 33553920]),
                               'i': st.integers(0, 3)}),
        st.fixed_dictionaries({'op': st.just('assign_sequence'), 'v': u32, 'i': st.integers(0, 3)}),
        st.fixed_dictionaries({'op': st.just('assign_locktime'), 'v': u32}),
        st.fixed_dictionaries({'op': st.just('output_value'), 'v': st.sampled_from([1, -1, 1000]), 'j': st.integers(0, 3)}),
        st.fixed_dictionaries({'op': st.just('add_output'), 'v': st.integers(1, 10 ** 6)}),
        st.fixed_dictionaries({'op': st.just('digest'), 'i': st.integers(0, 3)}),
        st.just({'op': 'verify'}),
    )
    hist = st.fixed_dictionaries({'kind': st.just('history'), 'plan': txplan.plans(max_inputs=3, max_outputs=3),
                                  'ops': st.lists(hop, min_size=1, max_size=4)})

    def prop_hist(case):
        ctx.klass('history.cases')
        for o in case['ops']:
            ctx.klass('history.op.' + o['op'])
        ctx.nt(('history', case['plan'], case['ops']))
        if ctx.classes.get('history.sampled', 0) < 1:
            ctx.klass('history.sampled')
            ctx.sample(case)
        check_history(ctx, case)
    ctx.run_given('history', hist, prop_hist, ctx.scale(60, 1500))

    merge = st.fixed_dictionaries({'kind': st.just('merge'), 'plan': txplan.plans(max_inputs=2, max_outputs=2),
                                   'plan2': txplan.plans(max_inputs=2, max_outputs=2),
                                   'how': st.sampled_from(['merge', 'add'])})

    def prop_merge(case):
        ctx.klass('merge.cases')
        ctx.nt(('merge', case['plan'], case['plan2'], case['how']))
        check_merge(ctx, case)
    ctx.run_given('merge', merge, prop_merge, ctx.scale(12, 600))

    # many-output shapes (CompactSize boundary in hashOutputs / legacy preimage): one per shard
    if ctx.shard < 6:
        n_out = [252, 253, 300, 252, 253, 254][ctx.shard]
        kind = ['p2pkh', 'p2wpkh', 'p2sh_ms', 'p2wsh_ms', 'p2sh_p2wpkh', 'p2sh_p2wsh_ms'][ctx.shard]
        network = 'bitcoin'
        inp = {'kind': kind, 'secrets': [7 + ctx.shard, 11, 13][:3 if 'ms' in kind else 1], 'compressed': True,
               'm': 2 if 'ms' in kind else 1, 'sort': False, 'prev': '11' * 32, 'n': ctx.shard, 'seq': 0xfffffffd,
               'value': 5000000000, 'alt_type': False, 'signers': [0, 2] if 'ms' in kind else [0]}
        plan = {'network': network, 'version': 2, 'locktime': 0, 'inputs': [inp],
                'outputs': [{'kind': 'p2pkh', 'payload': '%040x' % j, 'value': 1000 + j, 'by': 'script'}
                            for j in range(n_out)]}
        case = {'kind': 'api', 'plan': plan}
        _account(ctx, case)
        ctx.guard(lambda c: check_api(ctx, c), case)
