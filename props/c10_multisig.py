"""C10 - all cosigner wallets of an m-of-n multisig derive the same script/address; a spend becomes valid
exactly when >= m distinct cosigners have signed, through any chain of export/import.

Generated: cosigner wallet sets (permuted key lists, one private key each, separate databases) and a
signing ceremony (sequence of hand-offs: next signer, medium object/dict/raw, repeated signers allowed).
Oracle: reference sorted-key m-of-n script from ref/bip32 children; reference interpreter against the
*funded* script decides validity; verified/pushed must agree with |distinct signers| >= m.
"""
from vlib.core import Discrepancy

LEVEL = 'exploration'
TECHNIQUE = ('Hypothesis ceremony generator (permuted cosigner wallets, hand-off media, signer orders); oracle = '
             'reference sorted-key redeem script + reference consensus interpreter against the funded script')
RULE = ('m-of-n with n in 2..4 (thorough ..5), every m, witness type legacy / p2sh-segwit / segwit on bitcoinlib_test; '
        'each cosigner wallet gets a random permutation of the key list and holds one private key, in its own SQLite '
        'file. One wallet funds the common address (offline provider) and creates a spend; then a drawn sequence of '
        '1..n+1 hand-offs (signer, medium in {object, dict, raw hex}), repeats allowed, with a broadcast attempt '
        'after each. [per-wallet anti_fee_sniping, explicit locktimes, imported == exported transaction, bulk get_keys(n) + new_key issuance on every cosigner wallet] Non-trivial = m<n with >=2 hand-offs, or two different media, or a signer order different from '
        'key order; distinct by (m, n, type, permutations, ceremony). [post_edit: the completed spend is changed and re-signed by one cosigner, then sent; verified flag and broadcast judged by the interpreter; post_resign: the other cosigners replace their signatures on the changed spend, m distinct signers of the new version must verify; many: 11/12/15 cosigners, sorted and unsorted keys, addresses before and after a reopen against the reference script] [special_r: creator signature made with a nonce whose r starts with 30/02/03/04/00]'
        " [explicit [change, index] requests on every cosigner wallet; ext_keys: the creator signs with other cosigners' master keys in one call]")
ASSUMPTIONS = ['SQLite only; offline provider of bitcoinlib_test', 'all cosigner wallets have run utxos_update() before the ceremony, except the ones a case names as offline signers (they receive the transaction as an object)', 'default sort_keys=True (BIP67 ordering)',
               'BIP45 (legacy) paths carry a cosigner index: all wallets are asked for the same cosigner index']
SHARDS = {'quick': 16, 'thorough': 16}
WALL_CAP = {'quick': 900, 'thorough': 3400}
NET = 'bitcoinlib_test'
# nonces k whose r = x(kG) starts with 30 / 02 / 03 / 04 / 00
SPECIAL_R_NONCES = [102, 160, 227, 245, 441, 908, 133, 275, 45, 145, 153, 246, 102, 160]
HARD = 0x80000000


def _ref_script(case, change, index):
    from ref import bip32
    from props import wallet_util as wu
    wt = case['witness_type']
    pubs = []
    for sd in case['seeds']:
        master = bip32.master(bytes.fromhex(sd))
        if wt == 'legacy':
            path = [HARD + 45, 0, change, index]
        else:
            path = [HARD + 48, HARD + wu.coin_type(NET), HARD + 0, HARD + (2 if wt == 'segwit' else 1), change, index]
        pubs.append(bip32.derive(master, path).pub)
    pubs.sort()
    addr, script = wu.multisig_address(case['m'], pubs, wt, NET)
    return addr, script


def _spk(case, script):
    from ref import address as raddr
    from ref.hashes import hash160, sha256
    wt = case['witness_type']
    if wt == 'legacy':
        return raddr.script_p2sh(hash160(script))
    if wt == 'segwit':
        return raddr.script_p2wsh(sha256(script))
    return raddr.script_p2sh(hash160(raddr.script_p2wsh(sha256(script))))


def run_case(ctx, case):
    from props import wallet_util as _wu
    with _wu.deterministic_gc():
        return _run_case_inner(ctx, case)


def _run_case_inner(ctx, case):
    import os
    from props import wallet_util as wu
    from bitcoinlib.wallets import Wallet
    from bitcoinlib.keys import HDKey
    wu.quiet_logging()
    wu.reseed(case['rng'])
    n, m, wt = case['n'], case['m'], case['witness_type']
    tag = 'c10-%d-%d' % (os.getpid(), ctx.evaluations)
    hks = [HDKey.from_seed(bytes.fromhex(s), network=NET, witness_type=wt, multisig=True) for s in case['seeds']]
    wallets, paths = [], []
    flags = set()

    def bad(bucket, msg):
        raise Discrepancy(bucket, msg, case)
    try:
        # (with many cosigners only some of them take part: the others' wallets are never opened)
        part = sorted(set(x % n for x in case['participants'])) if case.get('participants') else list(range(n))
        for i in range(n):
            if i not in part:
                wallets.append(None)
                continue
            uri, path = wu.db_uri('%s-%d' % (tag, i))
            paths.append(path)
            keys = [hks[j] if j == i else hks[j].public_master(multisig=True) for j in range(n)]
            keys = [keys[j] for j in case['perms'][i]]
            try:
                afs = case.get('afs')
                w = Wallet.create('w', keys, sigs_required=m, network=NET, witness_type=wt, db_uri=uri,
                                  anti_fee_sniping=True if afs is None else bool(afs[i]))
            except Exception as e:
                bad('create.raises', 'creating cosigner wallet %d raised %r' % (i, e))
            wallets.append(w)
        # ---- (1) same script and address everywhere ---------------------------------------------------------
        want_addr, want_script = _ref_script(case, 0, 0)
        addrs = []
        for i, w in [(i_, w_) for i_, w_ in enumerate(wallets) if w_ is not None]:
            try:
                k = w.new_key(cosigner_id=0) if wt == 'legacy' else w.get_key()
                addrs.append(k.address)
            except Exception as e:
                bad('new_key.raises', 'wallet %d new_key raised %r' % (i, e))
        if len(set(addrs)) != 1:
            bad('address.disagree', 'cosigner wallets derive different addresses for the same path: %r' % addrs)
        if addrs[0] != want_addr:
            bad('address.reference', 'wallets derive %s, reference sorted-key %d-of-%d script gives %s' %
                (addrs[0], m, n, want_addr))
        ref_scripts = {want_addr: want_script}
        # the same on the change chain and for a second index
        for change, index in ((1, 0), (0, 1)):
            want_a, want_s = _ref_script(case, change, index)
            ref_scripts[want_a] = want_s
            got = []
            for i, w in [(i_, w_) for i_, w_ in enumerate(wallets) if w_ is not None]:
                try:
                    if wt == 'legacy':
                        k = w.new_key(cosigner_id=0, change=change)
                    else:
                        k = w.new_key(change=change)
                    got.append((k.address, k.path))
                except Exception as e:
                    bad('new_key.raises', 'wallet %d new_key(change=%d) raised %r' % (i, change, e))
            if len(set(a for a, _ in got)) != 1:
                bad('address.disagree', 'cosigner wallets derive different addresses for change=%d index %d: %r' %
                    (change, index, got))
            if got[0][0] != want_a:
                bad('address.reference', 'change=%d index=%d: wallets derive %s (%s), reference gives %s' %
                    (change, index, got[0][0], got[0][1], want_a))
        # ---- (1b) bulk key requests followed by new_key: no index is handed out twice, the index field is the last
        # path level, every wallet and the reference agree on the address of every (change, index) ------------
        bulk = case.get('bulk') or 0
        if bulk:
            flags.add('bulk_keys')
            per_wallet = []
            for i, w in [(i_, w_) for i_, w_ in enumerate(wallets) if w_ is not None]:
                kw = {'cosigner_id': 0} if wt == 'legacy' else {}
                handed = []
                try:
                    ks = w.get_keys(number_of_keys=bulk, change=case.get('bulk_change', 0), **kw)
                    handed += list(ks)
                    for _ in range(2):
                        handed.append(w.new_key(change=case.get('bulk_change', 0), **kw))
                except Exception as e:
                    bad('bulk.raises', 'wallet %d get_keys(%d)/new_key raised %r' % (i, bulk, e))
                rows = []
                for k in handed:
                    last = k.path.split('/')[-1]
                    chg = int(k.path.split('/')[-2])
                    if not last.isdigit() or k.address_index != int(last) or k.change != chg:
                        bad('bulk.index_field', 'wallet %d: key at %s has address_index %r / change %r' %
                            (i, k.path, k.address_index, k.change))
                    want_a, want_s = _ref_script(case, chg, int(last))
                    ref_scripts[want_a] = want_s
                    if k.address != want_a:
                        bad('address.reference', 'wallet %d: key at %s has address %s, reference %s' %
                            (i, k.path, k.address, want_a))
                    rows.append((k.path, k.address))
                new_paths = [p for p, _ in rows[bulk:]]
                if len(set(new_paths)) != len(new_paths) or set(new_paths) & set(p for p, _ in rows[:bulk]):
                    bad('bulk.index_repeated', 'wallet %d: new_key() after get_keys(%d) handed out a key again: '
                        'get_keys -> %r, new_key -> %r' % (i, bulk, [p for p, _ in rows[:bulk]], new_paths))
                if len(set(p for p, _ in rows[:bulk])) != bulk:
                    bad('bulk.count', 'wallet %d: get_keys(%d) returned paths %r' % (i, bulk, [p for p, _ in rows[:bulk]]))
                per_wallet.append(rows)
            if any(r != per_wallet[0] for r in per_wallet[1:]):
                bad('address.disagree', 'cosigner wallets hand out different keys for the same requests: %r' %
                    per_wallet)
        # ---- (1c) keys requested by explicit [change, index] path: the key lies at that path in every wallet -------
        for chg, idx in case.get('explicit_paths') or ():
            flags.add('explicit_paths')
            want_a, want_s = _ref_script(case, chg, idx)
            ref_scripts[want_a] = want_s
            got = []
            for i, w in [(i_, w_) for i_, w_ in enumerate(wallets) if w_ is not None]:
                kw = {'cosigner_id': 0} if wt == 'legacy' else {}
                try:
                    k = w.key_for_path([chg, idx], **kw)
                    got.append((k.address, k.path))
                except Exception as e:
                    bad('key_for_path.raises', 'wallet %d key_for_path([%d, %d]) raised %r' % (i, chg, idx, e))
                if not k.path.endswith('/%d/%d' % (chg, idx)):
                    bad('key_for_path.path', 'wallet %d: key_for_path([%d, %d]) returned the key at %s' %
                        (i, chg, idx, k.path))
            if len(set(a for a, _ in got)) != 1:
                bad('address.disagree', 'cosigner wallets derive different addresses for key_for_path([%d, %d]): %r' %
                    (chg, idx, got))
            if got[0][0] != want_a:
                bad('address.reference', 'key_for_path([%d, %d]): wallets derive %s (%s), reference gives %s' %
                    (chg, idx, got[0][0], got[0][1], want_a))
        # ---- (2) ceremony -------------------------------------------------------------------------------------
        creator = part[case['creator'] % len(part)]
        wa = wallets[creator]
        try:
            # every cosigner wallet has synchronised its UTXOs, as the library asks of online wallets ("Please
            # update UTXO's if this is not an offline wallet"); an unsynchronised wallet is not explored
            # (... except for the wallets a case names as offline signers: they have derived the address but never
            # looked at the chain; a transaction reaches them as an object, which carries the values and script types)
            offline = set(part[x % len(part)] for x in case.get('offline') or ()) - {creator}
            for i_, w in [(i_, w_) for i_, w_ in enumerate(wallets) if w_ is not None]:
                if i_ not in offline:
                    w.utxos_update()
            if offline:
                flags.add('offline_signer')
            utxos = [x for x in wa.utxos() if x['address'] in ref_scripts]
            u = utxos[case['creator'] % len(utxos)]
            want_script = ref_scripts[u['address']]
            fee = 50000
            spend = [u]
            if case.get('two_inputs'):
                # a second output of the same address: one spend with two inputs of one script
                spend += [x for x in utxos if x['address'] == u['address'] and
                          (x['txid'], x['output_n']) != (u['txid'], u['output_n'])][:1]
                if len(spend) == 2:
                    flags.add('two_inputs')
            t = wa.transaction_create([(_foreign(), sum(x['value'] for x in spend) - fee)],
                                      [(x['txid'], x['output_n'], x['key_id'], x['value']) for x in spend], fee=fee,
                                      **({'locktime': case['locktime']} if case.get('locktime') is not None else {}))
            if t.locktime == 0:
                flags.add('locktime_zero')
            elif case.get('locktime'):
                flags.add('locktime_explicit')
        except Exception as e:
            bad('create_tx.raises', 'creating the spend raised %r' % e)
        amount = [x['value'] for x in spend]
        try:
            rs = t.inputs[0].redeemscript
        except Exception as e:
            bad('redeemscript.raises', repr(e))
        if rs != want_script:
            bad('redeemscript.reference', 'spend redeemscript %s, reference %s' % (rs.hex(), want_script.hex()))
        spk = _spk(case, want_script)
        signed = [set() for _ in spend]          # distinct cosigners that signed, per input
        try:
            t.sign()
            for s_ in signed:
                s_.add(creator)
        except Exception as e:
            bad('sign.raises', 'creator sign raised %r' % e)
        if case.get('special_r') is not None:
            # the creator's signature is made with a nonce whose r starts with a byte that format sniffing could take
            # for something else (30 = DER sequence tag, 02/03/04 = public key prefixes, 00): a valid signature of the
            # creator like any other, it has to survive every hand-off
            try:
                from bitcoinlib.keys import sign as _lsign2
                kk = SPECIAL_R_NONCES[case['special_r'] % len(SPECIAL_R_NONCES)]
                for k_, inp in enumerate(t.inputs):
                    priv = [x for x in inp.keys if x.is_private]
                    if not priv or len(inp.signatures) != 1:
                        raise ValueError('creator signature not found')
                    digest = t.signature_hash(k_, 1, inp.witness_type)
                    ns = _lsign2(digest, priv[0], k=kk + k_, hash_type=1)
                    ns.public_key = inp.signatures[0].public_key
                    inp.signatures = [ns]
                    inp.update_scripts()
                flags.add('special_r_signature')
            except Exception as e:
                ctx.refusal('special_r.%s' % type(e).__name__)
        _judge(ctx, case, t, signed, m, spk, amount, 'creator', flags)
        if case.get('resign_nonces') and m >= 2:
            # the SAME cosigner signs the same digest again with other nonces: m signatures, one signer. Judged on a
            # copy (object and dict hand-off to another cosigner); the ceremony itself continues with t
            try:
                from copy import deepcopy
                from bitcoinlib.keys import sign as _lsign
                tc = deepcopy(t)
                for k_, inp in enumerate(tc.inputs):
                    priv = [x for x in inp.keys if x.is_private]
                    if not priv or not inp.signatures:
                        raise ValueError('no private key / signature on the creator copy')
                    digest = tc.signature_hash(k_, 1, inp.witness_type)
                    extra = [_lsign(digest, priv[0], k=1000 + 17 * z_, hash_type=1) for z_ in range(m - 1)]
                    for e_ in extra:
                        e_.public_key = inp.signatures[0].public_key
                    inp.signatures = list(inp.signatures) + extra
                    inp.update_scripts()
                flags.add('one_signer_many_signatures')
            except Exception as e:
                ctx.refusal('resign_nonces.%s' % type(e).__name__)
                tc = None
            if tc is not None:
                _judge(ctx, case, tc, signed, m, spk, amount, 'creator signing %d times with different nonces' % m,
                       flags)
                other = wallets[part[(part.index(creator) + 1) % len(part)]]
                try:
                    ti = other.transaction_import(tc.as_dict())
                except Exception as e:
                    ctx.refusal('resign_nonces.import.%s' % type(e).__name__)
                    ti = None
                if ti is not None:
                    _judge(ctx, case, ti, signed, m, spk, amount, 'cosigner importing (dict) the transaction signed %d '
                           'times by one cosigner' % m, flags)
        if case.get('ext_keys'):
            # instead of hand-offs: the creator is given the master private keys of other cosigners and signs with all of
            # them in ONE call (sign(keys=[...]), the form send(priv_keys=[...]) forwards to); each of them is a
            # distinct cosigner like any other
            others = [j for j in range(n) if j != creator]
            ext = [others[(case['creator'] + z_) % len(others)] for z_ in range(min(case['ext_keys'], len(others)))]
            ext = sorted(set(ext), key=ext.index)
            handed = [hks[j] for j in ext]
            if case.get('ext_repeat'):
                # the list also names a cosigner who has signed already (the creator): the others still sign
                handed = [hks[creator]] + handed
                flags.add('external_master_keys_with_one_who_signed')
            try:
                t.sign(handed)
            except Exception as e:
                bad('sign.raises', 'sign() with the master keys of cosigners %r raised %r' % (ext, e))
            for s_ in signed:
                s_.update(ext)
            flags.add('external_master_keys_%d' % len(ext))
            _judge(ctx, case, t, signed, m, spk, amount, 'creator + master keys of cosigners %r in one sign() call' % ext,
                   flags)
            return flags
        prev_medium = None
        for step, h in enumerate(case['handoffs']):
            j = part[h['signer'] % len(part)]
            wj = wallets[j]
            medium = h['medium']
            if medium == 'raw' and min(len(s_) for s_ in signed) < m and \
                    ctx.known_active('C10-raw-handoff-loses-partial-signatures'):
                ctx.exclude('raw handoff of partially signed transaction')
                medium = 'object'
            if j in offline and medium != 'object':
                ctx.exclude('dict / raw handoff to an offline signer')
                medium = 'object'
            try:
                if medium == 'object':
                    t2 = wj.transaction_import(t)
                elif medium == 'dict':
                    t2 = wj.transaction_import(t.as_dict())
                else:
                    t2 = wj.transaction_import_raw(t.raw_hex())
                    if min(len(s_) for s_ in signed) < m:
                        flags.add('raw_partial')
            except Exception as e:
                ctx.refusal('import.%s.%s' % (medium, (type(e).__name__ + ':' + str(e))[:50]))
                continue
            def _ident(x):
                return {'locktime': x.locktime, 'version': x.version_int,
                        'inputs': [(i.prev_txid.hex(), i.output_n_int, i.sequence) for i in x.inputs],
                        'outputs': [(o.value, o.lock_script.hex()) for o in x.outputs]}
            try:
                ia, ib = _ident(t), _ident(t2)
            except Exception as e:
                ia = ib = None
            if ia != ib:
                diff = ['%s: %r -> %r' % (k, ia[k], ib[k]) for k in ia if ia[k] != ib[k]]
                bad('import.changes_transaction:' + medium, 'the transaction imported by cosigner %d (%s) is not the '
                    'transaction that was exported: %s' % (j, medium, '; '.join(diff)[:400]))
            kf = None
            if medium == 'raw' and 0 < min(len(s_) for s_ in signed) < m:
                kf = 'C10-raw-handoff-loses-partial-signatures'
            only = h.get('only')
            if only is not None and len(signed) < 2:
                only = None
            try:
                if only is None:
                    t2.sign()
                else:
                    # this cosigner signs ONE input only (Transaction.sign with index_n; the wallet-level sign()
                    # always signs every input)
                    from bitcoinlib.transactions import Transaction as _T
                    k_ = only % len(signed)
                    _T.sign(t2, [x for x in t2.inputs[k_].keys if x.is_private], k_)
                    flags.add('uneven_signing')
            except Exception as e:
                ctx.refusal('sign.%s' % (type(e).__name__ + ':' + str(e))[:60])
                continue
            if prev_medium and prev_medium != medium:
                flags.add('mixed_media')
            prev_medium = medium
            if any(j in s_ for s_ in signed):
                flags.add('repeat_signer')
            for k_, s_ in enumerate(signed):
                if only is None or k_ == only % len(signed):
                    s_.add(j)
            t = t2
            if case.get('post_edit') and m >= 2 and min(len(s_) for s_ in signed) >= m and 'post_edit' not in flags \
                    and not offline:
                # (the fee-bump rounds hand the transaction over as a dictionary, which an offline signer cannot take)
                _post_edit(ctx, case, wj, j, t, m, spk, amount, flags, wallets, signed)
            _judge(ctx, case, t, signed, m, spk, amount, 'handoff %d (%s by %d)' % (step, medium, j), flags, kf=kf)
            if step >= 1 and m < n:
                flags.add('multi_handoff')
        return flags
    finally:
        for w in [w_ for w_ in wallets if w_ is not None]:
            wu.close_wallet(w)
        for p in paths:
            try:
                os.remove(p)
            except OSError:
                pass


def _foreign():
    from ref import address as raddr
    return raddr.addr_p2pkh(bytes(range(0x80, 0x94)), NET)


def _post_edit(ctx, case, wj, j, t, m, spk, amount, flags, wallets=None, signed=None):
    """The completely signed (and verified) spend is changed afterwards by ONE cosigner - the amount paid is lowered,
    i.e. the fee raised - and signed again by that cosigner only, then sent without anybody asking verify() in
    between. The other cosigners' signatures belong to the old version: the changed spend has one valid signer, it
    must not be flagged verified and must not be broadcast. (Done on a copy imported into that cosigner's wallet.)"""
    from ref import wire, interp
    mode = case['post_edit']
    try:
        tb = wj.transaction_import(t.as_dict())
        if not tb.verified:
            ctx.refusal('post_edit.copy_not_verified')
            return
        tb.outputs[0].value -= 777
        if mode == 'sign_replace':
            tb.sign(replace_signatures=True)
        elif mode == 'sign_and_update':
            tb.sign_and_update()
        else:
            tb.sign()
        flagged = bool(tb.verified)
        raw = tb.raw()
    except Exception as e:
        ctx.refusal('post_edit.%s.%s' % (mode, type(e).__name__))
        return
    flags.add('post_edit')
    try:
        tx = wire.Tx.parse(raw)
        ref_ok = len(tx.vin) == len(amount) and all(interp.verify_input(tx, k_, spk, amount[k_])[0]
                                                    for k_ in range(len(amount)))
    except Exception:
        ref_ok = False
    try:
        tb.send(broadcast=True)
        pushed = bool(tb.pushed)
    except Exception:
        pushed = False
    if ref_ok:
        ctx.klass('post_edit.still_valid')
        return
    if not (flagged or pushed) and case.get('post_resign') and wallets and signed and mode != 'sign':
        # the changed spend goes round again: the other cosigners that had signed the old version replace their
        # signatures (dict hand-off, sign(replace_signatures=True)). Once m distinct cosigners have signed the NEW
        # version it is a correctly signed spend and has to verify
        done = {j}
        cur = tb
        others = [x for x in sorted(set.intersection(*signed)) if x != j]
        for x in others:
            if len(done) >= m:
                break
            try:
                cur = wallets[x].transaction_import(cur.as_dict())
                cur.sign(replace_signatures=True)
            except Exception as e:
                ctx.refusal('post_resign.%s' % type(e).__name__)
                return
            done.add(x)
        if len(done) >= m:
            flags.add('post_resign')
            try:
                ok2 = bool(cur.verify())
                tx2 = wire.Tx.parse(cur.raw())
                ref2 = all(interp.verify_input(tx2, k_, spk, amount[k_])[0] for k_ in range(len(amount)))
            except Exception as e:
                ok2, ref2 = False, False
            if not ok2 or not ref2:
                ctx.disc('post_resign.%s' % ('not_verified' if not ok2 else 'invalid'),
                         'the changed spend was signed again by %d distinct cosigners %r (m=%d, each replacing its old '
                         'signature) but verify() is %r and the consensus interpreter says %s' %
                         (len(done), sorted(done), m, ok2, 'valid' if ref2 else 'invalid'), case)
        return
    if flagged or pushed:
        ctx.disc('post_edit.%s:%s' % ('pushed' if pushed else 'verified_flag', mode),
                 'cosigner %d lowered the paid amount of the completely signed spend and signed again (%s): the other '
                 'cosigners\' signatures are for the old version and the consensus interpreter rejects the spend, but '
                 'verified=%r and send() pushed=%r' % (j, mode, flagged, pushed), case)


def _judge(ctx, case, t, signed, m, spk, amount, where, flags, kf=None):
    """signed: list (per input) of sets of distinct cosigners; amount: list of input values"""
    from ref import wire, interp
    fewest = min(len(s_) for s_ in signed)
    enough = fewest >= m
    try:
        lib_ok = bool(t.verify())
    except Exception as e:
        lib_ok = False
    try:
        raw = t.raw()
        tx = wire.Tx.parse(raw)
        ref_ok, why = True, ''
        if len(tx.vin) != len(signed):
            ref_ok, why = False, 'input count %d' % len(tx.vin)
        for k_ in range(len(signed)):
            if ref_ok:
                ok_k, why_k = interp.verify_input(tx, k_, spk, amount[k_])
                if not ok_k:
                    ref_ok, why = False, 'input %d: %s' % (k_, why_k)
    except Exception as e:
        ref_ok, why = False, 'unserialisable: %r' % e
    counts = [len(s_) for s_ in signed]
    if lib_ok and not ref_ok:
        ctx.disc('verified.but_invalid', '%s: verify() True with %r of %d signers per input, but the consensus '
                 'interpreter rejects the spend of the funded script: %s' % (where, counts, m, why), case, kf=kf)
        return
    if lib_ok and not enough:
        ctx.disc('verified.too_few_signers', '%s: verify() True with only %r distinct signers per input (m=%d)' %
                 (where, counts, m), case, kf=kf)
        return
    if enough and not lib_ok:
        ctx.disc('not_verified.enough_signers', '%s: %r distinct cosigners signed (m=%d) but verify() is False '
                 '(reference says %s)' % (where, counts, m, 'valid' if ref_ok else 'invalid: ' + why), case, kf=kf)
        return
    if enough and not ref_ok:
        ctx.disc('invalid.enough_signers', '%s: %r distinct cosigners signed (m=%d), library verifies, but the '
                 'serialised spend is rejected by the consensus interpreter: %s' % (where, counts, m, why), case,
                 kf=kf)
        return
    # broadcast attempt
    try:
        t.send(broadcast=True)
        pushed = bool(t.pushed)
    except Exception as e:
        pushed = False
    if pushed and not enough:
        ctx.disc('pushed.too_few_signers', '%s: transaction was broadcast with %r of %d required signers per input' %
                 (where, counts, m), case, kf=kf)
    if pushed:
        flags.add('pushed')
        if not ref_ok:
            ctx.disc('pushed.invalid', '%s: broadcast a spend the consensus interpreter rejects: %s' % (where, why),
                     case, kf=kf)


def check_many(ctx, case):
    """Wallets with more than ten cosigners (P2SH allows 15 keys), seen from one cosigner: the addresses handed out
    before and after the wallet is reopened are the addresses of the reference m-of-n script - keys sorted, or in the
    order the cosigners were given when the wallet was made with sort_keys=False."""
    import os
    from props import wallet_util as wu
    from ref import bip32
    from bitcoinlib.wallets import Wallet
    from bitcoinlib.keys import HDKey
    wu.quiet_logging()
    n, m, wt, sort = case['n'], case['m'], case['witness_type'], case['sort']
    me = case.get('me', 0)
    with wu.deterministic_gc():
        hks = [HDKey.from_seed(bytes.fromhex(s), network=NET, witness_type=wt, multisig=True) for s in case['seeds']]
        uri, path = wu.db_uri('c10many-%d-%d' % (os.getpid(), ctx.evaluations))
        keys = [hks[j] if j == me else hks[j].public_master(multisig=True) for j in range(n)]
        try:
            w = Wallet.create('w', keys, sigs_required=m, network=NET, witness_type=wt, db_uri=uri, sort_keys=sort)
        except Exception as e:
            ctx.refusal('many.create.%s' % type(e).__name__)
            return

        def want(change, index):
            pubs = []
            for sd in case['seeds']:
                master = bip32.master(bytes.fromhex(sd))
                if wt == 'legacy':
                    p_ = [HARD + 45, 0, change, index]
                else:
                    p_ = [HARD + 48, HARD + wu.coin_type(NET), HARD + 0, HARD + (2 if wt == 'segwit' else 1), change,
                          index]
                pubs.append(bip32.derive(master, p_).pub)
            if sort:
                pubs.sort()
            return wu.multisig_address(m, pubs, wt, NET)[0]
        try:
            kw = {'cosigner_id': 0} if wt == 'legacy' else {}
            got = []
            for step in range(4):
                if step == 2:
                    wu.close_wallet(w)
                    w = Wallet('w', db_uri=uri)
                k = w.new_key(**kw) if (step or wt == 'legacy') else w.get_key()
                got.append((step, k.address_index, k.address))
            for step, idx, addr in got:
                exp = want(0, idx)
                if addr != exp:
                    raise Discrepancy('many.address:%s' % ('after_reopen' if step >= 2 else 'fresh'),
                                      '%d-of-%d wallet (%s, sort_keys=%r): key index %d handed out %s is %s, the '
                                      'reference script of the %d cosigner keys gives %s' %
                                      (m, n, wt, sort, idx, 'after reopening the wallet' if step >= 2 else 'before reopen',
                                       addr, n, exp), case)
            if len(set(i for _, i, _ in got)) != len(got):
                raise Discrepancy('many.index_repeated', 'indices %r' % [i for _, i, _ in got], case)
            ctx.count()
            ctx.klass('many.%d_cosigners.sort_%s' % (n, sort))
        finally:
            wu.close_wallet(w)
            try:
                os.remove(path)
            except OSError:
                pass


def replay(ctx, case):
    if case.get('kind') == 'many':
        return check_many(ctx, case)
    run_case(ctx, case)


def probes(ctx):
    saved = ctx.findings
    ctx.findings = {}
    case = {'kind': 'ceremony', 'n': 3, 'm': 2, 'witness_type': 'legacy', 'rng': 1, 'creator': 0,
            'seeds': ['%032x' % (i + 1) for i in range(3)], 'perms': [[0, 1, 2]] * 3,
            'handoffs': [{'signer': 1, 'medium': 'raw'}]}
    try:
        try:
            replay(ctx, case)
            ctx.probe('C10-raw-handoff-loses-partial-signatures', False, '')
        except Discrepancy as d:
            ctx.probe('C10-raw-handoff-loses-partial-signatures', True,
                      'a partially signed multisig transaction handed over as raw hex loses the earlier signatures '
                      '(they are not serialised): %s' % d.bucket)
    finally:
        ctx.findings = saved


def _strategy(ctx):
    from hypothesis import strategies as st

    @st.composite
    def cases(draw):
        n = draw(st.integers(2, ctx.scale(4, 5)))
        m = draw(st.integers(1, n))
        wt = draw(st.sampled_from(['legacy', 'p2sh-segwit', 'segwit']))
        seeds = draw(st.lists(st.binary(min_size=16, max_size=16), min_size=n, max_size=n, unique=True))
        perms = [list(draw(st.permutations(list(range(n))))) for _ in range(n)]
        handoffs = draw(st.lists(st.fixed_dictionaries({'signer': st.integers(0, n - 1),
                                                        'medium': st.sampled_from(['object', 'dict', 'raw']),
                                                        'only': st.sampled_from([None, None, None, 0, 1])}),
                                 min_size=1, max_size=n + 1))
        afs = draw(st.one_of(st.none(), st.lists(st.booleans(), min_size=n, max_size=n)))
        locktime = draw(st.sampled_from([None, None, 0, 0, 1, 499999999, 500000000, 1700000000]))
        return {'kind': 'ceremony', 'n': n, 'm': m, 'witness_type': wt, 'seeds': [s.hex() for s in seeds],
                'afs': afs, 'locktime': locktime, 'perms': perms,
                'two_inputs': draw(st.sampled_from([False, False, True])),
                'resign_nonces': draw(st.sampled_from([False, False, True])),
                'post_edit': draw(st.sampled_from([None, 'sign_replace', 'sign_and_update', 'sign'])),
                'post_resign': draw(st.booleans()),
                'special_r': draw(st.sampled_from([None, None, 0, 1, 2, 3, 4, 6, 8, 10])),
                'bulk': draw(st.sampled_from([0, 0, 2, 3])), 'ext_keys': draw(st.sampled_from([0, 0, 0, 1, 2, 3])), 'offline': draw(st.sampled_from([[], [], [], [0], [1], [0, 1], [2]])), 'ext_repeat': draw(st.booleans()), 'explicit_paths': draw(st.sampled_from([[], [], [[1, 4]], [[0, 2], [1, 1]], [[1, 4], [0, 3]]])), 'bulk_change': draw(st.sampled_from([0, 0, 1])), 'creator': draw(st.integers(0, n - 1)), 'handoffs': handoffs,
                'rng': draw(st.integers(0, 2 ** 31))}
    return cases()


def run(ctx):
    def prop(case):
        ctx.klass('shape.%d-of-%d.%s' % (case['m'], case['n'], case['witness_type']))
        flags = run_case(ctx, case)
        for f in flags:
            ctx.klass('ceremony.' + f)
        media = set(h['medium'] for h in case['handoffs'])
        if (case['m'] < case['n'] and len(case['handoffs']) >= 2) or len(media) >= 2:
            ctx.nt(case)
        if len(ctx.samples) < 2:
            ctx.sample(case)
    ctx.run_given('ceremony', _strategy(ctx), prop, ctx.scale(5, 60), shrink=ctx.tier == 'thorough')
    # ceremonies with many cosigners (thorough tier): 7, 11 and 15 keys, m + 1 of the cosigners take part
    if ctx.tier == 'thorough':
        from hypothesis import strategies as hst

        @hst.composite
        def big(draw):
            base = draw(_strategy(ctx))
            n_ = draw(hst.sampled_from([7, 11, 15]))
            m_ = draw(hst.sampled_from([2, 3]))
            seeds = draw(hst.lists(hst.binary(min_size=16, max_size=16), min_size=n_, max_size=n_, unique=True))
            part = draw(hst.lists(hst.integers(0, n_ - 1), min_size=m_ + 1, max_size=m_ + 1, unique=True))
            perms = [list(draw(hst.permutations(list(range(n_))))) for _ in range(n_)]
            afs = base['afs'] and [bool(k_ % 2) for k_ in range(n_)]
            return dict(base, n=n_, m=m_, seeds=[x.hex() for x in seeds], perms=perms, participants=part, afs=afs,
                        bulk=0, two_inputs=False)

        def prop_big(case):
            ctx.klass('shape.big.%d-of-%d.%s' % (case['m'], case['n'], case['witness_type']))
            for f in run_case(ctx, case):
                ctx.klass('ceremony.big.' + f)
            ctx.nt(case)
        ctx.run_given('ceremony_big', big(), prop_big, 4, shrink=False)
    # more than ten cosigners: one directed case per shard (quick), the whole grid in the thorough tier
    grid = [(n_, wt_, sort_) for n_ in (11, 12, 15) for wt_ in ('legacy', 'segwit', 'p2sh-segwit')
            for sort_ in (False, True)]
    for gi, (n_, wt_, sort_) in enumerate(grid):
        if gi % ctx.nshards != ctx.shard:
            continue
        case = {'kind': 'many', 'n': n_, 'm': 2 + gi % 3, 'witness_type': wt_, 'sort': sort_, 'me': gi % n_,
                'seeds': ['%032x' % (1000 * gi + j + 1) for j in range(n_)]}
        ctx.nt(('many', n_, wt_, sort_))
        ctx.guard(lambda c: check_many(ctx, c), case)
