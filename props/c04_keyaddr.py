"""C04 - private key -> public key -> address is exact for every network / script type / encoding;
values that are not keys (scalars outside [1, n-1], encodings that are not curve points) are refused.

Oracle: ref/ec (point of a scalar, decompression, curve membership), ref/hashes, ref/base58, ref/bech32 and
ref/address with the pinned network table. Nothing of bitcoinlib is used to compute an expected value.
"""
from vlib.core import Discrepancy

LEVEL = 'exploration'
TECHNIQUE = ('Hypothesis differential against ref/ec + ref/address (pinned prefixes), plus a sharded exhaustive '
             'matrix boundary scalar x 11 networks x script type / encoding')
RULE = ('Valid keys: scalar d drawn from boundary-biased classes (uniform, 1..1000, n-1000..n-1, single bit, '
        '<=4 bits, leading zero bytes, near n with low bits flipped), imported as int / 32 bytes / 64 hex / '
        'hex+01 / bytes+01 / WIF of the chosen network into Key or HDKey, compressed or not; public keys given '
        'as compressed / uncompressed hex or bytes or as (x, y) tuple, from d*G or from an arbitrary abscissa x '
        'walked to the next x on the curve (both parities). Observed: secret, public_hex, compressed and '
        'uncompressed forms, public_point(), hash160, Key.address / HDKey.address / Address(data) / '
        'Address(hashed_data) for p2pkh-base58, p2sh_p2wpkh-base58 (incl. redeem script), p2wpkh-bech32 on the '
        'chosen network (all three, queried in a drawn order on one object and on fresh objects); script-hash '
        'addresses p2sh / p2wsh / p2sh_p2wsh of the key\'s P2PK and 1-of-1 multisig script and p2tr of a 32-byte '
        'programme. Non-keys: scalars 0 (bytes/hex/WIF only), n, n+k, 2^256-1, random in [n, 2^256), >= 2^256 '
        'and negative (int form); compressed encodings whose x is a non-residue abscissa (both prefixes) or '
        '>= p (incl. p + x of a real point), uncompressed encodings / tuples (x, y) off the curve (y damaged, '
        'coordinates swapped, (0,0), x + p). A non-key case fails when an object comes back AND .address() '
        'returns. Non-trivial = every non-key case, and every valid case whose scalar class is not "uniform" '
        '[address histories: 2..6 fully specified address() / network_change() / address_obj requests on ONE object, each '
        'compared with the standard encoding for its own arguments and the current network] '
        '[views (public forms, hash160, point) read again after each address request, on fresh objects and on the queried one] '
        'or whose (network, script type) is not (bitcoin, p2pkh); distinct by (kind, key material, form, class, '
        'network, compressed, order).')
ASSUMPTIONS = ['ref/ec.py, ref/base58.py, ref/bech32.py, ref/address.py are correct (self-tested against BIP173/350, '
               'BIP32 and published secp256k1 vectors in ref/selftest.py)',
               'ref/networks_pinned.json is the intended prefix table of the 11 networks (public chain parameters '
               'for bitcoin/testnet/signet/litecoin/dogecoin; the library\'s own choice for regtest/bitcoinlib_test)',
               'Key(0) / Key(None) / Key(\'\') are not non-key cases: a falsy argument is documented as "generate a '
               'new key"',
               'p2wsh / p2sh / p2tr are script- or programme-hash address types: they are checked on scripts built '
               'from the key (P2PK, 1-of-1 multisig) and on an explicit 32-byte programme, not on Key.address('
               'script_type=...) with a bare public key, for which no standard encoding exists (the library '
               'implements no BIP341 tweak)',
               'uncompressed keys are only checked for p2pkh (segwit forbids them; the library refuses bech32 for them)']
SHARDS = {'quick': 16, 'thorough': 16}
WALL_CAP = {'quick': 600, 'thorough': 3000}

KF_SCALAR = 'C04-scalar-out-of-range'
KF_OFFCURVE = 'C04-pubkey-off-curve'
KF_COMPFLAG = 'C04-compressed-override-ignored'
KF_WIF01 = 'C04-wif-uncompressed-secret-ending-01'

KEY_CFGS = ['p2pkh', 'p2sh_p2wpkh', 'p2wpkh']
CFG_ARGS = {'p2pkh': ('p2pkh', 'base58'), 'p2sh_p2wpkh': ('p2sh_p2wpkh', 'base58'), 'p2wpkh': ('p2wpkh', 'bech32')}
CFG_WITNESS = {'p2pkh': 'legacy', 'p2sh_p2wpkh': 'p2sh-segwit', 'p2wpkh': 'segwit'}
ORDERS = [(0, 1, 2), (0, 2, 1), (1, 0, 2), (1, 2, 0), (2, 0, 1), (2, 1, 0)]
SCRIPT_CFGS = ['p2sh', 'p2wsh', 'p2sh_p2wsh', 'p2tr']
PRIV_FORMS = ['int', 'bytes', 'hex', 'wif', 'hex01', 'bytes01']


def _lib():
    import bitcoinlib.keys as keys
    return keys


def _h(v):
    return '%064x' % v


def _sint(s):
    return int(s, 16)


# ---- reference side ------------------------------------------------------------------------------

def _exp_addr(pub_bytes, network, cfg):
    from ref import address
    return address.key_address(pub_bytes, network, cfg)


def _exp_redeem(pub_bytes):
    from ref import address
    from ref.hashes import hash160
    return address.script_p2wpkh(hash160(pub_bytes))


# ---- building library arguments ----------------------------------------------------------------------

def _priv_arg(v, form, network, compressed):
    from ref import address
    if form == 'int':
        return v
    if form == 'bytes':
        return v.to_bytes(32, 'big')
    if form == 'hex':
        return _h(v)
    if form == 'hex01':
        return _h(v) + '01'
    if form == 'bytes01':
        return v.to_bytes(32, 'big') + b'\x01'
    if form == 'wif':
        return address.wif(v, network, compressed)
    raise ValueError(form)


def _effective_form(ctx, v, form, compressed):
    """hex+01 / bytes+01 only exist for compressed keys, and are ambiguous with a public key when the
    first byte is 02/03/04 (get_key_format reads those as public) -> fall back to the plain form."""
    if form in ('hex01', 'bytes01'):
        first = (v >> 248) & 0xff
        if not compressed or first in (2, 3, 4):
            ctx.exclude('form_%s_not_applicable' % form)
            return 'hex' if form == 'hex01' else 'bytes'
    return form


def _construct(keys, cls, arg, network, compressed, witness_type=None, is_tuple=False):
    if cls == 'HDKey':
        kw = {'network': network, 'compressed': compressed}
        if witness_type:
            kw['witness_type'] = witness_type
        return keys.HDKey(arg, **kw)
    return keys.Key(arg, network=network, compressed=compressed)


# ---- valid keys: observations ------------------------------------------------------------------------

def _check_point_views(k, pt, compressed, case, tag):
    from ref import ec
    from ref.hashes import hash160
    comp = ec.ser_compressed(pt)
    unc = ec.ser_uncompressed(pt)
    shown = comp if compressed else unc

    def get(name, fn):
        try:
            return fn()
        except Exception as e:
            raise Discrepancy('%s.%s.raises' % (tag, name), '%s raised %r' % (name, e), case)
    obs = [
        ('public_hex', lambda: k.public_hex, shown.hex()),
        ('public_byte', lambda: k.public_byte, shown),
        ('public_compressed_hex', lambda: k.public_compressed_hex, comp.hex()),
        ('public_uncompressed_hex', lambda: k.public_uncompressed_hex, unc.hex()),
        ('public_uncompressed_byte', lambda: k.public_uncompressed_byte, unc),
        ('public_point', lambda: tuple(k.public_point()), pt),
        ('x', lambda: k.x, pt[0]),
        ('y', lambda: k.y, pt[1]),
        ('compressed', lambda: bool(k.compressed), compressed),
        ('hash160', lambda: k.hash160, hash160(shown)),
    ]
    for name, fn, want in obs:
        got = get(name, fn)
        if isinstance(got, str) and isinstance(want, str):
            got = got.lower()
        if got != want:
            raise Discrepancy('%s.%s' % (tag, name), '%s=%r, reference %r' % (
                name, got.hex() if isinstance(got, bytes) else got, want.hex() if isinstance(want, bytes) else want),
                case)


def _addr_call(fn, bucket, what, case):
    try:
        return fn()
    except Exception as e:
        raise Discrepancy(bucket + '.raises', '%s raised %r' % (what, e), case)


def _check_addresses(ctx, keys, make, pt, compressed, network, order, case, tag, cls):
    """make(witness_type) builds a fresh key object. Checks Key/HDKey.address, Address(data), Address(hashed)."""
    from ref import ec
    from ref.hashes import hash160
    pub = ec.ser_compressed(pt) if compressed else ec.ser_uncompressed(pt)
    cfgs = KEY_CFGS if compressed else ['p2pkh']
    exp = dict((c, _exp_addr(pub, network, c)) for c in cfgs)
    seq = [KEY_CFGS[i] for i in ORDERS[order % 6] if KEY_CFGS[i] in cfgs]

    # (a) one object, explicit script_type + encoding, queried in the drawn order
    k = make(None)
    for cfg in seq:
        st_, enc = CFG_ARGS[cfg]
        got = _addr_call(lambda: k.address(script_type=st_, encoding=enc), tag + '.address.' + cfg,
                         '%s.address(script_type=%r, encoding=%r)' % (cls, st_, enc), case)
        if got != exp[cfg]:
            raise Discrepancy(tag + '.address.' + cfg, '%s.address(script_type=%r, encoding=%r) on %s (query order %s)'
                              ' = %s, reference %s' % (cls, st_, enc, network, seq, got, exp[cfg]), case)
        if cfg == 'p2sh_p2wpkh':
            try:
                red = bytes(k.address_obj.redeemscript)
            except Exception as e:
                raise Discrepancy(tag + '.redeemscript.raises', 'address_obj.redeemscript raised %r' % e, case)
            if red != _exp_redeem(pub):
                raise Discrepancy(tag + '.redeemscript', 'nested segwit redeem script %s, reference %s' %
                                  (red.hex(), _exp_redeem(pub).hex()), case)
        ctx.count()
        # a fresh object asked for this address first and for its own views afterwards (the views of a key do not
        # depend on which address was requested from it before)
        kf_ = make(None)
        _addr_call(lambda: kf_.address(script_type=st_, encoding=enc), tag + '.address.' + cfg,
                   '%s.address(script_type=%r, encoding=%r)' % (cls, st_, enc), case)
        _check_point_views(kf_, pt, compressed, case, tag + '.after_address_' + cfg)
    _check_point_views(k, pt, compressed, case, tag + '.after_addresses')
    # (b) defaults on fresh objects: Key -> p2pkh; HDKey(witness_type) -> its default script type
    if cls == 'Key':
        k2 = make(None)
        got = _addr_call(lambda: k2.address(), tag + '.address.default', 'Key.address()', case)
        if got != exp['p2pkh']:
            raise Discrepancy(tag + '.address.default', 'Key.address() on %s = %s, reference p2pkh %s' %
                              (network, got, exp['p2pkh']), case)
    else:
        for cfg in seq:
            k2 = make(CFG_WITNESS[cfg])
            got = _addr_call(lambda: k2.address(), tag + '.hdaddress.' + cfg,
                             'HDKey(witness_type=%r).address()' % CFG_WITNESS[cfg], case)
            if got != exp[cfg]:
                raise Discrepancy(tag + '.hdaddress.' + cfg, 'HDKey(witness_type=%r).address() on %s = %s, reference %s'
                                  % (CFG_WITNESS[cfg], network, got, exp[cfg]), case)
            _check_point_views(k2, pt, compressed, case, tag + '.after_hdaddress_' + cfg)
    # (c) Address objects from the public key and from its hash
    for cfg in seq:
        st_, enc = CFG_ARGS[cfg]
        for via in ('data_bytes', 'data_hex', 'hashed'):
            def mk():
                if via == 'data_bytes':
                    return keys.Address(data=pub, script_type=st_, encoding=enc, network=network)
                if via == 'data_hex':
                    return keys.Address(data=pub.hex(), script_type=st_, encoding=enc, network=network)
                return keys.Address(hashed_data=hash160(pub), script_type=st_, encoding=enc, network=network)
            a = _addr_call(mk, tag + '.Address.' + cfg, 'Address(%s, %r, %r)' % (via, st_, enc), case)
            if a.address != exp[cfg]:
                raise Discrepancy(tag + '.Address.' + cfg, 'Address(%s, script_type=%r, encoding=%r, network=%r)=%s, '
                                  'reference %s' % (via, st_, enc, network, a.address, exp[cfg]), case)
            if cfg == 'p2sh_p2wpkh' and bytes(a.redeemscript) != _exp_redeem(pub):
                raise Discrepancy(tag + '.Address.redeemscript', 'redeem script %s, reference %s' %
                                  (bytes(a.redeemscript).hex(), _exp_redeem(pub).hex()), case)
    # (d) the compressed= override: the other serialisation of the same point
    k3 = make(None)
    other = ec.ser_uncompressed(pt) if compressed else ec.ser_compressed(pt)
    want = _exp_addr(other, network, 'p2pkh')
    if compressed:
        got = _addr_call(lambda: k3.address_uncompressed(script_type='p2pkh', encoding='base58'),
                         tag + '.address_uncompressed', 'address_uncompressed()', case)
        if got != want:
            raise Discrepancy(tag + '.address_uncompressed', 'address_uncompressed()=%s, reference %s' % (got, want),
                              case)
    else:
        got = _addr_call(lambda: k3.address(compressed=True, script_type='p2pkh', encoding='base58'),
                         tag + '.address_compressed_override', 'address(compressed=True)', case)
        if got != want:
            kf = KF_COMPFLAG if got == exp['p2pkh'] else None
            ctx.disc(tag + '.address_compressed_override', 'key imported uncompressed: address(compressed=True)=%s is '
                     'the address of the uncompressed serialisation; reference (compressed) %s' % (got, want), case,
                     kf=kf)


def _nt_valid(ctx, klass, network, compressed, key):
    """RULE: boundary-class scalar, or a non-default (network, script type); compressed keys always exercise
    the two segwit script types, so only (uniform, bitcoin, uncompressed -> p2pkh only) is trivial."""
    ctx.klass('class.' + klass)
    ctx.klass('network.' + network)
    if klass != 'uniform' or network != 'bitcoin' or compressed:
        ctx.nt(key)


def check_priv(ctx, case):
    from ref import ec
    from vlib.gen import secret_class
    keys = _lib()
    d = _sint(case['d'])
    if not ec.valid_secret(d):
        raise ValueError('priv case with invalid scalar')
    network, compressed, cls = case['network'], case['compressed'], case['cls']
    form = _effective_form(ctx, d, case['form'], compressed)
    arg = _priv_arg(d, form, network, compressed)
    pt = ec.pubkey(d)
    tag = 'priv'

    def make(witness_type):
        try:
            return _construct(keys, cls, arg, network, compressed, witness_type)
        except Exception as e:
            raise Discrepancy('priv.construct.raises', '%s(%s form, network=%r, compressed=%r) raised %r for a valid '
                              'secret' % (cls, form, network, compressed, e), case)
    k = make(None)
    if k.secret != d:
        # known shape: an uncompressed WIF whose secret ends in byte 01 is read as a compressed WIF of secret >> 8
        kf = KF_WIF01 if (form == 'wif' and not compressed and d & 0xff == 1 and k.secret == d >> 8) else None
        ctx.disc('priv.secret', '%s(%s form, compressed=%r): secret=%r, imported %x' % (cls, form, compressed, k.secret,
                                                                                       d), case, kf=kf)
        ctx.klass('priv.behind_finding.wif01')
        return
    if not k.is_private:
        raise Discrepancy('priv.is_private', 'private import reported is_private=%r' % k.is_private, case)
    _check_point_views(k, pt, compressed, case, tag)
    _check_addresses(ctx, keys, make, pt, compressed, network, case.get('order', 0), case, tag, cls)
    ctx.klass('priv.form.' + form)
    ctx.klass('priv.' + cls + ('.compressed' if compressed else '.uncompressed'))
    _nt_valid(ctx, secret_class(d), network, compressed, ('priv', case['d'], form, cls, network, compressed,
                                                     case.get('order', 0)))


# ---- public keys (valid or not is decided by the reference) -----------------------------------------

def _pub_arg(case):
    x = _sint(case['x'])
    enc, form = case['enc'], case['form']
    if enc == 'tuple':
        return (x, _sint(case['y'])), None
    if enc == 'comp':
        raw = bytes([3 if case['odd'] else 2]) + x.to_bytes(32, 'big')
    elif enc == 'comp_long':
        # prefix of the compressed form in front of BOTH coordinates (65 bytes): not an encoding of anything
        raw = bytes([3 if case['odd'] else 2]) + x.to_bytes(32, 'big') + _sint(case['y']).to_bytes(32, 'big')
    elif enc == 'uncomp_short':
        # prefix of the uncompressed form in front of the abscissa alone (33 bytes)
        raw = b'\x04' + x.to_bytes(32, 'big')
    else:
        raw = b'\x04' + x.to_bytes(32, 'big') + _sint(case['y']).to_bytes(32, 'big')
    return (raw if form == 'bytes' else raw.hex()), raw


def _pub_point(case):
    """Reference verdict: the curve point this encoding denotes, or None."""
    from ref import ec
    x = _sint(case['x'])
    if case['enc'] in ('comp_long', 'uncomp_short'):
        return None
    if case['enc'] == 'comp':
        return ec.lift_x(x, bool(case['odd']))
    pt = (x, _sint(case['y']))
    if pt[0] < ec.P and pt[1] < ec.P and ec.on_curve(pt):
        return pt
    return None


def check_pub(ctx, case):
    from ref import ec
    from ref.hashes import hash160
    keys = _lib()
    network, cls = case['network'], case['cls']
    arg, raw = _pub_arg(case)
    pt = _pub_point(case)
    compressed = case['enc'] == 'comp' or (case['enc'] == 'tuple' and case.get('compressed', True))
    if pt is not None:
        def make(witness_type):
            try:
                return _construct(keys, cls, arg, network, compressed, witness_type)
            except Exception as e:
                raise Discrepancy('pub.construct.raises', '%s(%s %s) raised %r for a valid public key' %
                                  (cls, case['enc'], case['form'], e), case)
        k = make(None)
        if k.is_private or k.secret is not None:
            raise Discrepancy('pub.is_private', 'public import has is_private=%r secret=%r' % (k.is_private, k.secret),
                              case)
        _check_point_views(k, pt, compressed, case, 'pub')
        _check_addresses(ctx, keys, make, pt, compressed, network, case.get('order', 0), case, 'pub', cls)
        ctx.klass('pub.valid.%s.%s' % (case['enc'], 'odd' if pt[1] & 1 else 'even'))
        ctx.klass('pub.src.' + case.get('src', '?'))
        ctx.klass('network.' + network)
        ctx.nt(('pub', case['x'], case.get('y'), case.get('odd'), case['enc'], case['form'], cls, network,
                case.get('order', 0)))
        return
    # ---- not a key: must be refused ----
    ctx.klass('nonkey.pub.' + case.get('src', '?'))
    ctx.klass('nonkey.pub.enc.' + case['enc'])
    ctx.nt(('nonpub', case['x'], case.get('y'), case.get('odd'), case['enc'], case['form'], cls, network))
    wt = 'legacy' if cls == 'HDKey' else None
    try:
        k = _construct(keys, cls, arg, network, compressed, wt)
    except Exception as e:
        ctx.refusal('nonkey.pub.construct.' + type(e).__name__)
        return
    try:
        addr = k.address()
    except Exception as e:
        ctx.refusal('nonkey.pub.address.' + type(e).__name__)
        return
    if not isinstance(addr, str) or not addr:
        ctx.refusal('nonkey.pub.address.empty')
        return
    # a key object with an address; the known shape: address of the hash160 of the bytes as given
    if raw is None:
        x, y = arg
        raw = (bytes([2 + (y & 1)]) + x.to_bytes(32, 'big')) if compressed else \
            (b'\x04' + x.to_bytes(32, 'big') + y.to_bytes(32, 'big'))
    as_if = _exp_addr(raw, network, 'p2pkh')
    ctx.disc('nonkey.pub.accepted', '%s(%s) is not a point of secp256k1 (%s) but %s returned an object with address '
             '%s' % (case['enc'], (raw.hex() if raw else arg), case.get('src'), cls, addr), case,
             kf=KF_OFFCURVE if addr == as_if else None)


# ---- scalars that are not keys ---------------------------------------------------------------------

def _signed(s):
    return -int(s[1:], 16) if s.startswith('-') else int(s, 16)


def check_nonpriv(ctx, case):
    from ref import ec
    keys = _lib()
    v = _signed(case['v'])
    if ec.valid_secret(v):
        raise ValueError('nonpriv case with a valid scalar')
    network, compressed, cls, form = case['network'], case['compressed'], case['cls'], case['form']
    if v < 0 or v >= (1 << 256):
        form = 'int'
    if v == 0 and form == 'int':
        ctx.exclude('Key(0)_means_generate')
        form = 'bytes'
    if form in ('hex01', 'bytes01'):
        form = _effective_form(ctx, v, form, compressed)
    arg = _priv_arg(v, form, network, compressed)
    ctx.klass('nonkey.priv.' + case.get('src', '?'))
    ctx.klass('nonkey.priv.form.' + form)
    ctx.nt(('nonpriv', case['v'], form, cls, network, compressed))
    wt = 'legacy' if cls == 'HDKey' else None
    try:
        k = _construct(keys, cls, arg, network, compressed, wt)
    except Exception as e:
        ctx.refusal('nonkey.priv.construct.' + type(e).__name__)
        return
    try:
        addr = k.address()
    except Exception as e:
        ctx.refusal('nonkey.priv.address.' + type(e).__name__)
        return
    if not isinstance(addr, str) or not addr:
        ctx.refusal('nonkey.priv.address.empty')
        return
    # known shape: the scalar is used modulo n (0 -> "point" with x = y = 0)
    kf = None
    if 0 <= v < (1 << 256):
        r = v % ec.N
        if r == 0:
            as_if = (b'\x02' + bytes(32)) if compressed else (b'\x04' + bytes(64))
        else:
            p = ec.pubkey(r)
            as_if = ec.ser_compressed(p) if compressed else ec.ser_uncompressed(p)
        if addr == _exp_addr(as_if, network, 'p2pkh'):
            kf = KF_SCALAR
    ctx.disc('nonkey.priv.accepted', 'scalar %s (%s) is outside [1, n-1] but %s(%s form) returned an object with '
             'public key %s and address %s' % (case['v'], case.get('src'), cls, form, getattr(k, 'public_hex', None),
                                               addr), case, kf=kf)


# ---- script-hash / programme addresses -------------------------------------------------------------------

def check_script(ctx, case):
    from ref import ec, address
    from ref.hashes import hash160, sha256
    keys = _lib()
    d = _sint(case['d'])
    network, cfg, via = case['network'], case['cfg'], case['via']
    pt = ec.pubkey(d)
    pub = ec.ser_compressed(pt) if case.get('compressed', True) else ec.ser_uncompressed(pt)
    script = address.script_p2pk(pub) if case['tmpl'] == 'p2pk' else address.script_multisig(1, [pub])
    if cfg == 'p2tr':
        prog = pt[0].to_bytes(32, 'big')
        want = address.addr_witness(1, prog, network)
        kw = {'hashed_data': prog if via != 'hashed_hex' else prog.hex(), 'script_type': 'p2tr', 'network': network}
        if case.get('explicit_encoding', False):
            kw['encoding'] = 'bech32'
    else:
        want = address.script_address(script, network, cfg)
        enc = 'bech32' if cfg == 'p2wsh' else 'base58'
        kw = {'script_type': cfg, 'encoding': enc, 'network': network}
        if via == 'data':
            kw['data'] = script
        elif via == 'data_hex':
            kw['data'] = script.hex()
        else:
            h = hash160(script) if cfg == 'p2sh' else sha256(script)
            kw['hashed_data'] = h if via == 'hashed' else h.hex()
    try:
        a = keys.Address(**kw)
        got = a.address
    except Exception as e:
        raise Discrepancy('script.%s.raises' % cfg, 'Address(%s via %s) raised %r' % (cfg, via, e), case)
    if got != want:
        raise Discrepancy('script.%s' % cfg, 'Address(script_type=%r via %s, network=%r)=%s, reference %s' %
                          (cfg, via, network, got, want), case)
    if cfg == 'p2sh_p2wsh':
        red = address.script_p2wsh(sha256(script))
        if bytes(a.redeemscript) != red:
            raise Discrepancy('script.p2sh_p2wsh.redeemscript', 'redeem script %s, reference %s' %
                              (bytes(a.redeemscript).hex(), red.hex()), case)
    ctx.klass('script.' + cfg)
    ctx.klass('network.' + network)
    ctx.nt(('script', case['d'], case['tmpl'], cfg, via, network, case.get('compressed', True)))


def check_addr_history(ctx, case):
    """Several address requests on ONE key object. Every request names script type, encoding and serialisation
    explicitly, so the expected answer is a function of the request and of the object's current network alone:
    the standard encoding for that choice, whatever was asked before. case: kind=addr_history, cls Key|HDKey,
    secret, network, ops [{'op': 'address', 'cfg', 'compressed', 'prefix'} | {'op': 'network_change', 'net'} |
    {'op': 'address_obj'}]"""
    from ref import ec, address as A, base58
    from ref.hashes import hash160
    keys = _lib()
    d = _sint(case['secret'])
    pt = ec.pubkey(d)
    net = case['network']
    try:
        if case['cls'] == 'HDKey':
            k = keys.HDKey(d.to_bytes(32, 'big'), network=net)
        else:
            k = keys.Key(d, network=net)
    except Exception as e:
        raise Discrepancy('addr_history.construct.raises', '%s(%x, network=%s) raised %r' % (case['cls'], d, net, e), case)
    last = None
    done = []
    for op in case['ops']:
        if op['op'] == 'network_change':
            if case['cls'] != 'HDKey':
                continue
            try:
                k.network_change(op['net'])
            except Exception as e:
                ctx.refusal('network_change.%s' % type(e).__name__)
                continue
            net = op['net']
            last = None
            done.append('network_change(%s)' % net)
            continue
        if op['op'] == 'address_obj':
            if last is None:
                continue
            try:
                got = k.address_obj.address
            except Exception as e:
                raise Discrepancy('addr_history.address_obj.raises', 'address_obj raised %r after %s' % (e, done), case)
            if got != last:
                raise Discrepancy('addr_history.address_obj', 'address_obj.address = %s, the address() call just before '
                                  'returned %s (after %s)' % (got, last, done), case)
            continue
        cfg = op['cfg']
        comp = op['compressed']
        st_, enc = CFG_ARGS[cfg]
        if not comp and cfg != 'p2pkh':
            cfg, (st_, enc) = 'p2pkh', CFG_ARGS['p2pkh']
        if cfg != 'p2pkh' and net.startswith('dogecoin'):
            cfg, (st_, enc) = 'p2pkh', CFG_ARGS['p2pkh']
        pub = ec.ser_compressed(pt) if comp else ec.ser_uncompressed(pt)
        prefix = op.get('prefix') if cfg == 'p2pkh' else None
        if prefix is None:
            want = _exp_addr(pub, net, cfg)
        else:
            want = base58.check_encode(bytes.fromhex(prefix) + hash160(pub))
        what = 'address(compressed=%s, prefix=%r, script_type=%r, encoding=%r)' % (comp, prefix, st_, enc)
        try:
            got = k.address(compressed=comp, prefix=None if prefix is None else bytes.fromhex(prefix), script_type=st_,
                            encoding=enc)
        except Exception as e:
            raise Discrepancy('addr_history.address.raises', '%s on %s raised %r after %s' % (what, net, e, done), case)
        if got != want:
            raise Discrepancy('addr_history.address:%s' % cfg, '%s.%s on network %s = %s, standard encoding is %s '
                              '(earlier on this object: %s)' % (case['cls'], what, net, got, want, done), case)
        last = got
        done.append(what)
        ctx.count()


DISPATCH = {'priv': check_priv, 'pub': check_pub, 'nonpriv': check_nonpriv, 'script': check_script,
            'addr_history': check_addr_history}


def replay(ctx, case):
    if 'probe' in case and 'kind' not in case:          # replay file written for a reproducing finding probe
        case = dict((fid, c) for fid, c, _ in _probe_list())[case['probe']]
    DISPATCH[case['kind']](ctx, case)


# ---- probes ------------------------------------------------------------------------------------------

def _off_curve_x(start):
    from ref import ec
    x = start % ec.P
    while ec.lift_x(x, False) is not None:
        x = (x + 1) % ec.P
    return x


def _on_curve_x(start):
    from ref import ec
    x = start % ec.P
    while ec.lift_x(x, False) is None:
        x = (x + 1) % ec.P
    return x


def _probe_list():
    from ref import ec
    return [
        (KF_SCALAR, {'kind': 'nonpriv', 'v': '%x' % ec.N, 'form': 'int', 'cls': 'Key', 'network': 'bitcoin',
                     'compressed': True, 'src': 'n'},
         'Key(n) (also n+k, 2^256-1, 32 zero bytes; int / bytes / hex / WIF forms) is accepted: the scalar is used '
         'modulo n, Key(n) has public key 02 00..00 and an address, Key(n+1) equals Key(1)'),
        (KF_OFFCURVE, {'kind': 'pub', 'x': _h(_off_curve_x(5)), 'y': None, 'odd': False, 'enc': 'comp',
                       'form': 'hex', 'cls': 'Key', 'network': 'bitcoin', 'src': 'nonresidue'},
         'Key(\'02\' + x) with x^3+7 a non-residue (also x >= p, off-curve uncompressed keys and tuples) is '
         'accepted and yields an address nobody can spend from'),
        (KF_COMPFLAG, {'kind': 'priv', 'd': _h(1), 'form': 'hex', 'cls': 'Key', 'network': 'bitcoin',
                       'compressed': False, 'order': 0},
         'a key imported/created uncompressed returns the address of the uncompressed serialisation for '
         'address(compressed=True)'),
        (KF_WIF01, {'kind': 'priv', 'd': _h(1), 'form': 'wif', 'cls': 'Key', 'network': 'bitcoin',
                    'compressed': False, 'order': 0},
         'Key(<uncompressed WIF>) of a secret whose last byte is 01 strips that byte as if it were the compression '
         'flag: the imported secret is secret >> 8 (1 of 256 uncompressed WIFs imports as a different key)'),
    ]


def probes(ctx):
    saved = ctx.findings
    ctx.findings = {}
    try:
        for fid, case, what in _probe_list():
            try:
                replay(ctx, case)
                ctx.probe(fid, False, what)
            except Discrepancy:
                ctx.probe(fid, True, what)
    finally:
        ctx.findings = saved


# ---- generators ----------------------------------------------------------------------------------------

def _boundary_scalars():
    from ref import ec
    n = ec.N
    out = [1, 2, 3, 7, 255, 256, 1000, n - 1, n - 2, n - 3, n - 1000, (n - 1) // 2, (n + 1) // 2, n // 3,
           (1 << 255), (1 << 255) + 1, (1 << 256) - (1 << 129), 1 << 128, (1 << 128) - 1, 1 << 200, (1 << 248) - 1,
           1 << 248, 0xff << 240, int('01' * 32, 16), int('80' + '00' * 31, 16), int('7f' + 'ff' * 31, 16),
           int('02' + '11' * 31, 16), int('03' + '22' * 31, 16), int('04' + '33' * 31, 16), int('00' * 16 + 'ab' * 16, 16),
           int('ab' * 16 + '00' * 16, 16), n - (1 << 128), (n - 1) ^ 0xffff, 1 << 64, (1 << 64) - 1, 1 << 8, 1 << 16,
           1 << 32, 65537, n >> 1 << 1]
    seen, res = set(), []
    for v in out:
        if 1 <= v < n and v not in seen:
            seen.add(v)
            res.append(v)
    return res


def _small_curve_xs():
    """abscissae x < 2^32 of real curve points: p + x still fits 32 bytes (aliasing test)."""
    from ref import ec
    return [x for x in range(1, 40) if ec.lift_x(x, False) is not None]


def strategies(ctx):
    from hypothesis import strategies as st
    from ref import ec
    from vlib import gen
    n, p = ec.N, ec.P
    nets = gen.networks()
    clss = st.sampled_from(['Key', 'Key', 'HDKey'])
    order = st.integers(0, 5)
    small_xs = _small_curve_xs()

    priv = st.fixed_dictionaries({
        'kind': st.just('priv'), 'd': gen.secrets().map(_h), 'form': st.sampled_from(PRIV_FORMS),
        'cls': clss, 'network': nets, 'compressed': st.sampled_from([True, True, False]), 'order': order})

    def from_d(d, enc):
        pt = ec.pubkey(d)
        return {'x': _h(pt[0]), 'y': _h(pt[1]), 'odd': bool(pt[1] & 1), 'enc': enc, 'src': 'dG'}

    def from_x(x0, odd, enc):
        x = _on_curve_x(x0)
        pt = ec.lift_x(x, odd)
        return {'x': _h(x), 'y': _h(pt[1]), 'odd': odd, 'enc': enc, 'src': 'lift_x'}

    encs = st.sampled_from(['comp', 'comp', 'uncomp', 'tuple'])
    xs = st.one_of(st.integers(0, p - 1), st.integers(0, 1000), st.integers(1, 1000).map(lambda k: p - k),
                   st.integers(0, 255).map(lambda b: 1 << b))
    pub_valid = st.one_of(
        st.builds(from_d, gen.secrets(), encs),
        st.builds(from_x, xs, st.booleans(), encs))

    def bad_nonres(x0, odd):
        return {'x': _h(_off_curve_x(x0)), 'y': None, 'odd': odd, 'enc': 'comp', 'src': 'nonresidue'}

    def bad_ge_p(k, odd):
        return {'x': _h(p + k), 'y': None, 'odd': odd, 'enc': 'comp', 'src': 'x_ge_p'}

    def bad_alias(i, odd, enc):
        x = small_xs[i % len(small_xs)]
        pt = ec.lift_x(x, odd)
        return {'x': _h(p + x), 'y': _h(pt[1]), 'odd': odd, 'enc': enc, 'src': 'x_plus_p_alias'}

    def bad_xy(d, how, bit, enc):
        x, y = ec.pubkey(d)
        if how == 'y_plus_1':
            y = (y + 1) % p
        elif how == 'y_bitflip':
            y ^= 1 << bit
            if y >= p:
                y ^= 1 << 255
        elif how == 'x_bitflip':
            x ^= 1 << bit
            if x >= p:
                x ^= 1 << 255
        elif how == 'swapped':
            x, y = y, x
        elif how == 'zero':
            x, y = 0, 0
        elif how == 'y_zero':
            y = 0
        if ec.on_curve((x, y)):          # a damaged point that is a point again (2^-128): take (x, y+1)
            y = (y + 1) % p
        return {'x': _h(x), 'y': _h(y), 'odd': bool(y & 1), 'enc': enc, 'src': 'xy_' + how}

    def bad_nonres_root(x0, neg, enc):
        # x has no point; y is what the square-root shortcut for p = 3 (mod 4) returns for a non-residue (its square is
        # -(x^3 + 7)): a check that compares y with "the root" without squaring it takes the pair for a point
        x = _off_curve_x(x0)
        y = pow((pow(x, 3, p) + 7) % p, (p + 1) // 4, p)
        if neg:
            y = p - y
        return {'x': _h(x), 'y': _h(y), 'odd': bool(y & 1), 'enc': enc, 'src': 'nonresidue_pseudo_root'}

    def bad_shape(d, enc):
        # a real point in an encoding whose prefix and length do not go together; (33 bytes ending in 01 are a private
        # key with the compression marker: not this class)
        pt = ec.pubkey(d)
        if enc == 'uncomp_short' and pt[0] & 0xff == 1:
            pt = ec.pubkey(d % (ec.N - 2) + 1 if d % (ec.N - 2) + 1 != d else 2)
        return {'x': _h(pt[0]), 'y': _h(pt[1]), 'odd': bool(pt[1] & 1), 'enc': enc, 'src': 'prefix_length_mismatch'}

    pub_bad = st.one_of(
        st.builds(bad_shape, gen.secrets(), st.sampled_from(['comp_long', 'uncomp_short'])),
        st.builds(bad_nonres_root, xs, st.booleans(), st.sampled_from(['uncomp', 'tuple'])),
        st.builds(bad_nonres, xs, st.booleans()),
        st.builds(bad_nonres, xs, st.booleans()),
        st.builds(bad_ge_p, st.integers(0, (1 << 256) - 1 - p), st.booleans()),
        st.builds(bad_alias, st.integers(0, 100), st.booleans(), st.sampled_from(['comp', 'uncomp'])),
        st.builds(bad_xy, gen.secrets(), st.sampled_from(['y_plus_1', 'y_bitflip', 'x_bitflip', 'swapped', 'zero',
                                                          'y_zero']),
                  st.integers(0, 255), st.sampled_from(['uncomp', 'uncomp', 'tuple'])))

    def pub_case(base, form, cls, network, order_, tcomp):
        c = dict(base)
        c.update({'kind': 'pub', 'form': form, 'cls': cls, 'network': network, 'order': order_})
        if c['enc'] == 'tuple':
            c['compressed'] = tcomp
            c['form'] = 'tuple'
        return c
    forms = st.sampled_from(['hex', 'bytes'])
    pub_ok = st.builds(pub_case, pub_valid, forms, clss, nets, order, st.booleans())
    pub_nok = st.builds(pub_case, pub_bad, forms, clss, nets, order, st.booleans())

    def nonpriv_case(v, src, form, cls, network, compressed):
        return {'kind': 'nonpriv', 'v': ('-%x' % -v) if v < 0 else '%x' % v, 'src': src, 'form': form, 'cls': cls,
                'network': network, 'compressed': compressed}
    bad_scalars = st.one_of(
        st.tuples(st.just(0), st.just('zero')),
        st.tuples(st.just(n), st.just('n')),
        st.tuples(st.integers(1, 1000).map(lambda k: n + k), st.just('n_plus_k')),
        st.tuples(st.just((1 << 256) - 1), st.just('2^256-1')),
        st.tuples(st.integers(n, (1 << 256) - 1), st.just('n..2^256')),
        st.tuples(st.integers(0, 1000).map(lambda k: (1 << 256) + k), st.just('ge_2^256')),
        st.tuples(st.integers(1, 1 << 260).map(lambda k: -k), st.just('negative')),
        st.tuples(st.integers(1, 5).map(lambda k: k * n), st.just('multiple_of_n')),
    )
    nonpriv = st.builds(lambda vs, form, cls, network, compressed: nonpriv_case(vs[0], vs[1], form, cls, network,
                                                                                 compressed),
                        bad_scalars, st.sampled_from(['int', 'bytes', 'hex', 'wif', 'hex01', 'bytes01']), clss, nets,
                        st.sampled_from([True, True, False]))

    script = st.fixed_dictionaries({
        'kind': st.just('script'), 'd': gen.secrets().map(_h), 'tmpl': st.sampled_from(['p2pk', 'multisig1']),
        'cfg': st.sampled_from(SCRIPT_CFGS), 'via': st.sampled_from(['data', 'data_hex', 'hashed', 'hashed_hex']),
        'network': nets, 'compressed': st.sampled_from([True, True, False]), 'explicit_encoding': st.booleans()})
    return priv, pub_ok, pub_nok, nonpriv, script


def _wrap(ctx, fn):
    def f(case):
        if len(ctx.samples) < 2 or (case['kind'] in ('nonpriv',) and len(ctx.samples) < 3):
            ctx.sample(case)
        fn(ctx, case)
    return f


def run(ctx):
    from ref import address
    names = address.NETWORK_NAMES

    # 1. full matrix for every boundary scalar (sharded by scalar index) ---------------------------------
    scal = _boundary_scalars()
    done = True
    for i, d in enumerate(scal):
        if i % ctx.nshards != ctx.shard:
            continue
        for j, network in enumerate(names):
            if ctx.out_of_time():
                done = False
                break
            for cls in ('Key', 'HDKey'):
                form = PRIV_FORMS[(i + j) % len(PRIV_FORMS)]
                for compressed in (True, False):
                    case = {'kind': 'priv', 'd': _h(d), 'form': form, 'cls': cls, 'network': network,
                            'compressed': compressed, 'order': (i + j) % 6}
                    ctx.guard(lambda c: check_priv(ctx, c), case)
            for cfg in SCRIPT_CFGS:
                case = {'kind': 'script', 'd': _h(d), 'tmpl': 'p2pk' if (i + j) % 2 else 'multisig1', 'cfg': cfg,
                        'via': ['data', 'hashed', 'data_hex', 'hashed_hex'][(i + j) % 4], 'network': network,
                        'compressed': True, 'explicit_encoding': bool(j % 2)}
                ctx.guard(lambda c: check_script(ctx, c), case)
            # the public side of the same point
            from ref import ec
            pt = ec.pubkey(d)
            for enc in ('comp', 'uncomp', 'tuple'):
                case = {'kind': 'pub', 'x': _h(pt[0]), 'y': _h(pt[1]), 'odd': bool(pt[1] & 1), 'enc': enc,
                        'form': 'tuple' if enc == 'tuple' else ('hex' if (i + j) % 2 else 'bytes'),
                        'cls': 'HDKey' if (i + j) % 3 == 0 else 'Key', 'network': network, 'order': (i + j) % 6,
                        'compressed': bool((i + j) % 2), 'src': 'dG'}
                ctx.guard(lambda c: check_pub(ctx, c), case)
    ctx.exhaustive('boundary scalars x 11 networks x {Key,HDKey} x {compressed,uncompressed} x address types', done)

    # 2. fixed non-keys on every network (shard 0..) -------------------------------------------------------
    from ref import ec
    fixed_bad = [(0, 'zero'), (ec.N, 'n'), (ec.N + 1, 'n_plus_k'), ((1 << 256) - 1, '2^256-1'), (2 * ec.N - 1, 'n..2^256')]
    idx = 0
    for v, src in fixed_bad:
        for form in ('int', 'bytes', 'hex', 'wif'):
            for cls in ('Key', 'HDKey'):
                idx += 1
                if idx % ctx.nshards != ctx.shard:
                    continue
                case = {'kind': 'nonpriv', 'v': '%x' % v, 'src': src, 'form': form, 'cls': cls,
                        'network': names[idx % len(names)], 'compressed': bool(idx % 3)}
                ctx.guard(lambda c: check_nonpriv(ctx, c), case)
    ctx.exhaustive('fixed non-key scalars x import form x class')

    # 3. Hypothesis ------------------------------------------------------------------------------------------
    priv, pub_ok, pub_nok, nonpriv, script = strategies(ctx)
    ctx.run_given('priv', priv, _wrap(ctx, check_priv), ctx.scale(160, 3500))
    ctx.run_given('pub', pub_ok, _wrap(ctx, check_pub), ctx.scale(100, 2200))
    ctx.run_given('nonpub', pub_nok, _wrap(ctx, check_pub), ctx.scale(70, 1200))
    ctx.run_given('nonpriv', nonpriv, _wrap(ctx, check_nonpriv), ctx.scale(50, 800))
    ctx.run_given('script', script, _wrap(ctx, check_script), ctx.scale(40, 600))

    # several requests on one object (caches of the Address object)
    from hypothesis import strategies as hst
    from vlib import gen as _gen
    from ref.address import NETWORK_NAMES
    nets = hst.sampled_from(NETWORK_NAMES)
    aop = hst.one_of(
        hst.fixed_dictionaries({'op': hst.just('address'), 'cfg': hst.sampled_from(KEY_CFGS + ['p2pkh']),
                                'compressed': hst.sampled_from([True, True, False]),
                                'prefix': hst.sampled_from([None, None, None, '6f', '00', '30', '1e'])}),
        hst.fixed_dictionaries({'op': hst.just('network_change'), 'net': nets}),
        hst.just({'op': 'address_obj'}))
    hist = hst.fixed_dictionaries({'kind': hst.just('addr_history'), 'cls': hst.sampled_from(['Key', 'HDKey']),
                                   'secret': _gen.secrets().map(_h), 'network': nets,
                                   'ops': hst.lists(aop, min_size=2, max_size=6)})

    def p_hist(case):
        ctx.nt(('addr_history', case['cls'], case['secret'], case['network'], str(case['ops'])))
        ctx.klass('addr_history.' + case['cls'])
        if any(o['op'] == 'network_change' for o in case['ops']) and case['cls'] == 'HDKey':
            ctx.klass('addr_history.network_change')
        check_addr_history(ctx, case)
    ctx.run_given('addr_history', hist, p_hist, ctx.scale(120, 3000))
