"""C07 - every transaction a wallet creates conserves value and pays exactly what was requested.

Generated: wallet configuration, a UTXO set placed with utxo_add, and a list of spend requests whose
amounts are derived from the modelled UTXO set. Oracle: validity predicate over every returned
transaction, evaluated on the *independently parsed* serialisation and on the harness' own model of the
wallet's unspent set.
"""
from vlib.core import Discrepancy

LEVEL = 'exploration'
TECHNIQUE = ('Hypothesis wallet/UTXO/request generator; validity predicate (conservation, exact recipients, own '
             'change, distinct unspent inputs, confirmations, fee-rate limits) on independently parsed bytes')
RULE = ('Wallets: HD / single-key / 2-of-2 and 2-of-3 multisig x legacy, segwit, p2sh-segwit x networks '
        '(bitcoinlib_test with the offline provider for automatic and named fees; bitcoin/testnet/litecoin/dogecoin '
        'with explicit fees). UTXO sets of 1..10 outputs on 1..4 keys with values from {dust-1, dust, dust+1, equal '
        'values, small, large, >=2^32} and confirmations {0,1,10}. Requests: 1..3 recipients (foreign/own, every '
        'address type, amounts as int/str), amounts derived from the modelled UTXO set (fractions of largest / '
        'confirmed total / grand total, slightly above total), fee in {None, int incl. 0 and absurd, low/normal/high}, '
        '0..3 change outputs, min_confirms, max_utxos, explicit input_arr, sweep (single target or list with 0-amount '
        'remainder), replace_by_fee + bumpfee. Non-trivial [bitcoinlib_test: requests may be broadcast and interleaved with utxos_update(); consumed outpoints may neither be listed nor selected again] = >=2 inputs selected, or a change split, or sweep, or '
        'bumpfee, or a dust-boundary UTXO in the set; distinct by (wallet config, utxo set, request). [a third of the hd wallets have another default network and make their transactions from an account on a second network, with explicit fees between the two networks\' rate limits; a quarter of the create/send requests name their inputs (both tuple forms, repeated picks): insufficient named inputs must fail, no outpoint twice]')
ASSUMPTIONS = ['SQLite back-end only', 'offline bitcoinlib_test provider; other networks with explicit integer fees and '
               'anti_fee_sniping=False', 'real-rate limits are widened by 25% (size is estimated before signing) plus '
               'the dust amount the library documents to fold into the fee']
SHARDS = {'quick': 16, 'thorough': 16}
WALL_CAP = {'quick': 900, 'thorough': 3400}

# networks on which a Service object can be constructed offline (enough providers configured that the failing
# block-count request is swallowed); on regtest / signet / litecoin_testnet every request ends in ServiceError
NETS_EXPLICIT = ['bitcoin', 'testnet', 'litecoin', 'dogecoin', 'litecoin_legacy']
REFUSALS = ('WalletError', 'TransactionError', 'ValueError')


def _mk_wallet(case, tag):
    from bitcoinlib.wallets import Wallet
    from bitcoinlib.keys import HDKey
    from props import wallet_util as wu
    wc = case['wallet']
    uri, path = wu.db_uri(tag)
    net, wt = wc['network'], wc['witness_type']
    seed = bytes.fromhex(wc['seed'])
    if wc['kind'] == 'ms':
        keys = []
        for k in range(wc['n']):
            hk = HDKey.from_seed(seed + bytes([k]), network=net, witness_type=wt, multisig=True)
            keys.append(hk)
        w = Wallet.create('w', keys=keys, sigs_required=wc['m'], network=net, witness_type=wt, db_uri=uri,
                          anti_fee_sniping=wc['afs'], cosigner_id=0)
    elif wc['kind'] == 'single':
        hk = HDKey.from_seed(seed, network=net, witness_type=wt)
        w = Wallet.create('w', keys=hk.wif_key() if False else hk, scheme='single', network=net, witness_type=wt,
                          db_uri=uri, anti_fee_sniping=wc['afs'])
    elif wc.get('default_net'):
        # a wallet of another (default) network; the transactions are made from an account on `net` added afterwards
        hk = HDKey.from_seed(seed, network=wc['default_net'], witness_type=wt)
        w = Wallet.create('w', keys=hk, network=wc['default_net'], witness_type=wt, db_uri=uri,
                          anti_fee_sniping=wc['afs'])
        acc = w.new_account(network=net)
        w._verif_nk = {'network': net, 'account_id': acc.account_id}
    else:
        hk = HDKey.from_seed(seed, network=net, witness_type=wt)
        w = Wallet.create('w', keys=hk, network=net, witness_type=wt, db_uri=uri, anti_fee_sniping=wc['afs'])
        if wc.get('second_account'):
            # the transactions are made from a second account of the wallet (same network), named in every request
            acc = w.new_account()
            w._verif_nk = {'network': net, 'account_id': acc.account_id}
    return w, path


def _foreign_address(o, network):
    from ref import address as raddr
    return raddr.address_for(o['kind'], bytes.fromhex(o['payload']), network)


def _spk_for_address_kind(o):
    from ref import address as raddr
    return raddr.script_for(o['kind'], bytes.fromhex(o['payload']))


def run_case(ctx, case):
    from props import wallet_util as wu
    from ref import wire
    from ref import address as raddr
    import os
    wu.quiet_logging()
    wu.reseed(case['rng'])
    tag = 'c07-%d-%d' % (os.getpid(), ctx.evaluations)
    try:
        w, path = _mk_wallet(case, tag)
    except Exception as e:
        ctx.refusal('wallet_create.%s' % type(e).__name__)
        ctx.note('wallet_create_refusal', repr(e)[:200])
        return
    try:
        with wu.deterministic_gc():
            _run_requests(ctx, case, w)
    finally:
        wu.close_wallet(w)
        try:
            os.remove(path)
        except OSError:
            pass


def _run_requests(ctx, case, w):
    from props import wallet_util as wu
    from ref import wire
    from ref import address as raddr
    wc = case['wallet']
    net = wc['network']
    netinfo = raddr.NETWORKS[net]
    dust = netinfo['dust_amount']
    # keys that receive funds
    single = wc['kind'] == 'single'
    recv = []
    nk = getattr(w, '_verif_nk', {})
    if nk:
        ctx.klass('wallet.second_network_account')
    for k in range(4):
        if single:
            recv.append(w.get_key())
        else:
            recv.append(w.new_key(**nk) if k else w.get_key(**nk))
    # model of the unspent set
    model = {}
    txid = None
    for n, u in enumerate(case['utxos']):
        key = recv[u['key'] % len(recv)]
        out_n = u['n']
        if u.get('same_tx') and txid is not None and u['conf'] == last_conf:
            # another output of the transaction that carried the previous one
            used = [o for (t_, o) in model if t_ == txid]
            if out_n in used:
                out_n = max(used) + 1
            ctx.klass('utxos.several_outputs_of_one_tx')
        else:
            txid = wu.fake_txid(case['rng'], n)
        last_conf = u['conf']
        if nk and (case['rng'] + n) % 2:
            # in a wallet with several networks an unspent output of one of them is handed in through
            # utxos_update(utxos=..., networks=...) or (every other time) through utxo_add, which has to find the
            # network and account of the address itself
            w.utxos_update(utxos=[{'address': key.address, 'script': '', 'confirmations': u['conf'], 'output_n': out_n,
                                   'txid': txid, 'value': u['value']}], networks=nk['network'],
                           account_id=nk['account_id'], rescan_all=False)
        else:
            w.utxo_add(key.address, u['value'], txid, out_n, confirmations=u['conf'])
        model[(txid, out_n)] = {'value': u['value'], 'conf': u['conf'], 'address': key.address}
    consumed = {}      # outpoints spent by transactions this wallet broadcast -> txid
    for rq_i, rq in enumerate(case['requests']):
        wu.reseed(case['rng'] + rq_i + 1)
        # Wallet.utxos() strips '_sa_instance_state' from the row objects it returns; a row object kept alive by a
        # reference cycle then breaks the next query that meets it (AttributeError inside SQLAlchemy). Collect
        # cycles at this fixed point, between requests, so that it cannot happen in the middle of one.
        import gc
        gc.collect()
        if rq['op'] == 'utxos_update':
            _do_update(ctx, case, w, model, consumed)
            continue
        _one_request(ctx, case, w, rq, model, recv, dust, netinfo, consumed)


def _do_update(ctx, case, w, model, consumed):
    """utxos_update(): the wallet re-reads its unspent set from the (offline) provider. The model follows the
    wallet's listing, except that nothing a broadcast transaction consumed may come back."""
    try:
        nk = getattr(w, '_verif_nk', {})
        w.utxos_update(**nk)
        listing = w.utxos(min_confirms=0, **nk)
    except Exception as e:
        ctx.refusal('utxos_update.%s' % type(e).__name__)
        return
    ctx.klass('utxos_update')
    model.clear()
    for u in listing:
        op = (u['txid'], u['output_n'])
        if op in consumed:
            raise Discrepancy('unspent.relisted_after_update', 'after utxos_update() the wallet lists %s:%d as unspent, '
                              'it was consumed by broadcast transaction %s' % (op[0][:12], op[1], consumed[op][:12]),
                              case)
        model[op] = {'value': u['value'], 'conf': u['confirmations'], 'address': u['address']}


def _amount(rq_amount, model, min_confirms, fee=None):
    vals = [u['value'] for u in model.values()]
    conf_vals = [u['value'] for u in model.values() if u['conf'] >= min_confirms]
    base = {'largest': max(vals) if vals else 0, 'confirmed': sum(conf_vals), 'total': sum(vals)}[rq_amount['of']]
    if 'leave' in rq_amount:
        # everything except the (explicit) fee and a drawn remainder: puts the change on the dust boundary
        return max(0, base - (fee if isinstance(fee, int) else 0) - rq_amount['leave'])
    return max(0, int(base * rq_amount['num'] // rq_amount['den']) + rq_amount.get('plus', 0))


def _one_request(ctx, case, w, rq, model, recv, dust, netinfo, consumed=None):
    consumed = {} if consumed is None else consumed
    broadcast = bool(rq.get('broadcast')) and case['wallet']['network'] == 'bitcoinlib_test'
    from ref import wire
    from ref import address as raddr
    wc = case['wallet']
    net = wc['network']
    min_conf = rq.get('min_confirms', 1)
    outputs = []
    wanted = []   # (spk, amount)
    for o in rq['outputs']:
        amt = _amount(o['amount'], model, min_conf, rq.get('fee'))
        if o.get('own'):
            key = recv[o['own'] % len(recv)]
            addr = key.address
            spk = None
        else:
            addr = _foreign_address(o, net)
            spk = _spk_for_address_kind(o)
        outputs.append((addr, str(amt) + ' sat' if False else amt))
        wanted.append({'addr': addr, 'spk': spk, 'amount': amt})
    op = rq['op']
    fee = rq.get('fee')
    kwargs = {}
    nk = getattr(w, '_verif_nk', {})
    ikw = {}
    if rq.get('explicit_inputs') and op in ('create', 'send') and model:
        # the caller names the unspent outputs to spend (the documented tuple forms: (txid, n) and
        # (txid, n, key_id, value)); repeated picks name the same outpoint twice
        ops_sorted = sorted(model)
        picks = [ops_sorted[i % len(ops_sorted)] for i in rq['explicit_inputs']]
        if rq.get('explicit_form') == 'full':
            listing = dict(((u['txid'], u['output_n']), u) for u in w.utxos(min_confirms=0, **nk))
            ikw['input_arr'] = [(p_[0], p_[1], listing[p_]['key_id'], listing[p_]['value']) if p_ in listing else p_
                                for p_ in picks]
        else:
            ikw['input_arr'] = list(picks)
        ctx.klass('explicit_inputs.%s' % ('repeated' if len(set(picks)) < len(picks) else 'distinct'))
    try:
        if op == 'create':
            t = w.transaction_create(outputs, fee=fee, min_confirms=min_conf, max_utxos=rq.get('max_utxos'),
                                     number_of_change_outputs=rq.get('n_change', 1),
                                     replace_by_fee=rq.get('rbf', False), **nk, **ikw)
        elif op == 'send':
            t = w.send(outputs, fee=fee, min_confirms=min_conf, max_utxos=rq.get('max_utxos'),
                       number_of_change_outputs=rq.get('n_change', 1), replace_by_fee=rq.get('rbf', False),
                       broadcast=broadcast, **nk, **ikw)
        elif op == 'send_to':
            t = w.send_to(outputs[0][0], outputs[0][1], fee=fee, min_confirms=min_conf,
                          number_of_change_outputs=rq.get('n_change', 1), replace_by_fee=rq.get('rbf', False),
                          broadcast=broadcast, **nk)
            wanted = wanted[:1]
        elif op == 'sweep':
            if rq.get('sweep_list') and len(outputs) >= 2:
                to = [(a, v) for a, v in outputs[:-1]] + [(outputs[-1][0], 0)]
                t = w.sweep(to, fee=fee, min_confirms=min_conf, max_utxos=rq.get('max_utxos') or 999,
                            broadcast=broadcast, **nk)
                wanted = wanted[:-1] + [{'addr': outputs[-1][0], 'spk': wanted[-1]['spk'], 'amount': None}]
            else:
                t = w.sweep(outputs[0][0], fee=fee, min_confirms=min_conf, max_utxos=rq.get('max_utxos') or 999,
                            broadcast=broadcast, **nk)
                wanted = [{'addr': outputs[0][0], 'spk': wanted[0]['spk'], 'amount': None}]
        else:
            raise AssertionError(op)
    except Exception as e:
        name = type(e).__name__
        if name in REFUSALS:
            ctx.refusal('%s.%s' % (op, str(e)[:40]))
        else:
            ctx.refusal('%s.other.%s' % (op, name))
            import traceback
            ctx.note('other_exception.' + name, repr(e)[:300] + ' | ' + ' <- '.join('%s:%d' % (f.name, f.lineno) for f in traceback.extract_tb(e.__traceback__)[-6:]))
        return
    ctx.klass('created.' + op)
    for i in t.inputs:
        outp = (i.prev_txid.hex(), i.output_n_int)
        if outp in consumed:
            raise Discrepancy('input.already_spent:' + op, 'input %s:%d was consumed by transaction %s which this wallet '
                              'broadcast earlier [request %r]' % (outp[0][:12], outp[1], consumed[outp][:12], rq), case)
    _validate(ctx, case, rq, w, t, wanted, model, min_conf, dust, netinfo, stage=op)
    if broadcast and getattr(t, 'pushed', False):
        ctx.klass('broadcast')
        own_addr = set(k.address for k in w.keys())
        for i in t.inputs:
            outp = (i.prev_txid.hex(), i.output_n_int)
            consumed[outp] = t.txid
            model.pop(outp, None)
        for n, o in enumerate(t.outputs):
            if o.address in own_addr:
                model[(t.txid, n)] = {'value': o.value, 'conf': 0, 'address': o.address}
        return
    if rq.get('bump') and rq.get('rbf'):
        b = rq['bump']
        try:
            if b['mode'] == 'rel':
                # extra fee relative to the first change output: exercises partial / complete consumption of
                # change outputs
                ch = [o for o in t.outputs if o.change]
                base = ch[0].value if ch else int(t.fee)
                t.bumpfee(extra_fee=max(1, base * b['num'] // 4))
                ctx.klass('bump.rel.%d/4' % b['num'])
            elif b['mode'] == 'fee':
                t.bumpfee(fee=int(t.fee) + b['amount'])
            elif b['mode'] == 'extra':
                t.bumpfee(extra_fee=b['amount'])
            else:
                t.bumpfee()
        except Exception as e:
            ctx.refusal('bumpfee.%s' % str(e)[:40])
            return
        ctx.klass('created.bumpfee')
        _validate(ctx, case, rq, w, t, wanted, model, 0, dust, netinfo, stage='bumpfee')


def _validate(ctx, case, rq, w, t, wanted, model, min_conf, dust, netinfo, stage):
    from ref import wire
    wc = case['wallet']
    rep = {'kind': 'wallet', 'case': case}

    def bad(bucket, msg):
        raise Discrepancy('%s:%s' % (bucket, stage), msg + ' [request %r]' % (rq,), case)

    # -- reported accounting --------------------------------------------------------------------------
    try:
        in_vals = [int(i.value) for i in t.inputs]
        out_vals = [o.value for o in t.outputs]
        fee = t.fee
    except Exception as e:
        bad('accounting.raises', 'reading inputs/outputs raised %r' % e)
    for v in out_vals:
        if not isinstance(v, int) or isinstance(v, bool) or v < 0:
            # numpy integers are not ints: they overflow silently and do not serialise the same way
            if type(v).__module__ == 'numpy' and int(v) >= 0:
                ctx.klass('output_value_numpy_int')
            else:
                bad('output.not_nonneg_int', 'output value %r (%s)' % (v, type(v)))
    if fee is None or fee < 0:
        bad('fee.negative', 'fee %r' % (fee,))
    if isinstance(rq.get('fee'), int) and not isinstance(rq.get('fee'), bool) and rq['fee'] > 0 and \
            stage in ('create', 'send', 'send_to', 'sweep') and fee < rq['fee']:
        # an explicit fee the funds cannot pay means insufficient funds: the request has to fail (sub-dust change
        # may be ADDED to the fee, never taken from it)
        bad('fee.below_requested', 'transaction pays fee %d, the request named %d: the selected inputs do not cover '
            'outputs + fee' % (fee, rq['fee']))
    if sum(in_vals) != sum(int(v) for v in out_vals) + fee:
        bad('conservation', 'inputs %d != outputs %d + fee %d' % (sum(in_vals), sum(int(v) for v in out_vals), fee))
    # -- serialisation read independently -------------------------------------------------------------
    try:
        raw = t.raw()
        r = wire.Tx.parse(raw)
    except Exception as e:
        bad('raw.unparseable', 'raw() not parseable by the reference: %r' % e)
    if [o.value for o in r.vout] != [int(v) for v in out_vals]:
        bad('raw.output_values', 'serialised output values %r differ from reported %r' %
            ([o.value for o in r.vout], out_vals))
    # -- inputs: distinct, unspent outputs of this wallet, modelled value, confirmations ----------------
    seen = set()
    for k, (ri, li) in enumerate(zip(r.vin, t.inputs)):
        op = (ri.prev_hash[::-1].hex(), ri.prev_n)
        if op in seen:
            bad('input.duplicate', 'outpoint %s:%d used twice' % op)
        seen.add(op)
        if op not in model:
            bad('input.unknown', 'input %s:%d is not an unspent output of this wallet' % op)
        if int(li.value) != model[op]['value']:
            bad('input.value', 'input %s:%d value %d, wallet utxo has %d' % (op[0], op[1], li.value, model[op]['value']))
        if not rq.get('explicit_inputs') and model[op]['conf'] < min_conf:
            bad('input.confirmations', 'input %s:%d has %d confirmations, %d required' %
                (op[0][:8], op[1], model[op]['conf'], min_conf))
    if len(r.vin) != len(t.inputs):
        bad('raw.input_count', 'serialised %d inputs, object has %d' % (len(r.vin), len(t.inputs)))
    if len(seen) >= 2:
        ctx.klass('multi_input')
    # -- recipients exactly once, everything else is own change ----------------------------------------
    remaining = list(range(len(r.vout)))
    lib_addrs = [o.address for o in t.outputs]
    for wnt in wanted:
        hit = None
        for idx in remaining:
            o = r.vout[idx]
            if wnt['spk'] is not None:
                same_dest = o.script == wnt['spk']
            else:
                same_dest = lib_addrs[idx] == wnt['addr']
            if same_dest and (wnt['amount'] is None or o.value == wnt['amount']):
                hit = idx
                break
        if hit is None:
            bad('recipient.missing', 'no output pays %s exactly %r (outputs: %r)' %
                (wnt['addr'], wnt['amount'], [(a, o.value) for a, o in zip(lib_addrs, r.vout)]))
        remaining.remove(hit)
    own = {}
    try:
        for k in w.keys():
            own[k.address] = k
    except Exception as e:
        # reading the key list is an observation, not the behaviour under test
        ctx.refusal('observe.keys.%s' % type(e).__name__)
        return
    n_change = 0
    for idx in remaining:
        addr = lib_addrs[idx]
        if addr not in own:
            bad('change.foreign', 'extra output %d pays %s which is not an address of this wallet' % (idx, addr))
        k = own[addr]
        if wc['kind'] != 'single' and getattr(k, 'change', None) != 1:
            ctx.disc('change.not_change_chain:%s' % stage,
                     'extra output pays own address %s on chain change=%r (not the change chain)' % (addr, k.change),
                     case, kf='C07-bumpfee-new-change-on-receiving-chain' if stage == 'bumpfee' else None)
        n_change += 1
    if n_change >= 2:
        ctx.klass('change_split')
    # the address reported for an own/foreign output must match its serialised script for known kinds
    # -- fee rate limits ------------------------------------------------------------------------------
    fee_min, fee_max = netinfo['fee_min'], netinfo['fee_max']
    fpk = t.fee_per_kb
    # transaction_create reports the rate it planned with (strict limits); send()/sweep()/bumpfee() overwrite it
    # with the rate of the signed size, which carries the size-estimation error tolerated below
    tol_lo, tol_hi = (1.0, 1.0) if stage == 'create' else (0.75, 1.25)
    if fpk is not None and not (fee_min * tol_lo <= fpk <= fee_max * tol_hi + (0 if stage == 'create' else dust * 10)):
        above_only = fpk > fee_max and stage == 'bumpfee'
        ctx.disc('feerate.reported:' + stage, 'reported fee_per_kb %r outside [%d, %d] [request %r]' %
                 (fpk, fee_min, fee_max, rq), case,
                 kf='C07-bumpfee-fee-above-network-maximum' if above_only else None)
        return
    signed = all((i.signatures or i.witnesses) for i in t.inputs)
    if signed:
        vsize = r.vsize()
        real = fee * 1000.0 / vsize
        slack = dust * 1000.0 / vsize
        if real < fee_min * 0.75 or real > fee_max * 1.25 + slack:
            above_only = real > fee_max and stage == 'bumpfee'
            ctx.disc('feerate.real:' + stage, 'real fee rate %.1f sat/kB (fee %d, vsize %d) outside limits [%d, %d] '
                     '+-25%% [request %r]' % (real, fee, vsize, fee_min, fee_max, rq), case,
                     kf='C07-bumpfee-fee-above-network-maximum' if above_only else None)
            return
        ctx.klass('feerate.checked_signed')


def replay(ctx, case):
    run_case(ctx, case)


def probes(ctx):
    saved = ctx.findings
    ctx.findings = {}
    case = {'kind': 'wallet', 'rng': 7,
            'wallet': {'kind': 'hd', 'network': 'bitcoinlib_test', 'witness_type': 'segwit', 'seed': '11' * 16,
                       'm': 1, 'n': 1, 'afs': False},
            'utxos': [{'key': 0, 'value': 10 ** 8, 'conf': 5, 'n': 0}],
            'requests': [{'op': 'send', 'outputs': [{'kind': 'p2pkh', 'payload': '22' * 20, 'own': 0,
                                                     'amount': {'of': 'total', 'num': 1, 'den': 10, 'plus': 0}}],
                          'fee': 5000, 'n_change': 1, 'min_confirms': 1, 'max_utxos': None, 'rbf': True,
                          'sweep_list': False, 'bump': {'mode': 'fee', 'num': 1, 'amount': 10 ** 6}}]}
    try:
        try:
            replay(ctx, case)
            ctx.probe('C07-bumpfee-fee-above-network-maximum', False, '')
        except Discrepancy as d:
            ctx.probe('C07-bumpfee-fee-above-network-maximum', d.bucket.startswith('feerate.'),
                      'bumpfee(fee=...) accepts a fee rate above the network maximum (pinned by '
                      'test_wallet_transactions_bumpfee): %s' % d.message[:120])
    finally:
        ctx.findings = saved


def _strategy(ctx):
    from hypothesis import strategies as st
    from ref import address as raddr

    def amount():
        return st.one_of(amount_frac(), amount_frac(), st.fixed_dictionaries({
            'of': st.sampled_from(['largest', 'confirmed']),
            # (negative: the amount + fee exceeds the reference UTXO by 1 .. just over the dust amount)
            'leave': st.sampled_from([0, 1, 500, 999, 1000, 1001, 1500, 2500, 6000, -1, -200, -999, -1000, -1001])}))

    def amount_frac():
        frac = st.sampled_from([(1, 100), (1, 10), (1, 10), (1, 3), (1, 2), (1, 2), (2, 3), (9, 10), (99, 100),
                                (1, 1), (101, 100), (3, 2)])
        return st.builds(lambda of, f, plus: {'of': of, 'num': f[0], 'den': f[1], 'plus': plus},
                         st.sampled_from(['largest', 'largest', 'confirmed', 'total']), frac,
                         st.sampled_from([0, 0, 1, -1, 1000]))

    @st.composite
    def cases(draw):
        kind = draw(st.sampled_from(['hd', 'hd', 'single', 'ms']))
        testnet = draw(st.sampled_from([True, True, False]))
        if testnet:
            net = 'bitcoinlib_test'
        else:
            net = draw(st.sampled_from(NETS_EXPLICIT))
        default_net = None
        if kind == 'hd' and draw(st.integers(0, 2)) == 0:
            # the wallet's own (default) network is another one - mostly one with other fee-rate limits - and the
            # transactions are made from an account on `net` added afterwards
            default_net, net = draw(st.sampled_from([
                ('testnet', 'bitcoinlib_test'), ('testnet', 'bitcoinlib_test'), ('testnet', 'bitcoin'),
                ('testnet', 'litecoin'), ('bitcoin', 'dogecoin'), ('bitcoinlib_test', 'dogecoin'),
                ('dogecoin', 'bitcoin'), ('dogecoin', 'bitcoinlib_test'), ('bitcoin', 'bitcoinlib_test'),
                ('litecoin', 'bitcoin')]))
            testnet = net == 'bitcoinlib_test'
        wts = ['legacy'] if 'dogecoin' in (net, default_net) else ['legacy', 'segwit', 'p2sh-segwit']
        wt = draw(st.sampled_from(wts))
        n = draw(st.sampled_from([2, 3])) if kind == 'ms' else 1
        m = 2 if kind == 'ms' else 1
        wallet = {'kind': kind, 'network': net, 'witness_type': wt, 'seed': draw(st.binary(min_size=16, max_size=16)).hex(),
                  'm': m, 'n': n, 'afs': testnet and draw(st.booleans())}
        if default_net:
            wallet['default_net'] = default_net
        elif kind == 'hd' and draw(st.integers(0, 3)) == 0:
            wallet['second_account'] = True
        dust = raddr.NETWORKS[net]['dust_amount']
        scale = 100000 if net.startswith('dogecoin') else 1
        value = st.one_of(st.sampled_from([dust - 1, dust, dust + 1, 5000 * scale, 5000 * scale, 100000 * scale,
                                           10 ** 8, 5 * 10 ** 9]), st.integers(1, 10 ** 7 * scale))
        utxos = draw(st.lists(st.fixed_dictionaries({'key': st.integers(0, 3), 'value': value,
                                                     'conf': st.sampled_from([0, 1, 1, 10]),
                                                     'n': st.integers(0, 3),
                                                     'same_tx': st.sampled_from([False, False, True])}),
                              min_size=1, max_size=10))
        okinds = ['p2pkh', 'p2sh'] + ([] if net.startswith('dogecoin') else ['p2wpkh', 'p2wsh', 'p2tr'])

        def out():
            return st.sampled_from(okinds).flatmap(lambda k: st.fixed_dictionaries({
                'kind': st.just(k),
                'payload': st.binary(min_size=32 if k in ('p2wsh', 'p2tr') else 20,
                                     max_size=32 if k in ('p2wsh', 'p2tr') else 20).map(bytes.hex),
                'own': st.sampled_from([0, 0, 0, 1, 2]),
                'amount': amount()}))
        fee_scale = 1000 if net.startswith('dogecoin') else 1
        if testnet:
            fee = st.one_of(st.none(), st.none(), st.sampled_from(['low', 'normal', 'high']),
                            st.sampled_from([0, 500, 5000, 50000, 300000, 400000, 10 ** 7]))
        else:
            fee = st.sampled_from([0, 300, 1000, 5000, 20000, 10 ** 6, 10 ** 8]).map(lambda f: f * fee_scale)
        if default_net:
            # fees whose rate lies between the limits of the two networks (for transactions of 200..500 bytes)
            lim_a, lim_b = raddr.NETWORKS[net], raddr.NETWORKS[default_net]
            gap = []
            if lim_b['fee_max'] > lim_a['fee_max']:
                gap += [lim_a['fee_max'] * k // 1000 for k in (300, 400, 600, 900)]
            if lim_b['fee_min'] < lim_a['fee_min']:
                gap += [lim_a['fee_min'] * k // 1000 for k in (5, 20, 60, 120)]
            if gap:
                fee = st.one_of(fee, st.sampled_from(gap))
        rq = st.fixed_dictionaries({
            'op': st.sampled_from(['create', 'create', 'send', 'send_to', 'sweep']),
            'outputs': st.lists(out(), min_size=1, max_size=3),
            'fee': fee,
            'n_change': st.sampled_from([1, 1, 0, 2, 3]),
            'min_confirms': st.sampled_from([1, 1, 0, 2]),
            'max_utxos': st.sampled_from([None, None, 1, 2]),
            'rbf': st.booleans(),
            'broadcast': st.sampled_from([False, False, True]),
            'sweep_list': st.booleans(),
            'explicit_inputs': st.one_of(st.none(), st.none(), st.none(),
                                         st.lists(st.integers(0, 9), min_size=1, max_size=3)),
            'explicit_form': st.sampled_from(['pair', 'full']),
            'bump': st.one_of(st.none(), st.fixed_dictionaries({'mode': st.sampled_from(['fee', 'extra', 'default', 'rel', 'rel']),
                                                                'num': st.sampled_from([1, 2, 3, 4, 5, 7]),
                                                                'amount': st.sampled_from([1, 500, 5000, 10 ** 6])})),
        })
        steps = st.one_of(rq, rq, rq, st.just({'op': 'utxos_update'})) if testnet else rq
        requests = draw(st.lists(steps, min_size=1, max_size=ctx.scale(5, 7)))
        if testnet and draw(st.integers(0, 3)) == 0:
            # directed start: everything the wallet owns is spent by ONE broadcast transaction (many inputs, also
            # several outputs of one funding transaction), the requests that follow must find nothing of it
            first = dict(draw(rq), op='sweep', broadcast=True, min_confirms=0, max_utxos=None, fee=None, bump=None,
                         sweep_list=False)
            requests = [first] + requests
        return {'kind': 'wallet', 'wallet': wallet, 'utxos': utxos, 'requests': requests,
                'rng': draw(st.integers(0, 2 ** 31))}
    return cases()


def run(ctx):
    def prop(case):
        wc = case['wallet']
        ctx.klass('wallet.%s.%s' % (wc['kind'], wc['witness_type']))
        ctx.klass('net.' + wc['network'])
        from ref import address as raddr
        dust = raddr.NETWORKS[wc['network']]['dust_amount']
        before = dict(ctx.classes)
        run_case(ctx, case)
        gained = [k for k in ('multi_input', 'change_split', 'created.sweep', 'created.bumpfee')
                  if ctx.classes.get(k, 0) > before.get(k, 0)]
        if gained or any(abs(u['value'] - dust) <= 1 for u in case['utxos']):
            ctx.nt(case)
        if len(ctx.samples) < 2 and gained:
            ctx.sample(case)
    ctx.run_given('wallet', _strategy(ctx), prop, ctx.scale(14, 300), shrink=False)
