"""C02 - Transaction.verify() is sound and complete for standard inputs.

Generated: transaction plans + a signing history per input (subset/order/repeats of signers) + at most one
tamper from a finite operator family, applied to the live object or to the serialised bytes.
Oracle: the verdict known by construction (every input has >= m distinct signers and nothing the
signatures commit to was changed), cross-checked by the reference consensus interpreter on the (tampered)
serialisation against the prevout scripts of the plan.
"""
from vlib.core import Discrepancy, HarnessError

LEVEL = 'exploration'
TECHNIQUE = ('Hypothesis signing histories + single-field tamper operators on object and bytes; oracle = verdict by '
             'construction cross-checked with the reference consensus interpreter')
RULE = ('Plans as in C01 (1..3 inputs, all standard kinds, 11 networks); per input a signer list drawn from '
        '{exactly m in any order, m-1, all n, with repeats}; then no tamper (positive case) or one of: output value '
        '+-1, output script byte flip, output added/removed, outpoint hash/index, sequence, locktime, version, input '
        'amount (segwit), signature bit flip / signature of another digest / signature by an outsider key, one '
        'signature removed (optionally padded with a duplicate). Medium: live object or serialised bytes re-parsed '
        '(amounts and p2pk keys re-supplied). Non-trivial = mu[tampers include the two version attributes separately; plans may pass the prevout scriptPubKey as locking_script; raw output scripts with non-minimal pushes] ltisig with m<n and a signer order different from '
        'key order or a partial history, or any tampered case the reference rejects; distinct by case hash. [tampers also: a null-outpoint input appended, the coinbase attribute set together with a changed output value, the hash type byte of one signature changed] [resign_one: after a digest-relevant tamper one input is signed again, verify() must agree with the interpreter] [hts: reference-signed transactions with a hash type per signature, from bytes or as signature objects; cross: signatures over another input\'s digest must not verify]')
ASSUMPTIONS = ['tamper operators are a finite single-field family', 'ref/interp.py consensus rules (no policy)',
               'only listed keys: a P2PKH input built from an address hash and signed with an unrelated key is '
               'not asserted (the library cannot know the prevout)']
SHARDS = {'quick': 16, 'thorough': 16}
WALL_CAP = {'quick': 600, 'thorough': 3000}

OBJ_TAMPERS = ['out_value', 'out_script', 'add_output', 'remove_output', 'outpoint_n', 'outpoint_hash', 'sequence',
               'locktime', 'version', 'in_amount', 'sig_flip', 'sig_outsider', 'sig_other_digest', 'drop_sig',
               'drop_sig_pad', 'version_bytes', 'version_int', 'coinbase_flag_out_value']
RESIGN_TAMPERS = ['out_value', 'out_script', 'add_output', 'remove_output', 'sequence', 'locktime', 'version',
                  'version_bytes']
BYTE_TAMPERS = ['out_value', 'out_script', 'add_output', 'remove_output', 'outpoint_n', 'outpoint_hash', 'sequence',
                'locktime', 'version', 'in_amount', 'sig_flip', 'drop_sig', 'drop_sig_pad', 'add_null_input',
                'sig_hashtype']


def _expected_by_construction(plan):
    for inp in plan['inputs']:
        if len(set(inp['signers'])) < inp['m']:
            return False
    return True


def _sign(t, plan, style='per_input'):
    """per_input: one sign() call per signer, naming the input. keys_no_index: one call per signer without naming an
    input (the key signs whatever it can sign; keys that fit no input are not an error), inputs taken last to first.
    one_call: every signer's key in a single call, same order."""
    from props import txplan
    if style == 'per_input':
        for k, inp in enumerate(plan['inputs']):
            keys = txplan.lib_keys(plan, k)
            for s in inp['signers']:
                t.sign(keys[s], index_n=k)
        return
    handed = []
    for k in reversed(range(len(plan['inputs']))):
        keys = txplan.lib_keys(plan, k)
        handed += [keys[s] for s in plan['inputs'][k]['signers']]
    if style == 'one_call':
        t.sign(handed, fail_on_unknown_key=False)
    else:
        for key in handed:
            t.sign([key], fail_on_unknown_key=False)


def _lib_verify(t):
    try:
        return bool(t.verify()), None
    except Exception as e:
        return False, e


def _ref_verdict(raw, plan, amounts):
    from props import txplan
    from ref import wire, interp
    tx = wire.Tx.parse(raw)
    if len(tx.vin) != len(plan['inputs']):
        return False, 'input count'
    for k, inp in enumerate(plan['inputs']):
        ok, why = interp.verify_input(tx, k, txplan.prevout(inp)['spk'], amounts[k])
        if not ok:
            return False, 'input %d: %s' % (k, why)
    return True, ''


def _save_object(t):
    return {'outputs': list(t.outputs), 'out_fields': [(o.value, o.lock_script) for o in t.outputs],
            'locktime': t.locktime, 'version': t.version, 'version_int': t.version_int, 'coinbase': t.coinbase,
            'inputs': [(i.prev_txid, i.output_n, i.output_n_int, i.sequence, i.value, list(i.signatures))
                       for i in t.inputs]}


def _restore_object(t, s):
    t.outputs[:] = s['outputs']
    for o, (v, ls) in zip(t.outputs, s['out_fields']):
        o.value = v
        o.lock_script = ls
    t.locktime, t.version, t.version_int = s['locktime'], s['version'], s['version_int']
    t.coinbase = s['coinbase']
    for i, (ptx, on, oni, seq, val, sigs) in zip(t.inputs, s['inputs']):
        i.prev_txid, i.output_n, i.output_n_int, i.sequence, i.value = ptx, on, oni, seq, val
        i.signatures[:] = sigs


def _tamper_object(t, plan, tam, amounts):
    """Apply tamper to the signed library object. Returns False if not applicable."""
    from bitcoinlib.keys import Key, sign as lib_sign, Signature
    from bitcoinlib.transactions import Output
    op = tam['op']
    k = tam['i'] % len(t.inputs)
    j = tam['j'] % len(t.outputs)
    inp = plan['inputs'][k]
    li = t.inputs[k]
    if op == 'out_value':
        t.outputs[j].value += 1
    elif op == 'coinbase_flag_out_value':
        # the coinbase attribute is descriptive metadata (set from provider data or when a null outpoint is seen); it
        # is not part of what is signed and cannot stand in for the signatures of inputs that spend real outputs
        t.coinbase = True
        t.outputs[j].value += 1
    elif op == 'out_script':
        ls = bytearray(t.outputs[j].lock_script)
        if not ls:
            return False
        ls[tam['b'] % len(ls)] ^= 1 << (tam['b'] % 8)
        t.outputs[j].lock_script = bytes(ls)
    elif op == 'add_output':
        t.outputs.append(Output(1, lock_script=b'\x76\xa9\x14' + bytes(20) + b'\x88\xac', output_n=len(t.outputs),
                                network=plan['network']))
    elif op == 'remove_output':
        if len(t.outputs) < 2:
            return False
        t.outputs.pop(j)
    elif op == 'outpoint_n':
        n = (li.output_n_int + 1) & 0xffffffff
        li.output_n_int = n
        li.output_n = n.to_bytes(4, 'big')
    elif op == 'outpoint_hash':
        h = bytearray(li.prev_txid)
        h[tam['b'] % 32] ^= 1
        li.prev_txid = bytes(h)
    elif op == 'sequence':
        li.sequence ^= 1
    elif op == 'locktime':
        t.locktime ^= 1
    elif op == 'version':
        v = (t.version_int ^ 1) or 3
        t.version_int = v
        t.version = v.to_bytes(4, 'big')
    elif op == 'version_bytes':
        # the object keeps the version twice; raw() serialises the bytes attribute
        t.version = ((t.version_int ^ 1) or 3).to_bytes(4, 'big')
    elif op == 'version_int':
        # ... and this one alone leaves the serialised transaction as it was signed
        t.version_int = (t.version_int ^ 1) or 3
    elif op == 'in_amount':
        if li.witness_type == 'legacy':
            return False
        li.value += 1
        amounts[k] += 1
    elif op in ('sig_flip', 'sig_outsider', 'sig_other_digest'):
        if not li.signatures:
            return False
        pos = tam['b'] % len(li.signatures)
        old = li.signatures[pos]
        if op == 'sig_flip':
            new = Signature(old.r, old.s ^ (1 << (tam['b'] % 200)), hash_type=old.hash_type,
                            public_key=old.public_key)
        elif op == 'sig_outsider':
            digest = t.signature_hash(k, 1, li.witness_type)
            new = lib_sign(digest, Key(0x7777777 + tam['b'], network=plan['network']), hash_type=1)
            new.public_key = old.public_key
        else:
            digest = bytes(31) + bytes([1 + tam['b'] % 200])
            signer = [d for d in inp['secrets']][0]
            new = lib_sign(digest, Key(signer, network=plan['network'], compressed=inp['compressed']), hash_type=1)
        li.signatures[pos] = new
        li.update_scripts()
    elif op in ('drop_sig', 'drop_sig_pad'):
        if not li.signatures:
            return False
        pos = tam['b'] % len(li.signatures)
        removed = li.signatures.pop(pos)
        if op == 'drop_sig_pad' and li.signatures:
            li.signatures.append(li.signatures[0])
        elif op == 'drop_sig_pad':
            return False
        # leave the serialised scripts as they are in the object: verify() judges .signatures
    else:
        return False
    return True


def _find_sig_items(tx, k):
    """positions of DER signatures in scriptSig items / witness of input k -> list of ('ss'|'wit', index)"""
    from ref import wire
    out = []
    i = tx.vin[k]
    if i.witness:
        for n, w in enumerate(i.witness):
            if len(w) > 8 and w[0] == 0x30:
                out.append(('wit', n))
    else:
        items = [d for op, d in wire.script_iter(i.script_sig)]
        for n, d in enumerate(items):
            if d and len(d) > 8 and d[0] == 0x30 and d[-1] == 1:
                out.append(('ss', n))
    return out


def _rebuild_ss(tx, k, fn):
    from ref import wire
    ops = list(wire.script_iter(tx.vin[k].script_sig))
    items = [(op if d is None else d) for op, d in ops]
    items = fn(items)
    tx.vin[k].script_sig = wire.script_build([it if isinstance(it, int) else it for it in items])


def _tamper_bytes(raw, plan, tam, amounts):
    from ref import wire
    tx = wire.Tx.parse(raw)
    op = tam['op']
    k = tam['i'] % len(tx.vin)
    j = tam['j'] % len(tx.vout)
    if op == 'out_value':
        tx.vout[j].value += 1
    elif op == 'out_script':
        ls = bytearray(tx.vout[j].script)
        if not ls:
            return None
        ls[tam['b'] % len(ls)] ^= 1 << (tam['b'] % 8)
        tx.vout[j].script = bytes(ls)
    elif op == 'add_output':
        tx.vout.append(wire.TxOut(1, b'\x76\xa9\x14' + bytes(20) + b'\x88\xac'))
    elif op == 'remove_output':
        if len(tx.vout) < 2:
            return None
        tx.vout.pop(j)
    elif op == 'add_null_input':
        # one more input, appended, whose outpoint is the null outpoint of a coinbase input: every SIGHASH_ALL
        # signature of the other inputs committed to the input list without it
        tx.vin.append(wire.TxIn(bytes(32), 0xffffffff, bytes([2 + tam['b'] % 3]) + bytes(range(tam['b'] % 3 + 2)),
                                0xffffffff))
    elif op == 'outpoint_n':
        tx.vin[k].prev_n = (tx.vin[k].prev_n + 1) & 0xffffffff
        if tx.vin[k].prev_n == 0xffffffff:
            return None
    elif op == 'outpoint_hash':
        h = bytearray(tx.vin[k].prev_hash)
        h[tam['b'] % 32] ^= 1
        if bytes(h) == bytes(32):
            return None
        tx.vin[k].prev_hash = bytes(h)
    elif op == 'sequence':
        tx.vin[k].sequence ^= 1
    elif op == 'locktime':
        tx.locktime ^= 1
    elif op == 'version':
        tx.version = (tx.version ^ 1) or 3
    elif op == 'in_amount':
        if plan['inputs'][k]['kind'] not in ('p2wpkh', 'p2sh_p2wpkh', 'p2wsh_ms', 'p2sh_p2wsh_ms'):
            return None
        amounts[k] += 1
    elif op in ('sig_flip', 'drop_sig', 'drop_sig_pad', 'sig_hashtype'):
        sigs = _find_sig_items(tx, k)
        if not sigs:
            return None
        where, n = sigs[tam['b'] % len(sigs)]
        if op == 'sig_hashtype':
            # the hash type byte appended to the signature is changed: the signature was made for SIGHASH_ALL and
            # commits to another digest than the one the new type selects
            def retype(b):
                return bytes(b[:-1]) + bytes([[0x02, 0x03, 0x81, 0x82, 0x83, 0x00, 0x41, 0x04][tam['b'] % 8]])
            if where == 'wit':
                tx.vin[k].witness[n] = retype(tx.vin[k].witness[n])
            else:
                _rebuild_ss(tx, k, lambda items: [retype(it) if idx == n else it for idx, it in enumerate(items)])
        elif op == 'sig_flip':
            def flip(b):
                b = bytearray(b)
                # flip a bit inside s (last 8 bytes before the hash-type byte) keeping DER shape
                b[-2 - (tam['b'] % 8)] ^= 1 << (tam['b'] % 7)
                return bytes(b)
            if where == 'wit':
                tx.vin[k].witness[n] = flip(tx.vin[k].witness[n])
            else:
                _rebuild_ss(tx, k, lambda items: [flip(it) if idx == n else it for idx, it in enumerate(items)])
        else:
            first = sigs[0][1]
            if where == 'wit':
                w = list(tx.vin[k].witness)
                dup = w[first]
                w.pop(n)
                if op == 'drop_sig_pad':
                    if len(sigs) < 2:
                        return None
                    keep = [x for x in sigs if x[1] != n][0][1]
                    w.insert(n, tx.vin[k].witness[keep])
                tx.vin[k].witness = w
            else:
                def drop(items):
                    items = list(items)
                    if op == 'drop_sig_pad':
                        if len(sigs) < 2:
                            return items
                        keep = [x for x in sigs if x[1] != n][0][1]
                        items[n] = items[keep]
                    else:
                        items.pop(n)
                    return items
                _rebuild_ss(tx, k, drop)
    else:
        return None
    out = tx.serialize()
    return out if out != raw or op == 'in_amount' else None


def _parse_for_verify(raw, plan, amounts):
    from bitcoinlib.transactions import Transaction
    from bitcoinlib.keys import Key
    from props import txplan
    t = Transaction.parse(raw, network=plan['network'])
    for k, inp in enumerate(plan['inputs']):
        if k >= len(t.inputs):
            break
        t.inputs[k].value = amounts[k]
        if inp['kind'] == 'p2pk' and not t.inputs[k].keys:
            t.inputs[k].keys = [Key(txplan.pub_bytes(inp['secrets'][0], inp['compressed']).hex(),
                                    network=plan['network'])]
            t.inputs[k].update_scripts()
    return t


def check(ctx, case):
    from props import txplan
    plan = case['plan']
    if case.get('sign_style', 'per_input') not in ('per_input', 'handoff') and \
            any(i.get('keyless') for i in plan['inputs']):
        # an input that is known by its address only takes whatever keys a sign() call offers as its own (documented:
        # "if input does not contain any keys, try using provided keys"): keys of other inputs may not be offered to it
        case = dict(case, sign_style='per_input')
        ctx.klass('sign_style.per_input_forced_by_keyless_input')
    if case.get('sign_style', 'per_input') not in ('per_input', 'handoff'):
        # keys handed over without naming an input are offered to every input: a key that also belongs to another
        # input signs there as well
        from copy import deepcopy
        plan = deepcopy(plan)
        offered = set(i['secrets'][s_] for i in plan['inputs'] for s_ in i['signers'])
        for i in plan['inputs']:
            i['signers'] = list(i['signers']) + [j for j, sec in enumerate(i['secrets'])
                                                 if sec in offered and j not in i['signers']]
    tam = case.get('tamper')
    medium = case.get('medium', 'object')
    amounts = [i['value'] for i in plan['inputs']]
    expected = _expected_by_construction(plan)
    try:
        t = txplan.realise(plan)
        if case.get('null_input'):
            # one more input with the null outpoint (what a coinbase input has), present BEFORE signing so that every
            # signature commits to it; it carries no signature itself and a transaction with other inputs is no
            # coinbase transaction: whoever signed the rest, this transaction does not verify
            t.add_input('00' * 32, 0xffffffff if case['null_input'] == 'coinbase_n' else 0, value=50000)
        if case.get('sign_style') == 'handoff' and not case.get('null_input'):
            # the first signer of every multisig input signs a copy; its signature travels as data (hex) into a new
            # transaction object, where the remaining signers sign without anything else happening in between
            ta = txplan.realise(plan, allow_keyless=False)
            carried = {}
            for k, inp in enumerate(plan['inputs']):
                if inp['kind'].endswith('_ms') and len(inp['signers']) >= 2:
                    ta.sign(txplan.lib_keys(plan, k)[inp['signers'][0]], index_n=k)
                    carried[k] = [sg.as_der_encoded().hex() for sg in ta.inputs[k].signatures]
            t = txplan.realise(plan, allow_keyless=False, signatures=carried)
            for k, inp in enumerate(plan['inputs']):
                keys_k = txplan.lib_keys(plan, k)
                for s_ in (inp['signers'][1:] if k in carried else inp['signers']):
                    t.sign(keys_k[s_], index_n=k)
            if carried:
                ctx.klass('sign_style.handoff_signatures_as_data')
        else:
            _sign(t, plan, case.get('sign_style', 'per_input'))
        raw = t.raw()
        if case.get('null_input'):
            ctx.klass('null_input.' + case['null_input'])
            got, exc = _lib_verify(t)
            if got:
                raise Discrepancy('sound.null_input:object', 'verify() True for a transaction whose input %d has the '
                                  'null outpoint and no signature (the other inputs are signed)' %
                                  len(plan['inputs']), case)
            try:
                t2 = _parse_for_verify(raw, plan, amounts)
                got2, exc2 = _lib_verify(t2)
            except Exception as e:
                ctx.refusal('null_input.parse.%s' % type(e).__name__)
                return
            if got2:
                raise Discrepancy('sound.null_input:bytes', 'verify() True after parsing a transaction whose input %d '
                                  'has the null outpoint and no signature' % len(plan['inputs']), case)
            return
    except Discrepancy:
        raise
    except Exception as e:
        if case.get('null_input'):
            # (refusing to sign a transaction that has such an input is an answer too)
            ctx.refusal('null_input.sign.%s' % type(e).__name__)
            return
        if not expected:
            ctx.refusal('sign_partial.%s' % type(e).__name__)
            return
        raise Discrepancy('sign.raises', 'building/signing raised %r' % e, case)

    kinds = '+'.join(sorted(set(i['kind'] for i in plan['inputs'])))
    if tam is None:
        # ---- positive / partial-history case --------------------------------------------------------
        try:
            ref_ok, why = _ref_verdict(raw, plan, amounts)
        except Exception as e:
            ref_ok, why = False, 'unparseable: %r' % e
        if medium == 'object':
            got, exc = _lib_verify(t)
        else:
            try:
                t2 = _parse_for_verify(raw, plan, amounts)
            except Exception as e:
                if expected:
                    raise Discrepancy('complete.parse.raises', 'parse of own serialisation raised %r' % e, case)
                ctx.refusal('parse_partial.%s' % type(e).__name__)
                return
            got, exc = _lib_verify(t2)
        if expected:
            if not ref_ok:
                ctx.disc('complete.ref_rejects', 'fully signed transaction rejected by the consensus interpreter: %s' %
                         why, case)
                return
            if not got:
                ctx.disc('complete.verify_false:%s:%s' % (medium, kinds),
                         'verify() is %r (%r) on a correctly and sufficiently signed transaction (%s)' %
                         (got, exc, medium), case)
            return
        # fewer than m distinct signers somewhere
        if got:
            ctx.disc('sound.partial_accepted:%s:%s' % (medium, kinds),
                     'verify() True although an input has fewer than m distinct signers (%s); reference says: %s' %
                     (medium, why), case)
        return

    # ---- tampered case (only on fully signed transactions) -----------------------------------------
    if not expected:
        ctx.klass('tamper.skipped_partial')
        return
    if medium == 'object':
        if case.get('verify_first'):
            first, _ = _lib_verify(t)
            ctx.klass('tamper.after_successful_verify' if first else 'tamper.after_failed_verify')
        saved = _save_object(t)
        amounts0 = list(amounts)
        try:
            applied = _tamper_object(t, plan, tam, amounts)
        except Exception as e:
            ctx.refusal('tamper_object.%s' % type(e).__name__)
            return
        if not applied:
            ctx.klass('tamper.not_applicable')
            return
        if case.get('resign_one') is not None and tam['op'] in RESIGN_TAMPERS:
            # after the change ONE input is signed again (its signers replace their signatures): with one input the
            # transaction is correctly signed again, with several the other inputs still carry signatures for the
            # old version - either way verify() has to agree with the interpreter on what the object serialises to
            k2 = case['resign_one'] % len(plan['inputs'])
            try:
                keys2 = txplan.lib_keys(plan, k2)
                for s_ in plan['inputs'][k2]['signers']:
                    t.sign(keys2[s_], index_n=k2, replace_signatures=True)
                raw_r = t.raw()
            except Exception as e:
                ctx.refusal('resign_one.%s' % type(e).__name__)
                return
            got, exc = _lib_verify(t)
            try:
                ref_ok, why = _ref_verdict(raw_r, plan, amounts)
            except Exception as e:
                ref_ok, why = False, 'unparseable %r' % e
            ctx.klass('tamper.resign_one.' + ('valid_again' if ref_ok else 'others_stale'))
            if bool(got) != ref_ok:
                ctx.disc('resign_one.verify_%s_consensus_%s:%s' % (bool(got), ref_ok, tam['op']),
                         'after tamper %s input %d was signed again (replace_signatures): verify() -> %r (%r), the '
                         'consensus interpreter on the serialised transaction says %s %s (%s)' %
                         (tam['op'], k2, got, exc, 'valid' if ref_ok else 'invalid:', why, kinds), case)
            return
        got, exc = _lib_verify(t)
        raw2_pre = None
        if case.get('restore'):
            try:
                raw2_pre = t.raw()
            except Exception as e:
                raw2_pre = e
            # the modification is taken back: the object is again the correctly signed transaction it was and must
            # verify, whatever verdict it was given in between
            amounts_t = list(amounts)
            try:
                _restore_object(t, saved)
                amounts[:] = amounts0
                same = t.raw() == raw
            except Exception as e:
                same = False
            if same:
                ctx.klass('tamper.restored')
                again, exc2 = _lib_verify(t)
                if not again:
                    ctx.disc('complete.verify_false:after_restore:%s' % kinds, 'verify() False (%r) on the correctly '
                             'signed transaction after tamper %s had been applied, judged (%r) and taken back '
                             '(the object serialises to the original bytes again)' % (exc2, tam['op'], got), case)
                    return
        # reference verdict on what the tampered object serialises to (sig list tampers do not change bytes)
        try:
            if isinstance(raw2_pre, Exception):
                raise raw2_pre
            raw2 = raw2_pre if raw2_pre is not None else t.raw()
            # (amounts as they were while the object was tampered)
            ref_ok, why = _ref_verdict(raw2, plan, amounts_t if raw2_pre is not None else amounts)
        except Exception as e:
            ref_ok, why = False, 'unserialisable: %r' % e
        k_t = tam['i'] % len(plan['inputs'])
        spare = len(set(plan['inputs'][k_t]['signers'])) - plan['inputs'][k_t]['m']
        if tam['op'] in ('drop_sig', 'drop_sig_pad', 'sig_flip', 'sig_outsider', 'sig_other_digest') and spare > 0:
            # more than m cosigners signed: losing / corrupting one signature can leave m valid ones
            ctx.klass('tamper.surplus_signatures')
            return
        if tam['op'] in ('drop_sig', 'drop_sig_pad', 'sig_flip', 'sig_outsider', 'sig_other_digest'):
            # by construction the object's signature list no longer holds m valid signatures by distinct listed
            # keys over this input's digest (the serialised scripts may be stale; verify() judges .signatures)
            ref_ok, why = False, 'signature list of the object corrupted / reduced below m'
    else:
        raw2 = _tamper_bytes(raw, plan, tam, amounts)
        if raw2 is None:
            ctx.klass('tamper.not_applicable')
            return
        try:
            ref_ok, why = _ref_verdict(raw2, plan, amounts)
        except Exception as e:
            ref_ok, why = False, 'unparseable %r' % e
        try:
            t2 = _parse_for_verify(raw2, plan, amounts)
            got, exc = _lib_verify(t2)
        except Exception as e:
            got, exc = False, e
    if ref_ok:
        ctx.klass('tamper.noop_for_reference')
        if tam['op'] == 'version_int' and not got:
            ctx.disc('complete.verify_false:unchanged_bytes', 'verify() False after setting only version_int: the '
                     'transaction still serialises to the signed bytes, which the consensus interpreter accepts (%s)'
                     % kinds, case)
        return
    ctx.klass('tamper.effective.' + tam['op'])
    if got:
        ctx.disc('sound.tamper_accepted:%s:%s' % (tam['op'], medium),
                 'verify() True after tamper %s on %s (%s); consensus interpreter rejects: %s' %
                 (tam['op'], medium, kinds, why), case)


def check_dup(ctx, case):
    """Directed class: a P2SH multisig whose redeem script lists the same key twice. One valid signature must not
    be counted for both positions."""
    from ref import wire, ec, sighash, interp
    from ref import address as raddr
    from ref.hashes import hash160
    from bitcoinlib.transactions import Transaction
    d = int(case['secret'], 16)
    d2 = int(case['secret2'], 16)
    pa = ec.ser_compressed(ec.pubkey(d))
    pb = ec.ser_compressed(ec.pubkey(d2))
    keys = {'AA': [pa, pa], 'AAB': [pa, pa, pb], 'ABA': [pa, pb, pa]}[case['shape']]
    m = 2
    redeem = raddr.script_multisig(m, keys)
    spk = raddr.script_p2sh(hash160(redeem))
    tx = wire.Tx(2, [wire.TxIn(bytes.fromhex(case['prev']), 0, b'', 0xfffffffd)],
                 [wire.TxOut(5000, raddr.script_p2pkh(b'\x11' * 20))], 0)
    dg = sighash.legacy_sighash(tx, 0, redeem, 1)
    r, s_ = ec.sign(dg, d)
    good = ec.der_encode(r, s_) + b'\x01'
    r2, s2 = ec.sign(bytes(31) + b'\x09', d)
    junk = ec.der_encode(r2, s2) + b'\x01'
    sigs = {'good+junk': [good, junk], 'junk+good': [junk, good], 'good+good': [good, good]}[case['sigs']]
    tx.vin[0].script_sig = wire.script_build([0] + sigs + [redeem])
    ref_ok, why = interp.verify_input(tx, 0, spk, 10000)
    try:
        t = Transaction.parse(tx.serialize())
        t.inputs[0].value = 10000
        got = bool(t.verify())
    except Exception as e:
        got = False
    if got and not ref_ok:
        ctx.disc('sound.duplicate_key_counted_twice',
                 'redeem script lists a key twice (%s), signatures %s: verify() True, consensus rejects (%s)' %
                 (case['shape'], case['sigs'], why), case, kf='C02-duplicate-key-one-signature-counted-twice')
    elif ref_ok and not got:
        ctx.klass('dup.valid_refused')


def _sigs_of_input(tx, k, inp):
    """DER+hash type signatures of input k of a reference-signed transaction, in the order they are carried."""
    if inp['kind'] in ('p2wpkh', 'p2sh_p2wpkh'):
        return [tx.vin[k].witness[0]]
    if inp['kind'] in ('p2wsh_ms', 'p2sh_p2wsh_ms'):
        return list(tx.vin[k].witness[1:-1])
    return [it for (where, n), it in zip(_find_sig_items(tx, k), [None] * 99)] or []


def check_hashtypes(ctx, case):
    """Transactions signed by the reference signer with a hash type of its own for every signature (SIGHASH_ALL on
    legacy inputs, any of 01 02 03 81 82 83 on witness inputs: the library implements BIP143 for all of them), read by
    the library from bytes or handed to it as signature objects (add_input(signatures=...)): verify() is True. Variant
    'cross': the signatures of a later input are made over the digest of an EARLIER input - every signature is a good
    signature of its key, but not over its own input's digest: verify() is False.
    case: kind=hts, plan, hts {input: [types]}, medium bytes|object, cross: None | [later, earlier]"""
    from props import txplan
    from props.c01_sighash import _ref_signed_tx
    from ref import interp
    plan = case['plan']
    if case.get('medium') == 'object' and plan['version'] == 1 and \
            any(0 < i['seq'] < 0x80000000 for i in plan['inputs']):
        # (add_input raises the version of a version 1 transaction to 2 when an input carries a relative lock time:
        # the transaction that is signed is the one the library object will be)
        plan = dict(plan, version=2)
    n_in = len(plan['inputs'])
    hts = {}
    for k, inp in enumerate(plan['inputs']):
        lst = (case.get('hts') or {}).get(str(k)) or []
        hts[k] = [h if inp['kind'] in txplan.SEGWIT_KINDS else 1 for h in lst]
    cross = case.get('cross')
    digest_of = None
    if cross and n_in >= 2:
        later, earlier = sorted(set(x % n_in for x in cross))[-1], sorted(set(x % n_in for x in cross))[0]
        if later != earlier:
            digest_of = {later: earlier}
    amounts = [i['value'] for i in plan['inputs']]
    try:
        rtx = _ref_signed_tx(plan, hash_types=hts, digest_of=digest_of)
        raw = rtx.serialize()
        ref_ok, why = _ref_verdict(raw, plan, amounts)
    except Exception as e:
        raise HarnessError('reference signer failed: %r' % e)
    if digest_of is None and not ref_ok:
        raise HarnessError('reference-signed transaction rejected by the reference interpreter: %s' % why)
    if digest_of is not None and ref_ok:
        ctx.klass('hts.cross_still_valid')        # (same digest: e.g. equal inputs) nothing to learn
        return
    kinds = '+'.join(sorted(set(i['kind'] for i in plan['inputs'])))
    try:
        if case.get('medium') == 'object':
            from bitcoinlib.transactions import Transaction
            from bitcoinlib.keys import Key
            segwit = any(i['kind'] in txplan.SEGWIT_KINDS for i in plan['inputs'])
            t = Transaction(network=plan['network'], version=plan['version'], locktime=plan['locktime'],
                            witness_type='segwit' if segwit else 'legacy')
            for k, inp in enumerate(plan['inputs']):
                keys = [Key(txplan.pub_bytes(d, inp['compressed']).hex(), network=plan['network'])
                        for d in inp['secrets']]
                if inp['kind'] in txplan.SEGWIT_KINDS:
                    sigs = _sigs_of_input(rtx, k, inp)
                else:
                    sigs = [rtx_item for rtx_item in _legacy_sig_items(rtx, k)]
                t.add_input(prev_txid=inp['prev'], output_n=inp['n'], keys=keys, signatures=sigs,
                            script_type=txplan.lib_script_type(inp),
                            sigs_required=inp['m'] if inp['kind'] in txplan.MS_KINDS else None,
                            sort=bool(inp.get('sort')), sequence=inp['seq'], compressed=inp['compressed'],
                            value=inp['value'], witness_type=txplan.lib_witness_type(inp))
            for o in plan['outputs']:
                t.add_output(o['value'], lock_script=txplan.output_script(o))
        else:
            t = _parse_for_verify(raw, plan, amounts)
        got, exc = _lib_verify(t)
    except Exception as e:
        if digest_of is not None:
            ctx.refusal('hts.build.%s' % type(e).__name__)
            return
        raise Discrepancy('hts.build.raises:%s' % case.get('medium'), 'building / parsing the reference-signed '
                          'transaction raised %r (%s)' % (e, kinds), case)
    types = sorted(set(h for l in hts.values() for h in l))
    ctx.klass('hts.%s.%s' % (case.get('medium'), 'cross' if digest_of else 'valid'))
    if any(h != 1 for h in types):
        ctx.klass('hts.other_than_all')
    if digest_of is None and not got:
        ctx.disc('hts.verify_false:%s' % case.get('medium'), 'verify() is %r (%r) on a transaction whose every signature '
                 'is valid for the digest its own hash type selects (hash types %r per input, %s)' %
                 (got, exc, hts, kinds), case)
    elif digest_of is not None and got:
        ctx.disc('hts.cross_accepted:%s' % case.get('medium'), 'verify() True although the signatures of input %d were '
                 'made over the digest of input %d (hash types %r, %s); consensus interpreter: %s' %
                 (list(digest_of)[0], list(digest_of.values())[0], hts, kinds, why), case)


def _legacy_sig_items(tx, k):
    from ref import wire
    items = []
    for op, data in wire.script_iter(tx.vin[k].script_sig):
        if data is not None and len(data) >= 9 and data[:1] == b'\x30':
            items.append(bytes(data))
    return items



def check_craft(ctx, case):
    """Spends of script-hash outputs whose committed script is NOT an m-of-n multisig script but is presented in the
    shape of a multisig spend (empty item, signature, script): whatever the library makes of the shape, verify() may
    say True only if the consensus interpreter accepts the spend of that script."""
    from ref import wire, interp, ec
    from ref import address as raddr
    from ref.hashes import hash160, sha256
    from ref import sighash as rsig
    from bitcoinlib.transactions import Transaction
    pub = ec.ser_compressed(ec.pubkey(case['d']))
    pub2 = ec.ser_compressed(ec.pubkey(case['d'] + 1))
    shape = case['script']
    script = {'p2pk': wire.push_data(pub) + b'\xac',
              'reserved_of_1': b'\x50' + wire.push_data(pub) + b'\x51\xae',
              'key_first': wire.push_data(pub) + b'\x51\xae',
              'p2pkh': b'\x76\xa9' + wire.push_data(hash160(pub)) + b'\x88\xac',
              'csv_p2pk': b'\x51\xb2\x75' + wire.push_data(pub) + b'\xac',
              'two_keys_no_count': wire.push_data(pub) + wire.push_data(pub2) + b'\x52\xae',
              'op17_of_1': b'\x61' + wire.push_data(pub) + b'\x51\xae'}[shape]
    medium = case['medium']
    amount = case['amount']
    prev = bytes.fromhex(case['prev'])
    outs = [wire.TxOut(amount - 1000, bytes.fromhex('0014' + 'cd' * 20))]
    if medium == 'p2wsh':
        spk = raddr.script_p2wsh(sha256(script))
        tx = wire.Tx(2, [wire.TxIn(prev, 0, b'', 0xffffffff, [b'', b'', script])], outs, 0)
        digest = rsig.bip143_sighash(tx, 0, script, amount, 1)
    else:
        spk = raddr.script_p2sh(hash160(script))
        tx = wire.Tx(1, [wire.TxIn(prev, 0, b'')], outs, 0)
        digest = rsig.legacy_sighash(tx, 0, script, 1)
    if case['sig'] == 'valid':
        r, s_ = ec.sign(digest, case['d'])
    else:
        r, s_ = ec.sign(sha256(b'another message' + bytes([case['d'] & 0xff])), case['d'] + 7)
    sig = ec.der_encode(r, s_) + b'\x01'
    items = [b'', sig] + ([pub] if case.get('with_key') else []) + [script]
    if medium == 'p2wsh':
        tx.vin[0].witness = items
    else:
        tx.vin[0].script_sig = wire.script_build([0 if it == b'' else it for it in items])
    raw = tx.serialize()
    ref_ok, why = interp.verify_input(tx, 0, spk, amount)
    ctx.klass('craft.%s.%s.%s' % (medium, shape, case['sig']))
    ctx.klass('craft.reference_' + ('accepts' if ref_ok else 'rejects'))
    try:
        t = Transaction.parse(raw, strict=False)
        t.inputs[0].value = amount
    except Exception as e:
        ctx.refusal('craft.parse.%s' % type(e).__name__)
        return
    got, exc = _lib_verify(t)
    if exc is not None:
        ctx.refusal('craft.verify.%s' % type(exc).__name__)
    # (the statement speaks of signatures, not of the other conditions a script may carry: only a spend whose ONE
    # signature is valid for none of the keys is judged - no signature requirement can be met by it)
    if got and not ref_ok and case['sig'] == 'junk':
        try:
            sr = t.inputs[0].sigs_required
        except Exception:
            sr = '?'
        raise Discrepancy('craft.accepted_invalid:%s:%s' % (medium, shape),
                          'verify() True for a %s spend of the script %s presented as (empty, %s signature%s, script); '
                          'the consensus interpreter rejects it: %s (library: script type %r, signatures required %r)' %
                          (medium, script.hex(), case['sig'], ', key' if case.get('with_key') else '', why,
                           getattr(t.inputs[0], 'script_type', '?'), sr), case)


def replay(ctx, case):
    if case.get('kind') == 'dup':
        check_dup(ctx, case)
    elif case.get('kind') == 'hts':
        check_hashtypes(ctx, case)
    elif case.get('kind') == 'craft':
        check_craft(ctx, case)
    else:
        check(ctx, case)


def _strategy(ctx):
    from hypothesis import strategies as st
    from props import txplan

    @st.composite
    def cases(draw):
        plan = draw(txplan.plans(max_inputs=3, max_outputs=3, max_keys=ctx.scale(4, 5)))
        mode = draw(st.sampled_from(['exact', 'exact', 'exact', 'all', 'repeat', 'partial']))
        for inp in plan['inputs']:
            n = len(inp['secrets'])
            m = inp['m']
            perm = draw(st.permutations(list(range(n))))
            if mode == 'exact':
                inp['signers'] = list(perm[:m])
            elif mode == 'all':
                inp['signers'] = list(perm)
            elif mode == 'repeat':
                base = list(perm[:m])
                inp['signers'] = base + [base[0]]
            else:
                inp['signers'] = list(perm[:m - 1]) + ([perm[0]] if m > 1 and draw(st.booleans()) else [])
        if mode == 'partial':
            # make sure at least one input really is short of signers; others may be complete
            pass
        tamper = None
        medium = draw(st.sampled_from(['object', 'bytes']))
        if mode != 'partial' and draw(st.integers(0, 3)) != 0:
            ops = OBJ_TAMPERS if medium == 'object' else BYTE_TAMPERS
            tamper = {'op': draw(st.sampled_from(ops)), 'i': draw(st.integers(0, 7)), 'j': draw(st.integers(0, 7)),
                      'b': draw(st.integers(0, 255))}
        return {'kind': 'verify', 'plan': plan, 'mode': mode, 'tamper': tamper, 'medium': medium,
                # the object is (successfully) verified once before it is tampered with: verdicts may not be remembered
                'verify_first': draw(st.booleans()), 'restore': draw(st.sampled_from([False, False, True])),
                'resign_one': draw(st.sampled_from([None, None, 0, 1, 2])),
                'sign_style': draw(st.sampled_from(['per_input', 'per_input', 'keys_no_index', 'one_call', 'handoff'])),
                'null_input': draw(st.sampled_from([None] * 8 + ['n0', 'coinbase_n'])) if mode != 'partial' else None}
    return cases()


def run(ctx):
    def prop(case):
        plan = case['plan']
        ms_partial = any(i['kind'].endswith('_ms') and i['m'] < len(i['secrets']) and
                         (i['signers'] != sorted(i['signers']) or len(set(i['signers'])) < i['m'])
                         for i in plan['inputs'])
        if case['tamper'] is not None or ms_partial:
            ctx.nt(case)
        ctx.klass('mode.' + case['mode'])
        ctx.klass('medium.' + case['medium'])
        ctx.klass('tamper.' + (case['tamper']['op'] if case['tamper'] else 'none'))
        if len(ctx.samples) < 3 and case['tamper']:
            ctx.sample(case)
        check(ctx, case)

    ctx.run_given('verify', _strategy(ctx), prop, ctx.scale(150, 3000))

    from hypothesis import strategies as hst
    from props import txplan as _tp

    @hst.composite
    def hts_cases(draw):
        plan = draw(_tp.plans(max_inputs=3, max_outputs=2, max_keys=3))
        for inp in plan['inputs']:
            perm = draw(hst.permutations(list(range(len(inp['secrets'])))))
            inp['signers'] = list(perm[:inp['m']])
        hts = {}
        for k, inp in enumerate(plan['inputs']):
            hts[str(k)] = draw(hst.lists(hst.sampled_from([1, 1, 2, 3, 0x81, 0x82, 0x83]), min_size=inp['m'],
                                         max_size=inp['m']))
        return {'kind': 'hts', 'plan': plan, 'hts': hts, 'medium': draw(hst.sampled_from(['bytes', 'object'])),
                'cross': draw(hst.one_of(hst.none(), hst.lists(hst.integers(0, 2), min_size=2, max_size=2)))}

    def prop_hts(case):
        ctx.nt(case)
        check_hashtypes(ctx, case)
    ctx.run_given('hashtypes', hts_cases(), prop_hts, ctx.scale(40, 1500))

    from hypothesis import strategies as st
    from vlib import gen
    dup = st.fixed_dictionaries({'kind': st.just('dup'), 'secret': gen.secrets().map(lambda v: '%064x' % v),
                                 'secret2': gen.secrets().map(lambda v: '%064x' % v),
                                 'shape': st.sampled_from(['AA', 'AAB', 'ABA']),
                                 'sigs': st.sampled_from(['good+junk', 'junk+good', 'good+good']),
                                 'prev': st.binary(min_size=32, max_size=32).filter(lambda b: b != bytes(32)).map(bytes.hex)})

    def prop_dup(case):
        ctx.nt(('dup', case['shape'], case['sigs'], case['secret']))
        ctx.klass('dup.' + case['shape'] + '.' + case['sigs'])
        check_dup(ctx, case)
    ctx.run_given('dup', dup.filter(lambda c: c['secret'] != c['secret2']), prop_dup, ctx.scale(12, 200))

    craft = st.fixed_dictionaries({
        'kind': st.just('craft'), 'd': st.integers(2, 2 ** 200),
        'script': st.sampled_from(['p2pk', 'reserved_of_1', 'key_first', 'p2pkh', 'csv_p2pk', 'two_keys_no_count',
                                   'op17_of_1']),
        'medium': st.sampled_from(['p2wsh', 'p2wsh', 'p2sh']), 'sig': st.sampled_from(['junk', 'junk', 'valid']),
        'with_key': st.booleans(), 'amount': st.integers(10000, 10 ** 9),
        'prev': st.binary(min_size=32, max_size=32).filter(lambda b: b != bytes(32)).map(bytes.hex)})

    def prop_craft(case):
        ctx.nt(('craft', case['script'], case['medium'], case['sig'], case['with_key'], case['d']))
        check_craft(ctx, case)
    ctx.run_given('craft', craft, prop_craft, ctx.scale(20, 600))
