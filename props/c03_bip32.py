"""C03 - HD key derivation conforms to BIP32; public and private derivation agree; a hardened child can
never be obtained from a public-only parent.

Oracle: ref/bip32 (CKDpriv, serialisation) + ref/base58 + pinned extended-key version table (ref/address).
The library is never compared with itself: every node the library returns is compared field by field with
the node the reference derives from the same root and the same list of integer indices.
"""
from vlib.core import Discrepancy

LEVEL = 'exploration'
TECHNIQUE = 'Hypothesis-generated (root, path, split) plans, differential against ref/bip32; refusal clause checked on public-only parents'
RULE = ('root = seed of 16..64 bytes (bytes or hex string), or HDKey(key=, chain=) with leading-zero secret/chain, or a '
        'reference-serialised xprv at arbitrary depth; path depth 0..8 (thorough ..12), indices from {0,1,2^31-1,uniform}, '
        "hardened flag spelled with one of ' h H p P, passed as string / list / child_private steps, prefix ''/m; "
        'a split point j where the private parent is replaced by a public-only key (.public(), imported reference xpub, '
        "or the 'M/' prefix) after which the tail is derived publicly (non-hardened tail: must equal the neutered "
        'reference node; hardened element in the tail: must raise through subkey_for_path, child_public, child_private); '
        'numeric indices in [2^31, 2^32) on private and public keys. Non-trivial = depth >= 2 with at least one hardened '
        'and one boundary index (0, 1, 2^31-1), or a split point strictly inside the path, or a hardened request on a '
        'public-only key, or a numeric index >= 2^31; distinct by (root, path, split, styles).'
        ' [list paths are asked a second time with the same object; a tail object serves the private parent and then the public-only parent repeatedly]')
ASSUMPTIONS = ['ref/bip32.py and ref/ec.py implement BIP32 / secp256k1 correctly (self-tested against BIP32 vectors 1-3 in '
               'ref/selftest.py)',
               'the BIP32 branches IL >= n and child key = 0 (probability ~2^-127) are not reachable by search',
               'only compressed keys are derived (uncompressed extended keys are non-standard and warned about by the library)',
               'extended-key version bytes are taken from ref/networks_pinned.json']
SHARDS = {'quick': 16, 'thorough': 16}
WALL_CAP = {'quick': 600, 'thorough': 3000}

HARD = 0x80000000
MARKERS = "'hHpP"
BOUNDARY = (0, 1, HARD - 1)

KF_MARKER = 'C03-hardened-marker-ignored-on-public-key'
KF_CHILDPUB = 'C03-child-public-accepts-index-2^31'
KF_NUMERIC = 'C03-numeric-index-ge-2^31-derived-unhardened'
KF_SEEDHEX = 'C03-seed-bytes-of-ascii-hex-reinterpreted'


def _lib():
    import bitcoinlib.keys as K
    return K


# ---- reference side -----------------------------------------------------------------------------------

def _versions(case):
    from ref import address
    net, wt, ms = case['network'], case['witness_type'], case['multisig']
    return address.xkey_version(net, True, wt, ms), address.xkey_version(net, False, wt, ms)


def _ref_root(case):
    from ref import bip32, ec
    r = case['root']
    if r['mode'] == 'seed':
        return bip32.master(bytes.fromhex(r['seed']))
    sec = int(r['secret'], 16)
    chain = bytes.fromhex(r['chain'])
    if r['mode'] == 'key':
        return bip32.XKey(sec, ec.pubkey(sec), chain)
    return bip32.XKey(sec, ec.pubkey(sec), chain, r['depth'], bytes.fromhex(r['fp']), r['child'])


def _ref_nodes(root, path):
    from ref import bip32
    nodes = [root]
    for idx, hard, _m in path:
        nodes.append(bip32.ckd_priv(nodes[-1], idx | HARD if hard else idx))
    return nodes


def _pubdata_child(node, index):
    """NOT BIP32: the child obtained when CKD is fed the *public* serialisation for an index >= 2^31 (what the
    library does for numeric indices). Only used to recognise the exact wrong observation of a finding."""
    from ref import bip32, ec
    from ref.hashes import hmac_sha512
    i = hmac_sha512(node.chain, node.pub + index.to_bytes(4, 'big'))
    il = int.from_bytes(i[:32], 'big')
    pt = ec.add(ec.mul(il, ec.G), node.point)
    sec = (il + node.secret) % ec.N if node.secret is not None else None
    return bip32.XKey(sec, pt, i[32:], node.depth + 1, node.fingerprint(), index)


# ---- library side -------------------------------------------------------------------------------------

def _lib_root(case):
    K = _lib()
    r = case['root']
    net, wt, ms = case['network'], case['witness_type'], case['multisig']
    if r['mode'] == 'seed':
        seed = bytes.fromhex(r['seed'])
        arg = r['seed'] if r.get('as') == 'hex' else seed
        return K.HDKey.from_seed(arg, network=net, witness_type=wt, multisig=ms)
    if r['mode'] == 'key':
        return K.HDKey(key=bytes.fromhex(r['secret']), chain=bytes.fromhex(r['chain']), network=net, witness_type=wt,
                       multisig=ms)
    prv, _pub = _versions(case)
    return K.HDKey(_ref_root(case).xkey(prv, True), network=net, witness_type=wt, multisig=ms)


def _elem(e):
    idx, hard, marker = e
    return '%d%s' % (idx, marker if hard else '')


def _path_arg(elems, prefix, style):
    parts = ([prefix] if prefix else []) + [_elem(e) for e in elems]
    return parts if style == 'list' else '/'.join(parts)


def _compare(libkey, ref, private, where, case, versions):
    """Field-by-field comparison of a library HDKey with a reference node. Raises Discrepancy (bucket = field)."""
    def bad(field, got, want):
        raise Discrepancy('node.' + field, '%s: %s is %r, BIP32 gives %r' % (where, field, got, want), case)
    try:
        is_priv = libkey.is_private
        secret = libkey.secret
        private_hex = libkey.private_hex
        private_byte = libkey.private_byte
        public_hex = libkey.public_hex
        public_byte = libkey.public_byte
        chain = libkey.chain
        depth = libkey.depth
        child_index = libkey.child_index
        pfp = libkey.parent_fingerprint
        fp = libkey.fingerprint
        compressed = libkey.compressed
    except Exception as e:
        raise Discrepancy('node.attribute.raises', '%s: reading attributes raised %r' % (where, e), case)
    if bool(is_priv) != private:
        bad('is_private', is_priv, private)
    if private:
        if secret != ref.secret:
            bad('secret', secret, ref.secret)
        want = '%064x' % ref.secret
        if private_hex != want:
            bad('private_hex', private_hex, want)
        if private_byte != bytes.fromhex(want):
            bad('private_byte', private_byte, bytes.fromhex(want))
    else:
        if secret is not None or private_hex or private_byte:
            bad('secret_on_public_key', (secret, private_hex), None)
    if compressed is not True:
        bad('compressed', compressed, True)
    if public_hex != ref.pub.hex():
        bad('public_hex', public_hex, ref.pub.hex())
    if public_byte != ref.pub:
        bad('public_byte', public_byte, ref.pub)
    if chain != ref.chain:
        bad('chain', chain.hex() if isinstance(chain, bytes) else chain, ref.chain.hex())
    if depth != ref.depth:
        bad('depth', depth, ref.depth)
    if child_index != ref.child:
        bad('child_index', child_index, ref.child)
    if pfp != ref.parent_fp:
        bad('parent_fingerprint', pfp.hex() if isinstance(pfp, bytes) else pfp, ref.parent_fp.hex())
    if fp != ref.fingerprint():
        bad('fingerprint', fp.hex() if isinstance(fp, bytes) else fp, ref.fingerprint().hex())
    vprv, vpub = versions
    try:
        wpub = libkey.wif_public()
        wprv = libkey.wif_private() if private else None
    except Exception as e:
        raise Discrepancy('node.wif.raises', '%s: wif export raised %r' % (where, e), case)
    want_pub = ref.xkey(vpub, False)
    if wpub != want_pub:
        bad('wif_public', wpub, want_pub)
    if private:
        want_prv = ref.xkey(vprv, True)
        if wprv != want_prv:
            bad('wif_private', wprv, want_prv)


def _same_key(libkey, ref):
    """Does the returned library key carry the point/secret and chain code of ref?"""
    try:
        if libkey.public_hex != ref.pub.hex() or libkey.chain != ref.chain:
            return False
        if libkey.is_private and libkey.secret != ref.secret:
            return False
        return True
    except Exception:
        return False


def _describe(k):
    try:
        return 'key %s child_index=%s depth=%s private=%s' % (k.public_hex, k.child_index, k.depth, k.is_private)
    except Exception as e:
        return 'object %r (%r)' % (type(k), e)


def _checked_root(ctx, case, rroot, versions):
    """Build the library root and compare it with the reference root. Returns None when the case falls under the
    ascii-hex-seed finding (counted), raises Discrepancy on any other difference."""
    seedhex = case['root']['mode'] == 'seed' and case['root'].get('as') != 'hex' and _ascii_hex(case['root']['seed'])
    try:
        root = _lib_root(case)
    except Exception as e:
        raise Discrepancy('root.raises', 'building the root key raised %r' % e, case)
    try:
        _compare(root, rroot, True, 'root', case, versions)
    except Discrepancy as d:
        if seedhex:
            ctx.disc(d.bucket, d.message, case, kf=KF_SEEDHEX)
            return None
        raise
    return root


# ---- the property -------------------------------------------------------------------------------------

def check_derive(ctx, case):
    from ref import bip32
    K = _lib()
    path = [tuple(e) for e in case['path']]
    style = case.get('style', 'str')
    prefix = case.get('prefix', 'm')
    if not path:
        prefix = 'm'
    versions = _versions(case)
    try:
        rroot = _ref_root(case)
        rnodes = _ref_nodes(rroot, path)
    except ValueError:
        ctx.exclude('reference: invalid BIP32 node (IL >= n or zero key)')
        return
    # 1. root ---------------------------------------------------------------------------------------
    root = _checked_root(ctx, case, rroot, versions)
    if root is None:
        return

    # read-only requests on a key object (addresses in either form, hash, exports) before it is used as a parent:
    # what is derived below it - key, chain code and the parent fingerprint in the children - does not depend on them
    def touch(k):
        for how in case.get('touch') or ():
            try:
                if how == 'address_uncompressed':
                    k.address_uncompressed()
                elif how == 'address_uncompressed_explicit':
                    k.address(compressed=False, encoding='base58', script_type='p2pkh')
                elif how == 'address':
                    k.address()
                elif how == 'address_obj':
                    k.address_obj
                elif how == 'hash160':
                    k.hash160
                elif how == 'wif':
                    k.wif()
                elif how == 'public':
                    k.public()
                elif how == 'uncompressed_hex':
                    k.public_uncompressed_hex
                elif how == 'uncompressed_byte':
                    k.public_uncompressed_byte
                elif how == 'as_dict':
                    k.as_dict()
                elif how == 'info':
                    import contextlib
                    import io
                    with contextlib.redirect_stdout(io.StringIO()):
                        k.info()
                elif how == 'point':
                    k.public_point()
            except Exception:
                pass
    touch(root)

    # 2. private derivation along the whole path ----------------------------------------------------------
    lib_nodes = None
    try:
        if style == 'steps':
            lib_nodes = [root]
            for idx, hard, _m in path:
                lib_nodes.append(lib_nodes[-1].child_private(index=idx, hardened=hard))
                touch(lib_nodes[-1])
            end = lib_nodes[-1]
        else:
            path_obj = _path_arg(path, prefix, style)
            end = root.subkey_for_path(path_obj)
    except Exception as e:
        raise Discrepancy('private.raises', 'private derivation of a valid path raised %r' % e, case)
    if lib_nodes is not None:
        for i, n in enumerate(lib_nodes):
            _compare(n, rnodes[i], True, 'private node %d' % i, case, versions)
    else:
        _compare(end, rnodes[-1], True, 'private end node', case, versions)
        if style == 'list':
            # the caller's path object is used for a second request: the same levels name the same key
            try:
                end2 = root.subkey_for_path(path_obj)
            except Exception as e:
                raise Discrepancy('private.repeat.raises', 'second request with the same path object raised %r' % e,
                                  case)
            _compare(end2, rnodes[-1], True, 'private end node (same path object, second request)', case, versions)

    # 3. split: public-only parent --------------------------------------------------------------------
    j = case.get('split')
    if j is None:
        return
    pubvia = case.get('pubvia', 'public()')
    tail = path[j:]
    tail_style = case.get('tail_style', 'str')
    rparent = rnodes[j]
    rpub_parent = rparent.neuter()
    try:
        if lib_nodes is not None:
            parent_priv = lib_nodes[j]
        else:
            parent_priv = root.subkey_for_path(_path_arg(path[:j], 'm', 'str'))
    except Exception as e:
        raise Discrepancy('private.raises', 'private derivation of the split prefix raised %r' % e, case)
    use_M = pubvia == 'M' and len(tail) > 0
    try:
        if pubvia == 'xpub':
            parent = K.HDKey(rpub_parent.xkey(versions[1], False), network=case['network'],
                             witness_type=case['witness_type'], multisig=case['multisig'])
        elif use_M:
            parent = parent_priv                 # the 'M' prefix asks subkey_for_path for public derivation
        else:
            parent = parent_priv.public()
    except Exception as e:
        raise Discrepancy('public_parent.raises', 'creating the public-only parent (%s) raised %r' % (pubvia, e), case)
    if not use_M:
        _compare(parent, rpub_parent, False, 'public parent (%s)' % pubvia, case, versions)
        touch(parent)                  # (the public-only parent is looked at as well before it is derived from)

    hardened_at = [i for i, e in enumerate(tail) if e[1]]
    if not tail:
        return
    if not hardened_at:
        # commutation: N(CKDpriv(...)) == CKDpub(N(...))
        try:
            if tail_style == 'steps' and not use_M:
                k = parent
                for t, (idx, _h, _m) in enumerate(tail):
                    k = k.child_public(index=idx)
                    _compare(k, rnodes[j + t + 1].neuter(), False, 'public node %d' % (j + t + 1), case, versions)
                got = k
            else:
                got = parent.subkey_for_path(_path_arg(tail, 'M' if use_M else '', tail_style))
        except Discrepancy:
            raise
        except Exception as e:
            raise Discrepancy('public.raises', 'public derivation of a non-hardened tail raised %r' % e, case)
        _compare(got, rnodes[-1].neuter(), False, 'public end node (%s)' % pubvia, case, versions)
        return

    # refusal clause: a hardened element requested from a public-only key must raise -----------------------
    tail_obj = _path_arg(tail, 'M' if use_M else '', tail_style)
    if tail_style == 'list' and not use_M:
        # the path object has served a request to the private parent before (valid there), and is asked again after
        # a refusal: neither changes what the public-only key must answer
        try:
            below = parent_priv.subkey_for_path(tail_obj)
        except Exception as e:
            raise Discrepancy('private.raises', 'private derivation of the tail raised %r' % e, case)
        _compare(below, rnodes[-1], True, 'private end node (tail from the private parent)', case, versions)
        for attempt in range(3):
            try:
                got_r = parent.subkey_for_path(tail_obj)
            except Exception as e:
                ctx.refusal('hardened-from-public:' + type(e).__name__)
            else:
                ctx.disc('refusal.subkey_for_path.reused_path', "subkey_for_path(%r) on a public-only key (%s), "
                         "request %d with a path object used before, returned %s instead of raising"
                         % (_path_arg(tail, '', tail_style), pubvia, attempt + 1, _describe(got_r)), case)
                return
        tail_obj = _path_arg(tail, '', tail_style)
    try:
        got = parent.subkey_for_path(tail_obj)
    except Exception as e:
        ctx.refusal('hardened-from-public:' + type(e).__name__)
    else:
        # the exact wrong observation of the finding: markers ignored, i.e. the key of the un-hardened indices
        kf = None
        try:
            wrong = rpub_parent
            for idx, _h, _m in tail:
                wrong = bip32.ckd_pub(wrong, idx)
            if _same_key(got, wrong) and not got.is_private:
                kf = KF_MARKER
        except ValueError:
            pass
        ctx.disc('refusal.subkey_for_path', "subkey_for_path(%r) on a public-only key (%s) returned %s instead of raising"
                 % (_path_arg(tail, 'M' if use_M else '', tail_style), pubvia, _describe(got)), case, kf=kf)
    if use_M:
        return
    # the same request through child_public / child_private on the public node just before the hardened element
    h = hardened_at[0]
    try:
        node = parent
        for idx, _h, _m in tail[:h]:
            node = node.child_public(index=idx)
    except Exception as e:
        raise Discrepancy('public.raises', 'public derivation of a non-hardened tail raised %r' % e, case)
    rnode = rnodes[j + h].neuter()
    idx = tail[h][0]
    try:
        got = node.child_public(index=idx | HARD)
    except Exception as e:
        ctx.refusal('child_public(hardened):' + type(e).__name__)
    else:
        kf = KF_CHILDPUB if (idx == 0 and _same_key(got, _pubdata_child(rnode, HARD))) else None
        ctx.disc('refusal.child_public', 'child_public(index=0x%x) on a public-only key returned %s instead of raising'
                 % (idx | HARD, _describe(got)), case, kf=kf)
    for kw in ({'index': idx, 'hardened': True}, {'index': idx | HARD}):
        try:
            got = node.child_private(**kw)
        except Exception as e:
            ctx.refusal('child_private(on public):' + type(e).__name__)
        else:
            raise Discrepancy('refusal.child_private', 'child_private(%r) on a public-only key returned %s' %
                              (kw, _describe(got)), case)


def check_numeric(ctx, case):
    """A plain numeric index >= 2^31: on a private key it must raise or be BIP32's child of that (hardened) index;
    on a public-only key it must raise."""
    from ref import bip32
    index = case['index']
    on = case['on']
    via = case['via']
    versions = _versions(case)
    try:
        rroot = _ref_root(case)
        rchild = bip32.ckd_priv(rroot, index)
    except ValueError:
        ctx.exclude('reference: invalid BIP32 node (IL >= n or zero key)')
        return
    root = _checked_root(ctx, case, rroot, versions)
    if root is None:
        return
    try:
        parent = root if on == 'private' else root.public()
    except Exception as e:
        raise Discrepancy('public_parent.raises', 'public() raised %r' % e, case)
    try:
        if via == 'path':
            got = parent.subkey_for_path(str(index))
        elif via == 'path_m':
            got = parent.subkey_for_path('m/%d' % index)
        elif via == 'child_private':
            got = parent.child_private(index=index)
        else:
            got = parent.child_public(index=index)
    except Exception as e:
        ctx.refusal('numeric>=2^31 %s/%s:%s' % (on, via, type(e).__name__))
        return
    what = '%s(%d) on a %s key' % (via, index, on)
    if on == 'public':
        kf = KF_CHILDPUB if (index == HARD and via != 'child_private' and
                             _same_key(got, _pubdata_child(rroot.neuter(), index))) else None
        ctx.disc('refusal.numeric_public', '%s returned %s instead of raising' % (what, _describe(got)), case, kf=kf)
        return
    # private parent
    expect_private = via != 'child_public'
    try:
        _compare(got, rchild if expect_private else rchild.neuter(), expect_private, what, case, versions)
    except Discrepancy as d:
        wrong = _pubdata_child(rroot, index)
        kf = None
        if _same_key(got, wrong):
            if via == 'child_public':
                kf = KF_CHILDPUB if index == HARD else None
            else:
                kf = KF_NUMERIC
        ctx.disc('numeric.' + d.bucket, d.message + ' (neither a refusal nor the BIP32 child of index 0x%x)' % index,
                 case, kf=kf)


def _ascii_hex(seed_hex):
    try:
        bytes.fromhex(bytes.fromhex(seed_hex).decode())
        return True
    except (ValueError, UnicodeDecodeError):
        return False



def check_uncompressed(ctx, case):
    """Parents made with compressed=False (the library warns that they are not standard; what it derives below them
    is its own convention, so no reference node is compared): BIP32's own law still has to hold - the public part of
    the privately derived child IS the publicly derived child, whichever way the public derivation is asked for."""
    K = _lib()
    seed = bytes.fromhex(case['seed'])
    try:
        if case['via'] == 'seed':
            root = K.HDKey.from_seed(seed, compressed=False, network=case['network'])
        else:
            xprv = K.HDKey.from_seed(seed, network=case['network']).wif_private()
            root = K.HDKey(xprv, compressed=False, network=case['network'])
    except Exception as e:
        ctx.refusal('uncompressed.root.%s' % type(e).__name__)
        return
    path = case['path']

    def view(k):
        return (bytes(k.public_byte).hex(), bytes(k.chain).hex(), k.depth, bytes(k.parent_fingerprint).hex(),
                k.child_index)
    try:
        priv = root
        for i in path:
            priv = priv.child_private(index=i)
        want = view(priv.public())
    except Exception as e:
        ctx.refusal('uncompressed.private.%s' % type(e).__name__)
        return
    routes = {}
    try:
        k = root.public()
        for i in path:
            k = k.child_public(index=i)
        routes['public().child_public'] = view(k)
        k = root
        for i in path:
            k = k.child_public(index=i)
        routes['child_public'] = view(k)
        routes["subkey_for_path('M/..')"] = view(root.subkey_for_path('M/' + '/'.join(str(i) for i in path)))
        routes["public().subkey_for_path"] = view(root.public().subkey_for_path('/'.join(str(i) for i in path)))
    except Exception as e:
        raise Discrepancy('uncompressed.public.raises', 'public derivation below an uncompressed parent raised %r' % e,
                          case)
    for name, got in sorted(routes.items()):
        if got != want:
            raise Discrepancy('uncompressed.commute', 'uncompressed parent, path %r: %s gives %r, the public part of the '
                              'privately derived child is %r' % (path, name, got, want), case)

DISPATCH = {'derive': check_derive, 'numeric': check_numeric, 'uncompressed': check_uncompressed}


def replay(ctx, case):
    if 'probe' in case and 'kind' not in case:          # replay file written for a reproducing probe
        case = [c for fid, c, _b, _w in _probe_cases() if fid == case['probe']][0]
    DISPATCH[case['kind']](ctx, case)


# ---- generators ---------------------------------------------------------------------------------------

def _root_strategy():
    from hypothesis import strategies as st
    from vlib import gen
    b32 = st.binary(min_size=32, max_size=32)
    lz = st.integers(1, 8).flatmap(lambda z: st.binary(min_size=32 - z, max_size=32 - z).map(
        lambda b: bytes(z) + (b if any(b) else b[:-1] + b'\x01')))
    chain = st.one_of(b32, b32, lz, st.just(bytes(32)))
    secret = gen.secrets().map(lambda d: '%064x' % d)
    seed = st.fixed_dictionaries({'mode': st.just('seed'),
                                  'seed': st.one_of(st.binary(min_size=16, max_size=64),
                                                    st.sampled_from([16, 32, 64]).flatmap(
                                                        lambda n: st.binary(min_size=n, max_size=n))).map(bytes.hex),
                                  'as': st.sampled_from(['bytes', 'hex'])})
    key = st.fixed_dictionaries({'mode': st.just('key'), 'secret': secret, 'chain': chain.map(bytes.hex)})
    xprv = st.fixed_dictionaries({'mode': st.just('xprv'), 'secret': secret, 'chain': chain.map(bytes.hex),
                                  'depth': st.one_of(st.integers(0, 5), st.integers(0, 240)),
                                  'fp': st.binary(min_size=4, max_size=4).map(bytes.hex),
                                  'child': gen.u32_boundary()})
    return st.one_of(seed, seed, key, xprv)


def _config_strategy():
    """(network, witness_type, multisig) combinations the pinned table defines."""
    from hypothesis import strategies as st
    from ref import address
    combos = []
    for n in address.NETWORK_NAMES:
        for e in address.xkey_versions(n):
            if e['private']:
                combos.append((n, e['witness_type'], e['multisig']))
    common = [('bitcoin', 'segwit', False), ('bitcoin', 'legacy', False), ('testnet', 'p2sh-segwit', False)]
    return st.one_of(st.sampled_from(common), st.sampled_from(combos))


def _index_strategy():
    from hypothesis import strategies as st
    return st.one_of(st.sampled_from(BOUNDARY), st.integers(0, HARD - 1), st.integers(0, 20))


def derive_strategy(ctx):
    from hypothesis import strategies as st
    maxdepth = ctx.scale(8, 12)

    @st.composite
    def plan(draw):
        net, wt, ms = draw(_config_strategy())
        case = {'kind': 'derive', 'root': draw(_root_strategy()), 'network': net, 'witness_type': wt, 'multisig': ms}
        n = draw(st.one_of(st.integers(1, 4), st.integers(2, 5), st.integers(0, maxdepth)))
        mode = draw(st.sampled_from(['nosplit', 'commute', 'commute', 'refuse']))
        if mode == 'nosplit':
            j = None
        elif n >= 2:
            j = draw(st.one_of(st.integers(1, n - 1), st.integers(1, n - 1), st.integers(0, n)))
        else:
            j = draw(st.integers(0, n))
        path = []
        for i in range(n):
            idx = draw(_index_strategy())
            if j is not None and i >= j:
                hard = False
            else:
                hard = draw(st.booleans())
            path.append([idx, hard, draw(st.sampled_from(MARKERS))])
        if mode == 'refuse':
            if j == n:                       # need a non-empty tail to put a hardened element in
                path.append([draw(_index_strategy()), True, draw(st.sampled_from(MARKERS))])
                n += 1
            hpos = draw(st.integers(j, n - 1))
            path[hpos][1] = True
            if draw(st.booleans()):
                path[hpos][0] = draw(st.sampled_from([0, 0, 1, HARD - 1]))
        case['path'] = path
        case['touch'] = draw(st.one_of(st.just([]), st.lists(st.sampled_from(
            ['address_uncompressed', 'address_uncompressed_explicit', 'address', 'address_obj', 'hash160', 'wif',
             'public', 'uncompressed_hex', 'uncompressed_byte', 'as_dict', 'info', 'point']), min_size=1, max_size=3)))
        case['style'] = draw(st.sampled_from(['str', 'str', 'list', 'steps']))
        case['prefix'] = draw(st.sampled_from(['m', '']))
        if j is not None:
            case['split'] = j
            case['pubvia'] = draw(st.sampled_from(['public()', 'public()', 'xpub', 'M']))
            case['tail_style'] = draw(st.sampled_from(['str', 'list', 'steps']))
        return case
    return plan()


def numeric_strategy(ctx):
    from hypothesis import strategies as st

    @st.composite
    def plan(draw):
        net, wt, ms = draw(_config_strategy())
        on = draw(st.sampled_from(['private', 'public']))
        return {'kind': 'numeric', 'root': draw(_root_strategy()), 'network': net, 'witness_type': wt, 'multisig': ms,
                'index': draw(st.one_of(st.just(HARD), st.just(HARD + 1), st.just(0xffffffff),
                                        st.integers(HARD, 0xffffffff))),
                'on': on,
                'via': draw(st.sampled_from(['path', 'path_m', 'child_private', 'child_public']))}
    return plan()


def _nontrivial(case):
    path = case['path']
    j = case.get('split')
    deep = len(path) >= 2 and any(e[1] for e in path) and any(e[0] in BOUNDARY for e in path)
    inside = j is not None and 0 < j < len(path)
    refusal = j is not None and any(e[1] for e in path[j:])
    return deep or inside or refusal


def prop_derive(ctx):
    def f(case):
        path = case['path']
        j = case.get('split')
        if _nontrivial(case):
            ctx.nt(case)
            ctx.klass('derive.nontrivial')
        ctx.klass('derive.depth.%s' % (len(path) if len(path) < 5 else '5+'))
        ctx.klass('derive.root.' + case['root']['mode'])
        ctx.klass('derive.style.' + case['style'])
        if j is None:
            ctx.klass('derive.private_only')
        elif any(e[1] for e in path[j:]):
            ctx.klass('derive.refusal_clause.' + case['pubvia'])
        else:
            ctx.klass('derive.commute.' + case['pubvia'] + ('.inside' if 0 < j < len(path) else '.edge'))
        for e in path:
            if e[1]:
                ctx.klass('marker.' + e[2])
            if e[0] in BOUNDARY:
                ctx.klass('index.boundary.%d' % e[0])
        r = case['root']
        if r['mode'] != 'seed' and (r['secret'].startswith('00') or r['chain'].startswith('00')):
            ctx.klass('root.leading_zero_secret_or_chain')
        if case['network'] != 'bitcoin':
            ctx.klass('network.non_bitcoin')
        if len(ctx.samples) < 4 and _nontrivial(case):
            ctx.sample(case)
        check_derive(ctx, case)
    return f


def prop_numeric(ctx):
    def f(case):
        ctx.nt(case)
        ctx.klass('numeric.%s.%s' % (case['on'], case['via']))
        if case['index'] == HARD:
            ctx.klass('numeric.index_2^31')
        if len(ctx.samples) < 6:
            ctx.sample(case)
        check_numeric(ctx, case)
    return f


# ---- probes of the suspected findings ---------------------------------------------------------------------

_PROBE_ROOT = {'mode': 'seed', 'seed': '000102030405060708090a0b0c0d0e0f', 'as': 'bytes'}
_PROBE_CFG = {'network': 'bitcoin', 'witness_type': 'legacy', 'multisig': False}


def _probe_cases():
    base = dict(_PROBE_CFG, root=_PROBE_ROOT)
    return [
        (KF_MARKER, dict(base, kind='derive', path=[[0, True, "'"]], style='str', prefix='m', split=0,
                         pubvia='xpub', tail_style='str'),
         ["refusal.subkey_for_path"],
         "xpub.subkey_for_path(\"0'\") returns the NON-hardened child 0 instead of raising (hardened marker ignored on "
         "public-only keys)"),
        (KF_CHILDPUB, dict(base, kind='numeric', index=HARD, on='public', via='child_public'),
         ['refusal.numeric_public'],
         'child_public(0x80000000) on a public-only key returns a key (guard is "index > 0x80000000") instead of raising'),
        (KF_NUMERIC, dict(base, kind='numeric', index=HARD, on='private', via='path'),
         None,
         'subkey_for_path("2147483648") / child_private(2147483648) on a private key derives with the public '
         'serialisation and index 2^31: neither a refusal nor BIP32 hardened child 0'),
        (KF_SEEDHEX, dict(_PROBE_CFG, kind='derive', root={'mode': 'seed', 'seed': b'0123456789abcdef'.hex(), 'as': 'bytes'},
                          path=[], style='str', prefix='m'),
         None,
         "HDKey.from_seed(b'0123456789abcdef') (16 seed bytes that happen to be ASCII hex digits) is un-hexlified to an "
         "8-byte seed: master key differs from BIP32"),
    ]


def probes(ctx):
    saved = ctx.findings
    ctx.findings = {}
    try:
        for fid, case, buckets, what in _probe_cases():
            try:
                replay(ctx, case)
                ctx.probe(fid, False, what)
            except Discrepancy as d:
                ctx.probe(fid, buckets is None or d.bucket in buckets, what)
            except Exception:
                ctx.probe(fid, False, what)
    finally:
        ctx.findings = saved


# ---- run --------------------------------------------------------------------------------------------------

def _fixed_cases(ctx):
    """Deterministic boundary matrix (sharded): every marker x boundary index x hardened, at depth 1 and 2, plus the
    refusal clause for every marker through every public-parent construction."""
    out = []
    base = dict(_PROBE_CFG, root=_PROBE_ROOT)
    for m in MARKERS:
        for idx in BOUNDARY:
            out.append(dict(base, kind='derive', path=[[idx, True, m], [idx, False, m]], style='str', prefix='m', split=1,
                            pubvia='public()', tail_style='str'))
            for pubvia in ('public()', 'xpub', 'M'):
                out.append(dict(base, kind='derive', path=[[1, False, m], [idx, True, m]], style='list', prefix='',
                                split=1, pubvia=pubvia, tail_style='str'))
    for idx in (HARD, HARD + 1, 0xffffffff):
        for on in ('private', 'public'):
            for via in ('path', 'path_m', 'child_private', 'child_public'):
                out.append(dict(base, kind='numeric', index=idx, on=on, via=via))
    return out


def run(ctx):
    fixed = _fixed_cases(ctx)
    for i, case in enumerate(fixed):
        if i % ctx.nshards != ctx.shard:
            continue
        ctx.nt(case)
        ctx.klass('fixed_matrix')
        ctx.guard(lambda c: replay(ctx, c), case)
    ctx.exhaustive('marker x boundary-index matrix on BIP32 test vector 1 seed')

    # seeds whose bytes are ASCII hex digits (from_seed takes "bytes or hexstring")
    if ctx.shard == 0:
        for s in (b'0123456789abcdef', b'00000000000000000000000000000000', b'deadbeefdeadbeefdeadbeefdeadbeef' * 2):
            case = dict(_PROBE_CFG, kind='derive', root={'mode': 'seed', 'seed': s.hex(), 'as': 'bytes'}, path=[[0, True, 'h']],
                        style='str', prefix='m')
            ctx.klass('seed.ascii_hex_bytes')
            ctx.guard(lambda c: replay(ctx, c), case)

    ctx.run_given('numeric', numeric_strategy(ctx), prop_numeric(ctx), ctx.scale(60, 600))
    ctx.run_given('derive', derive_strategy(ctx), prop_derive(ctx), ctx.scale(250, 2400))

    from hypothesis import strategies as ust
    unc = ust.fixed_dictionaries({
        'kind': ust.just('uncompressed'), 'seed': ust.binary(min_size=16, max_size=32).map(bytes.hex),
        'via': ust.sampled_from(['seed', 'xprv']), 'network': ust.sampled_from(['bitcoin', 'testnet', 'litecoin']),
        'path': ust.lists(ust.one_of(ust.sampled_from([0, 1, 2, 0x7fffffff]), ust.integers(0, 0x7fffffff)), min_size=1,
                          max_size=3)})

    def prop_unc(case):
        ctx.nt(('uncompressed', case['seed'], tuple(case['path']), case['via']))
        ctx.klass('uncompressed.' + case['via'])
        check_uncompressed(ctx, case)
    ctx.run_given('uncompressed', unc, prop_unc, ctx.scale(25, 600))
