"""C17 - amount conversion between text / decimal form and integer smallest units is exact for every amount up
to the total supply, every denominator and every network; format-then-parse is the identity; amounts that
reach transaction outputs are non-negative ints of the smallest unit.

Oracle: ref/money (integer / Fraction arithmetic over a unit table taken from the SI prefix definitions and the
bitcoin wiki unit names, not from the library's table) and the pinned network table (currency codes, 10^-8).
"""
from fractions import Fraction

from vlib.core import Discrepancy

LEVEL = 'exploration'
TECHNIQUE = ('Hypothesis-driven blocks of amounts + deterministic dense windows and float-hardness-directed '
             'enumeration, differential against ref/money (exact integer/Fraction arithmetic)')
RULE = ('amounts n in [0, 21*10^14] smallest units: uniform, >=10^15, top-of-range, small, k*10^j+-1, 2^k+-1, whole '
        'coins; each Hypothesis case is a block n0+i*step (i<count) tested against all 20 denominator symbols; '
        'deterministic part: a dense window of consecutive amounts below 21*10^14 per shard and, per denominator, the '
        'candidates of a strided enumeration whose float image is farthest from the exact value. Paths: parse '
        '(value_to_satoshi / Value(text).value_sat, with currency code in exact/lower/upper case, without code + '
        'network argument, trailing zeros), format (Value.from_satoshi(n, network).str(den, decimals) must denote n '
        'and parse back to n), numeric (Value(number, denominator).value_sat, from_satoshi(n, denominator=den)), '
        'output (Output(value=text|Value|int), Transaction.add_output, amount bytes of raw()). Sub-unit denominators '
        '(n, msat, usat) only on whole smallest units. [amount texts with runs of blanks / tabs between number and unit and blanks around] [Value histories: conversions interleaved with += / -= / + / - on one object against an integer model] Non-trivial = n >= 10^12 or a denominator other than "" and '
        '"sat"; distinct by (path, api, n, denominator, currency code).'
        ' [add_output with the floats next to a whole amount]')
ASSUMPTIONS = ['ref/money.UNIT_EXP gives the meaning of each denominator symbol (SI prefixes; sat=1e-8, finney=1e-7, '
               'msat=1e-11, usat=1e-14)',
               'every network of the pinned table has smallest unit 1e-8 and the pinned currency code; 21*10^14 units '
               'is used as the bound for all networks (the statement says "total supply"; dogecoin has no cap)',
               'a formatted text is exact when it denotes an amount strictly closer than half a smallest unit to n '
               '(sub-unit noise in n/msat/usat texts is recorded as a class, not demanded away)',
               'rounding of genuinely fractional smallest units is unspecified and not asserted',
               "'auto' denominators and currency_repr='symbol'/'name' texts are not parsed back (the library does not "
               'claim to parse names/symbols)',
               'fees of wallet-built transactions are checked by C07, not here']
SHARDS = {'quick': 16, 'thorough': 16}
WALL_CAP = {'quick': 600, 'thorough': 3000}

MAX = 21 * 10 ** 14
DENS = ['Y', 'Z', 'E', 'P', 'T', 'G', 'M', 'k', 'h', 'da', '', 'd', 'c', 'm', 'µ', 'n', 'sat', 'fin', 'msat', 'µsat']
PARSE_APIS = ['v2s', 'value', 'v2s_net', 'value_net', 'v2s_net_code']
F_FLOAT = 'C17-float-scaling-off-by-one'
F_FMT = 'C17-format-side-float-noise'
F_DA = 'C17-deca-prefix-unparseable'
F_TERA = 'C17-tera-prefix-read-as-testnet-code'
F_SHARED = 'C17-shared-currency-code-network-refused'


def _lib():
    import bitcoinlib.values as values
    import bitcoinlib.transactions as transactions
    import bitcoinlib.config.config as config
    return values, transactions, config


def _nets():
    from ref import address
    return address.NETWORKS


def _codes():
    """distinct currency codes of the pinned table, in table order"""
    out = []
    for name, d in _nets().items():
        if d['currency_code'] not in out:
            out.append(d['currency_code'])
    return out


def _first_net_with_code(code):
    for name, d in _nets().items():
        if d['currency_code'].upper() == code.upper():
            return name
    return None


# ---- classification of discrepancies ---------------------------------------------------------------

def _kf_off_by_one(n, got, den):
    """float-scaling finding: exactly one unit off, amount >= 10^15, a denominator whose scaling goes through
    an inexact float constant (everything but the coin itself)."""
    if type(got) is int and abs(got - n) == 1 and n >= 10 ** 15 and den != '':
        return F_FLOAT
    return None


def _tera_collision(den, code):
    return den == 'T' and (den + code).upper() in ('TBTC', 'TDOGE')


def _kf_tera(numtext, den, code, got):
    """'T'+'BTC' / 'T'+'DOGE' is read as the testnet currency code tBTC / tDOGE: the number is taken as coins."""
    if not _tera_collision(den, code) or type(got) is not int:
        return None
    q = Fraction(numtext) * 10 ** 8
    if abs(Fraction(got) - q) <= Fraction(1, 2) + Fraction(1, 1000):
        return F_TERA
    return None


def _n_class(n):
    if n >= 10 ** 15:
        return 'n>=1e15'
    if n >= 10 ** 12:
        return 'n>=1e12'
    if n >= 10 ** 8:
        return 'n>=1coin'
    return 'n<1coin'


def _nontrivial(n, den):
    return n >= 10 ** 12 or den not in ('', 'sat')


# ---- parse -----------------------------------------------------------------------------------------

def _amount_text(n, den, pad):
    from ref import money
    t = money.decimal_text(n, den)
    if pad:
        t = t + ('.' if '.' not in t else '') + '0' * pad
    return t


def check_parse(ctx, case):
    """case: kind=parse, n, den, code ('' = none), api, pad, net (for *_net apis)"""
    values, _, _ = _lib()
    n, den, code, api = case['n'], case['den'], case.get('code', ''), case.get('api', 'v2s')
    net = case.get('net')
    numtext = _amount_text(n, den, case.get('pad', 0))
    unit = den + (code if api not in ('v2s_net', 'value_net') else '')
    # white space: between number and unit any run of blanks / tabs, around the text blanks (str.split semantics)
    sep, wrap = {0: (' ', ('', '')), 1: ('  ', ('', '')), 2: ('\t', ('', '')), 3: (' \t ', (' ', '')),
                 4: ('    ', ('', ' ')), 5: (' ', ('  ', ' '))}[case.get('ws', 0)]
    text = wrap[0] + numtext + (sep + unit if unit else '') + wrap[1]
    try:
        if api == 'v2s':
            got = values.value_to_satoshi(text)
        elif api == 'value':
            v = values.Value(text)
            got = v.value_sat
        elif api == 'v2s_net':
            got = values.value_to_satoshi(text, network=net)
        elif api == 'value_net':
            v = values.Value(text, network=net)
            got = v.value_sat
        elif api == 'v2s_net_code':
            got = values.value_to_satoshi(text, network=net)
        else:
            raise Discrepancy('harness.bad_api', api, case)
    except Discrepancy:
        raise
    except Exception as e:
        if den == 'da' and isinstance(e, ValueError) and 'not recognised' in str(e):
            ctx.disc('parse.da.refused', 'parsing %r raised %r: the deca denominator cannot be parsed' % (text, e),
                     case, kf=F_DA)
            return
        if net is not None and isinstance(e, ValueError) and 'different network' in str(e):
            if _tera_collision(den, unit[len(den):]):
                ctx.disc('parse.tera.refused', 'parsing %r for network %s raised %r' % (text, net, e), case, kf=F_TERA)
                return
            if _first_net_with_code(_nets()[net]['currency_code']) != net:
                # the network's currency code is shared with an earlier network of the table: Value() switches to
                # that one (even for a text without code) and value_to_satoshi then refuses the network asked for
                ctx.disc('parse.shared_code.refused', 'parsing %r with network=%r raised %r' % (text, net, e), case,
                         kf=F_SHARED)
                return
        raise Discrepancy('parse.raises', 'parsing %r (api %s, network %r) raised %r' % (text, api, net, e), case)
    if type(got) is not int:
        raise Discrepancy('parse.type', 'parsing %r gives %r of type %s, not int' % (text, got, type(got).__name__),
                          case)
    if got != n:
        kf = _kf_off_by_one(n, got, den) or _kf_tera(numtext, den, unit[len(den):], got)
        ctx.disc('parse.inexact.' + (den or 'coin'), 'parsing %r (api %s) gives %d smallest units, exact value is %d'
                 % (text, api, got, n), case, kf=kf)
        return
    if api == 'value' and code:
        want = code.upper()
        have = _nets().get(v.network.name, {}).get('currency_code', '?').upper()
        if want != have:
            if _tera_collision(den, code):
                ctx.disc('parse.tera.network', 'Value(%r).network is %s' % (text, v.network.name), case, kf=F_TERA)
                return
            raise Discrepancy('parse.network', 'Value(%r).network is %s (code %s)' % (text, v.network.name, have),
                              case)


# ---- format ----------------------------------------------------------------------------------------

def check_format(ctx, case):
    """case: kind=format, n, den, net, decimals (None or int), den_as ('symbol'|'number')"""
    from ref import money
    values, _, config = _lib()
    n, den, net, decimals = case['n'], case['den'], case['net'], case.get('decimals')
    if case.get('den_as') == 'number' or den == '':
        den_arg = None
        for k, s in config.NETWORK_DENOMINATORS.items():
            if s == den:
                den_arg = k
        if den_arg is None:
            raise Discrepancy('table.missing', 'NETWORK_DENOMINATORS has no symbol %r' % den, case)
    else:
        den_arg = den
    try:
        text = values.Value.from_satoshi(n, network=net).str(den_arg, decimals=decimals)
    except Exception as e:
        raise Discrepancy('format.raises', 'from_satoshi(%d, network=%r).str(%r, decimals=%r) raised %r' %
                          (n, net, den_arg, decimals, e), case)
    parts = text.split(' ')
    code = _nets()[net]['currency_code']
    want_unit = den + ('' if ('sat' in den and net == 'bitcoin') else code)
    if len(parts) != 2 or parts[1] != want_unit:
        raise Discrepancy('format.unit', 'from_satoshi(%d, %r).str(%r) = %r, unit should be %r' %
                          (n, net, den_arg, text, want_unit), case)
    try:
        units = money.units_from_text(parts[0], den)
    except Exception as e:
        raise Discrepancy('format.number', 'formatted text %r is not a decimal number (%r)' % (text, e), case)
    if decimals is not None and '.' in parts[0] and len(parts[0].split('.')[1]) != decimals:
        raise Discrepancy('format.decimals', 'str(decimals=%d) produced %r' % (decimals, text), case)
    noisy = units != n
    if noisy:
        if abs(units - n) * 2 < 1:
            ctx.klass('format.subunit_noise.' + (den or 'coin'))
        else:
            kf = F_FMT if (abs(units - n) <= 1 and n >= 10 ** 15 and den != '') else None
            ctx.disc('format.inexact.' + (den or 'coin'),
                     'from_satoshi(%d, %r).str(%r, decimals=%r) = %r which denotes %s smallest units' %
                     (n, net, den_arg, decimals, text, float(units)), case, kf=kf)
            return
    # parse the library's own text back
    try:
        back = values.value_to_satoshi(text)
    except Exception as e:
        if den == 'da' and isinstance(e, ValueError) and 'not recognised' in str(e):
            ctx.disc('roundtrip.da.refused', 'value_to_satoshi(%r) (text produced by str(%r)) raised %r' %
                     (text, den_arg, e), case, kf=F_DA)
            return
        raise Discrepancy('roundtrip.raises', 'value_to_satoshi(%r) (text produced by the library) raised %r' %
                          (text, e), case)
    if type(back) is not int:
        raise Discrepancy('roundtrip.type', 'value_to_satoshi(%r) = %r, not int' % (text, back), case)
    if back != n:
        kf = _kf_off_by_one(n, back, den)
        if kf and noisy:
            # the library's text itself carries sub-unit float noise (str() divides floats); with an exact text
            # the miss is the parser's (F_FLOAT)
            kf = F_FMT
        kf = kf or _kf_tera(parts[0], den, code, back)
        ctx.disc('roundtrip.' + ('noisy_text.' if noisy else '') + (den or 'coin'), 'value_to_satoshi(from_satoshi(%d, %r).str(%r, decimals=%r) = %r) '
                 '= %d' % (n, net, den_arg, decimals, text, back), case, kf=kf)


# ---- numeric ---------------------------------------------------------------------------------------

def check_numeric(ctx, case):
    """case: kind=numeric, n, den, net, form: 'value_num' (Value(number, den)), 'from_sat' (from_satoshi(n)),
    'from_sat_den' (from_satoshi(n, denominator=den)); den_as symbol|number"""
    from ref import money
    values, _, config = _lib()
    n, den, net, form = case['n'], case['den'], case['net'], case['form']
    den_arg = den
    if case.get('den_as') == 'number' or den == '':
        for k, s in config.NETWORK_DENOMINATORS.items():
            if s == den:
                den_arg = k
    try:
        if form == 'value_num':
            t = money.decimal_text(n, den)
            num = int(t) if '.' not in t else float(t)
            v = values.Value(num, den_arg, network=net)
        elif form == 'from_sat':
            v = values.Value.from_satoshi(n, network=net)
        else:
            v = values.Value.from_satoshi(n, denominator=den_arg, network=net)
        got = v.value_sat
        as_bytes = v.to_bytes()
        idx = v.__index__()
    except Exception as e:
        raise Discrepancy('numeric.raises', '%s n=%d den=%r network=%r raised %r' % (form, n, den_arg, net, e), case)
    if type(got) is not int:
        raise Discrepancy('numeric.type', '%s n=%d den=%r: value_sat=%r is not int' % (form, n, den_arg, got), case)
    if got != n:
        ctx.disc('numeric.inexact.%s.%s' % (form, den or 'coin'), '%s with n=%d den=%r network=%r: value_sat=%d' %
                 (form, n, den_arg, net, got), case,
                 kf={'value_num': _kf_off_by_one(n, got, den),
                     'from_sat_den': F_FMT if _kf_off_by_one(n, got, den) else None}.get(form))
        return
    if idx != n or int.from_bytes(as_bytes, 'little') != n or len(as_bytes) != 8:
        raise Discrepancy('numeric.bytes', '%s n=%d: to_bytes=%s __index__=%r' % (form, n, as_bytes.hex(), idx), case)
    # every serialisation of the integer, in both byte orders and two widths, reads back as n
    for order in ('little', 'big'):
        for width in (8, 9):
            try:
                b_ = v.to_bytes(width, order)
                h_ = v.to_hex(width * 2, order)
            except Exception as e:
                raise Discrepancy('numeric.bytes.raises', 'to_bytes/to_hex(%d, %r) of n=%d raised %r' % (width, order, n, e),
                                  case)
            if len(b_) != width or int.from_bytes(b_, order) != n or h_ != n.to_bytes(width, order).hex():
                raise Discrepancy('numeric.bytes.%s' % order, '%s n=%d: to_bytes(%d, %r)=%s, to_hex(%d, %r)=%s, the '
                                  'integer in that byte order is %s' % (form, n, width, order, b_.hex(), width * 2, order,
                                                                        h_, n.to_bytes(width, order).hex()), case)
    try:
        others = (int(v), hex(v), float(v))
    except Exception as e:
        raise Discrepancy('numeric.views.raises', 'int()/hex()/float() of Value for n=%d raised %r' % (n, e), case)
    if others[1] != hex(n):
        raise Discrepancy('numeric.hex', '%s n=%d: hex(Value)=%s' % (form, n, others[1]), case)


# ---- outputs ---------------------------------------------------------------------------------------

PKH = 'aa' * 20


def _wire_amount(raw):
    """amount of the only output of a legacy-serialised transaction without inputs"""
    if len(raw) < 14 or raw[4] != 0 or raw[5] != 1:
        return None
    return int.from_bytes(raw[6:14], 'little')


def check_output(ctx, case):
    """case: kind=output, n, den, code, net, form: text|value|int|add_int|add_float|add_neg|add_frac|neg_text"""
    values, tr, _ = _lib()
    n, den, net, form = case['n'], case.get('den', ''), case['net'], case['form']
    code = case.get('code', '')
    numtext = _amount_text(n, den, 0)
    unit = den + code
    text = numtext + (' ' + unit if unit else '')
    if form in ('text', 'value', 'int'):
        try:
            if form == 'text':
                o = tr.Output(text, public_hash=PKH, network=net)
            elif form == 'value':
                o = tr.Output(values.Value(text, network=net), public_hash=PKH, network=net)
            else:
                o = tr.Output(n, public_hash=PKH, network=net)
            val = o.value
            t = tr.Transaction(outputs=[o], network=net, witness_type='legacy')
            raw = t.raw()
        except Exception as e:
            if den == 'da' and form != 'int' and 'not recognised' in str(e):
                ctx.disc('output.da.refused', 'Output(%r) raised %r' % (text, e), case, kf=F_DA)
                return
            if form != 'int' and 'different network' in str(e):
                if _tera_collision(den, code):
                    ctx.disc('output.tera.refused', 'Output(%r, network=%r) raised %r' % (text, net, e), case,
                             kf=F_TERA)
                    return
                if _first_net_with_code(_nets()[net]['currency_code']) != net:
                    ctx.disc('output.shared_code.refused', 'Output(%s %r, network=%r) raised %r' %
                             (form, text, net, e), case, kf=F_SHARED)
                    return
            raise Discrepancy('output.raises', 'Output(%s %r, network=%r) raised %r' % (form, text, net, e), case)
        if type(val) is not int or val < 0:
            raise Discrepancy('output.type', 'Output(%r).value = %r (%s): not a non-negative int' %
                              (text, val, type(val).__name__), case)
        wire = _wire_amount(raw)
        if val != n or wire != n:
            kf = _kf_off_by_one(n, val, den) if (form != 'int' and val == wire) else None
            ctx.disc('output.inexact.' + (den or 'coin'), 'Output(%s %r, network=%r).value=%r, amount on the wire %r, '
                     'requested %d' % (form, text, net, val, wire, n), case, kf=kf)
        return
    # Transaction.add_output with numbers
    if form == 'add_int':
        arg, ok = n, True
    elif form == 'add_float':
        arg, ok = float(n), float(n) == n
    elif form == 'add_neg':
        arg, ok = -n - 1, False
    elif form == 'add_frac':
        import math
        frac = case.get('frac', 0.5)
        if frac in ('ulp-', 'ulp+'):
            # the float next to the whole number n (what decimal coin amounts times 1e8 produce: 0.29 * 1e8)
            arg = math.nextafter(float(n), -math.inf if frac == 'ulp-' else math.inf)
            if float(n) != n:
                ctx.exclude('output.add_frac.not_representable')
                return
        else:
            arg = n + frac
        ok = False
        if float(arg) == int(arg):            # fraction lost in float representation: nothing to learn
            ctx.exclude('output.add_frac.not_representable')
            return
        near = frac in ('ulp-', 'ulp+') or abs(frac) < 0.01
    else:
        raise Discrepancy('harness.bad_form', form, case)
    t = tr.Transaction(network=net, witness_type='legacy')
    try:
        t.add_output(arg, public_hash=PKH)
        val = t.outputs[0].value
        raw = t.raw()
    except Exception as e:
        if ok:
            raise Discrepancy('output.add.raises', 'add_output(%r) on %s raised %r' % (arg, net, e), case)
        ctx.refusal('output.add.%s' % form)
        return
    wire = _wire_amount(raw)
    if not ok and form == 'add_frac' and near and wire == n and val == n:
        # (not whole, but nearer to n than any float arithmetic resolves: taking it as n puts no wrong amount anywhere)
        ctx.klass('output.add_frac.taken_as_nearest')
        return
    if not ok:
        raise Discrepancy('output.add.accepted', 'add_output(%r) was serialised with amount %r' % (arg, wire), case)
    if type(val) is not int or val != n or wire != n:
        raise Discrepancy('output.add.inexact', 'add_output(%r): value %r (%s), amount on the wire %r' %
                          (arg, val, type(val).__name__, wire), case)


# ---- table -----------------------------------------------------------------------------------------

def check_table(ctx, case):
    """The library's denominator table and network units mean what the symbols mean."""
    from ref import money
    values, _, config = _lib()
    import bitcoinlib.networks as networks
    table = config.NETWORK_DENOMINATORS
    seen = {}
    for k, s in table.items():
        if s not in money.UNIT_EXP:
            raise Discrepancy('table.unknown_symbol', 'NETWORK_DENOMINATORS has symbol %r with no known meaning' % s,
                              case)
        if Fraction(repr(k)) != money.den_value(s):
            raise Discrepancy('table.value', 'NETWORK_DENOMINATORS[%r] = %r, the symbol means %s' %
                              (k, s, money.den_value(s)), case)
        seen[s] = k
    for s in DENS:
        if s not in seen:
            raise Discrepancy('table.missing', 'NETWORK_DENOMINATORS lacks %r' % s, case)
    for name, d in _nets().items():
        try:
            nw = networks.Network(name)
        except Exception as e:
            raise Discrepancy('table.network', 'Network(%r) raised %r' % (name, e), case)
        if Fraction(repr(nw.denominator)) != Fraction(1, 10 ** 8) or nw.currency_code != d['currency_code']:
            raise Discrepancy('table.network', 'network %s: denominator %r currency code %r (pinned 1e-08, %r)' %
                              (name, nw.denominator, nw.currency_code, d['currency_code']), case)


# ---- blocks ----------------------------------------------------------------------------------------

def _block_amounts(case):
    n0, step, count = case['n0'], case.get('step', 1), case.get('count', 1)
    return [(n0 + i * step) % (MAX + 1) for i in range(count)]


def run_block(ctx, case, record=False):
    """case: kind=block, path=parse|format|numeric, n0, step, count, dens (list or 'all'), + path fields"""
    path = case['path']
    dens = DENS if case.get('dens', 'all') == 'all' else case['dens']
    amounts = _block_amounts(case)
    done = 0
    for n in amounts:
        for den in dens:
            sub = {k: v for k, v in case.items() if k not in ('n0', 'step', 'count', 'dens', 'path', 'kind')}
            sub.update({'kind': path, 'n': n, 'den': den})
            if path == 'format':
                from ref import money
                need = money.needed_decimals(den)
                mode = case.get('dec_mode', 'need')
                if mode == 'default' and money.UNIT_EXP[den] <= 0:
                    sub['decimals'] = None
                elif mode == 'extra':
                    sub['decimals'] = need + 2
                else:
                    sub['decimals'] = need
                sub.pop('dec_mode', None)
            if record:
                if _nontrivial(n, den):
                    ctx.nt((path, sub.get('api') or sub.get('form') or sub.get('decimals'), n, den,
                            sub.get('code', sub.get('net'))))
                ctx.klass('%s.den.%s' % (path, den or 'coin'))
            done += 1
            DISPATCH[path](ctx, sub)
    if record:
        ctx.klass('%s.%s' % (path, _n_class(amounts[0])))
        ctx.count(max(0, done - 1))


def check_vhistory(ctx, case):
    """One Value object over time: conversions to the smallest unit interleaved with += / -= / + / -. Every conversion
    must give the integer the running amount has NOW (model: Python ints). Amounts stay below 10^14 units, where the
    float the library keeps internally cannot be off by half a unit. case: kind=vhistory, net, n0, ops [{'op': 'sat' |
    'bytes' | 'index' | 'output' | 'iadd' | 'isub' | 'add' | 'sub', 'n': units}]"""
    values, tx, _ = _lib()
    net = case['net']
    try:
        v = values.Value.from_satoshi(case['n0'], network=net)
    except Exception as e:
        raise Discrepancy('vhistory.raises', 'from_satoshi(%d, network=%r) raised %r' % (case['n0'], net, e), case)
    cur = case['n0']
    done = []
    for op in case['ops']:
        name, n = op['op'], op.get('n', 0)
        try:
            if name in ('iadd', 'add'):
                o = values.Value.from_satoshi(n, network=net)
                if name == 'iadd':
                    v += o
                else:
                    v = v + o
                cur += n
                done.append('%s %d' % (name, n))
                continue
            if name in ('isub', 'sub'):
                if n > cur:
                    continue
                o = values.Value.from_satoshi(n, network=net)
                if name == 'isub':
                    v -= o
                else:
                    v = v - o
                cur -= n
                done.append('%s %d' % (name, n))
                continue
            if name == 'sat':
                got = v.value_sat
            elif name == 'bytes':
                got = int.from_bytes(v.to_bytes(), 'little')
            elif name == 'index':
                got = v.__index__()
            else:
                got = tx.Output(v, lock_script=bytes.fromhex('76a914' + PKH + '88ac'), network=net).value
        except Exception as e:
            raise Discrepancy('vhistory.raises', '%s after %r raised %r' % (name, done, e), case)
        if got != cur:
            raise Discrepancy('vhistory.stale:%s' % name, 'Value of %d units on %s after %r: %s gives %r, the amount is '
                              '%d' % (case['n0'], net, done, name, got, cur), case)
        done.append(name)
        ctx.count()



def check_ctorfee(ctx, case):
    """The fee a Transaction object reports when it is made from inputs with known values and outputs (no fee given):
    inputs minus outputs, a non-negative integer - or the constructor refuses (it does so for outputs above inputs)."""
    _, tr, _cfg = _lib()
    vin, vout = case['vin'], case['vout']
    try:
        inputs = [tr.Input(prev_txid=('00' * 32 if case['coinbase'] else '%064x' % (k + 1)),
                           output_n=0xffffffff if case['coinbase'] else k, value=v, network='bitcoin')
                  for k, v in enumerate(vin)]
        outputs = [tr.Output(v, public_hash=PKH, network='bitcoin') for v in vout]
        t = tr.Transaction(inputs, outputs, network='bitcoin', coinbase=case['coinbase'])
        fee = t.fee
    except Exception as e:
        ctx.refusal('ctorfee.%s' % type(e).__name__)
        if sum(vin) > sum(vout) and all(v > 0 for v in vin):
            raise Discrepancy('ctorfee.refused', 'Transaction(inputs %r, outputs %r, coinbase=%r) raised %r' %
                              (vin, vout, case['coinbase'], e), case)
        return
    if fee is None:
        ctx.klass('ctorfee.not_reported')
        return
    if type(fee) is not int or fee < 0 or fee != sum(vin) - sum(vout):
        raise Discrepancy('ctorfee.value', 'Transaction(inputs %r, outputs %r, coinbase=%r).fee = %r (%s); inputs minus '
                          'outputs is %d' % (vin, vout, case['coinbase'], fee, type(fee).__name__, sum(vin) - sum(vout)),
                          case)

DISPATCH = {'parse': check_parse, 'format': check_format, 'numeric': check_numeric, 'output': check_output,
            'table': check_table, 'vhistory': check_vhistory, 'ctorfee': check_ctorfee}


def replay(ctx, case):
    if case['kind'] == 'block':
        run_block(ctx, case)
    else:
        DISPATCH[case['kind']](ctx, case)


# ---- probes ----------------------------------------------------------------------------------------

def probes(ctx):
    saved = ctx.findings
    ctx.findings = {}
    try:
        plist = [
            (F_FLOAT, {'kind': 'parse', 'n': 2045713996744033, 'den': 'µ', 'code': 'BTC', 'api': 'v2s'},
             "value_to_satoshi('20457139967440.33 µBTC') = 2045713996744032: amounts >= 10^15 smallest units are off "
             "by one unit for 0.1-3 % of values in every denominator whose float constant is inexact (text is scaled "
             "as float(text) * den / 1e-8)"),
            (F_FMT, {'kind': 'format', 'n': 2099999999953437, 'den': 'µ', 'net': 'dogecoin', 'decimals': 2,
                     'den_as': 'number'},
             "Value.from_satoshi(2099999999953437, network='dogecoin').str(1e-06, decimals=2) = '20999999999534.38 "
             "µDOGE' (one unit too much); str() divides floats, so for amounts >= 10^15 the text can be a unit off, and "
             "with n/msat/µsat denominators or surplus decimals it carries sub-unit noise (e.g. '2099999999934465280 "
             "msatLTC') that parses back one unit off; Value.from_satoshi(n, denominator=d).value_sat is off by one "
             "the same way"),
            (F_DA, {'kind': 'parse', 'n': 1000000000, 'den': 'da', 'code': 'BTC', 'api': 'v2s'},
             "Value('1 daBTC') raises 'Currency symbol not recognised' (prefix 'd' is matched before 'da'), so the "
             "text produced by str('da') cannot be parsed back"),
            (F_TERA, {'kind': 'parse', 'n': 2100000000000000, 'den': 'T', 'code': 'BTC', 'api': 'v2s'},
             "Value('0.000021 TBTC') is read as 0.000021 tBTC (testnet, 2100 sat): tera-bitcoin/-dogecoin texts as "
             "produced by str('T') collide with the case-insensitive testnet currency codes"),
            (F_SHARED, {'kind': 'parse', 'n': 14099, 'den': '', 'code': '', 'api': 'v2s_net', 'net': 'testnet4'},
             "value_to_satoshi('0.00014099', network='testnet4') raises 'Value uses different network (testnet)': "
             "for testnet4 and litecoin_legacy (currency code shared with an earlier network) every amount text is "
             "refused, also by Output(value=text, network=...) and Wallet.send"),
        ]
        for fid, case, what in plist:
            try:
                replay(ctx, case)
                ctx.probe(fid, False, what)
            except Discrepancy:
                ctx.probe(fid, True, what)
    finally:
        ctx.findings = saved


# ---- strategies ------------------------------------------------------------------------------------

def amounts_strategy():
    from hypothesis import strategies as st

    def clamp(v):
        return min(max(v, 0), MAX)
    return st.one_of(
        st.integers(0, MAX),
        st.integers(10 ** 15, MAX),
        st.integers(0, 100000).map(lambda k: MAX - k),
        st.integers(0, 10 ** 6),
        st.tuples(st.integers(1, 21), st.integers(0, 14), st.sampled_from([-1, 0, 1])).map(
            lambda t: clamp(t[0] * 10 ** t[1] + t[2])),
        st.tuples(st.integers(0, 50), st.sampled_from([-1, 0, 1])).map(lambda t: clamp((1 << t[0]) + t[1])),
        st.integers(0, MAX // 10 ** 8).map(lambda c: c * 10 ** 8),
        st.integers(10 ** 12, 10 ** 15),
    )


def steps_strategy():
    from hypothesis import strategies as st
    return st.one_of(st.just(1), st.sampled_from([10, 10 ** 8, 10 ** 8 + 1, 999999999989, 123456789]),
                     st.integers(1, 10 ** 14))


def code_variants():
    from hypothesis import strategies as st
    codes = _codes()
    return st.one_of(st.sampled_from(codes), st.sampled_from(codes), st.sampled_from(codes).map(str.lower),
                     st.sampled_from(codes).map(str.upper), st.just(''))


def parse_block_strategy(count):
    from hypothesis import strategies as st
    names = list(_nets().keys())

    def build(t):
        n0, step, code, api, pad, net, ws = t
        case = {'kind': 'block', 'path': 'parse', 'n0': n0, 'step': step, 'count': count, 'dens': 'all',
                'code': code, 'api': api, 'pad': pad, 'ws': ws}
        if api in ('v2s_net', 'value_net'):
            case['net'] = net
            case['code'] = ''
        if api == 'v2s_net_code':
            # a network that carries the code (any of those sharing it)
            same = [x for x in names if _nets()[x]['currency_code'].upper() == code.upper()]
            if not same:
                case['api'] = 'v2s'
            else:
                case['net'] = same[n0 % len(same)]
        return case
    return st.tuples(amounts_strategy(), steps_strategy(), code_variants(), st.sampled_from(PARSE_APIS),
                     st.sampled_from([0, 0, 0, 1, 3]), st.sampled_from(names),
                     st.sampled_from([0, 0, 0, 1, 2, 3, 4, 5])).map(build)


def format_block_strategy(count):
    from hypothesis import strategies as st
    names = list(_nets().keys())
    return st.fixed_dictionaries({
        'kind': st.just('block'), 'path': st.just('format'), 'n0': amounts_strategy(), 'step': steps_strategy(),
        'count': st.just(count), 'dens': st.just('all'), 'net': st.sampled_from(names),
        'dec_mode': st.sampled_from(['need', 'need', 'default', 'extra']),
        'den_as': st.sampled_from(['symbol', 'symbol', 'number'])})


def numeric_block_strategy(count):
    from hypothesis import strategies as st
    names = list(_nets().keys())
    return st.fixed_dictionaries({
        'kind': st.just('block'), 'path': st.just('numeric'), 'n0': amounts_strategy(), 'step': steps_strategy(),
        'count': st.just(count), 'dens': st.just('all'), 'net': st.sampled_from(names),
        'form': st.sampled_from(['value_num', 'value_num', 'from_sat', 'from_sat_den']),
        'den_as': st.sampled_from(['symbol', 'number'])})


def output_strategy():
    from hypothesis import strategies as st
    nets = _nets()
    names = list(nets.keys())

    def build(t):
        n, den, net, form, with_code, frac = t
        case = {'kind': 'output', 'n': n, 'den': den, 'net': net, 'form': form,
                'code': nets[net]['currency_code'] if with_code else ''}
        if form == 'add_frac':
            case['frac'] = frac
        if form in ('add_int', 'add_float', 'add_neg', 'add_frac', 'int'):
            case['den'] = ''
            case['code'] = ''
        return case
    return st.tuples(amounts_strategy(), st.sampled_from(DENS), st.sampled_from(names),
                     st.sampled_from(['text', 'text', 'value', 'int', 'add_int', 'add_float', 'add_neg', 'add_frac']),
                     st.booleans(), st.sampled_from([0.5, 0.25, 0.125, 0.75, 'ulp-', 'ulp-', 'ulp+', 1e-9, -1e-9, -4e-9])).map(build)


# ---- deterministic parts ---------------------------------------------------------------------------

def _float_residual(n, den):
    """|float image - exact| of the straightforward float scaling of the text of n in den (used only to pick
    candidates; the verdict always comes from ref/money)."""
    from ref import money
    t = money.decimal_text(n, den)
    e = money.UNIT_EXP[den]
    f = float(t) * float('1e%d' % e) / 1e-8
    return abs(f - n)


def directed_hard_cases(ctx):
    """Per denominator: strided enumeration over the upper part of the range, keep the amounts whose float
    image is farthest from exact, run those through every parse api and the format path."""
    ncand = ctx.scale(3000, 60000)
    keep = ctx.scale(24, 200)
    stride = 7368787 * 1000003          # ~7.4e12, co-prime to powers of ten
    codes = _codes()
    names = list(_nets().keys())
    for di, den in enumerate(DENS):
        if ctx.out_of_time():
            return
        base = MAX - (ctx.shard * 104729 + di * 15485863)
        cands = []
        for i in range(ncand):
            n = 6 * 10 ** 14 + (base - i * stride) % (15 * 10 ** 14 + 1)
            cands.append((_float_residual(n, den), n))
        cands.sort(reverse=True)
        for j, (r, n) in enumerate(cands[:keep]):
            code = codes[(j + ctx.shard) % len(codes)]
            net = names[(j + di) % len(names)]
            for api in ('v2s', 'value'):
                c = {'kind': 'parse', 'n': n, 'den': den, 'code': code, 'api': api, 'pad': 0}
                ctx.nt(('parse', api, n, den, code))
                ctx.guard(lambda cc: check_parse(ctx, cc), c)
            c = {'kind': 'parse', 'n': n, 'den': den, 'code': '', 'api': 'v2s_net', 'pad': 0, 'net': net}
            ctx.nt(('parse', 'v2s_net', n, den, net))
            ctx.guard(lambda cc: check_parse(ctx, cc), c)
            from ref import money
            c = {'kind': 'format', 'n': n, 'den': den, 'net': net, 'decimals': money.needed_decimals(den),
                 'den_as': 'symbol'}
            ctx.nt(('format', c['decimals'], n, den, net))
            ctx.guard(lambda cc: check_format(ctx, cc), c)
            ctx.klass('directed.' + (den or 'coin'))


def dense_window(ctx):
    """consecutive amounts just below the total supply, every denominator, text with the bitcoin / network code"""
    w = ctx.scale(500, 20000)
    hi = MAX - ctx.shard * w
    codes = _codes()
    for n in range(hi, hi - w, -1):
        if ctx.out_of_time():
            ctx.exhaustive('dense window below 21e14', False)
            return
        code = codes[n % len(codes)]
        for den in DENS:
            c = {'kind': 'parse', 'n': n, 'den': den, 'code': code, 'api': 'v2s', 'pad': 0}
            ctx.nt(('parse', 'v2s', n, den, code))
            ctx.guard(lambda cc: check_parse(ctx, cc), c)
    ctx.klass('dense_window_amounts', w)
    ctx.exhaustive('dense window below 21e14')


def small_exhaustive(ctx):
    """every amount 0..N (sharded) in every denominator and code: the low end has no excuse at all"""
    top = ctx.scale(8000, 320000)
    a = top * ctx.shard // ctx.nshards
    b = top * (ctx.shard + 1) // ctx.nshards
    codes = _codes() + ['']
    names = list(_nets().keys())
    from ref import money
    for n in range(a, b):
        code = codes[n % len(codes)]
        net = names[n % len(names)]
        for den in DENS:
            ctx.guard(lambda cc: check_parse(ctx, cc),
                      {'kind': 'parse', 'n': n, 'den': den, 'code': code, 'api': 'v2s', 'pad': 0})
            if den not in ('', 'sat'):
                ctx.nt(('parse', 'v2s', n, den, code))
        den = DENS[n % len(DENS)]
        ctx.guard(lambda cc: check_format(ctx, cc),
                  {'kind': 'format', 'n': n, 'den': den, 'net': net, 'decimals': money.needed_decimals(den)})
    ctx.exhaustive('amounts 0..%d in every denominator' % (top - 1))


def run(ctx):
    if ctx.shard == 0:
        ctx.guard(lambda c: check_table(ctx, c), {'kind': 'table'})
        ctx.sample({'kind': 'parse', 'n': MAX, 'den': 'µ', 'code': 'BTC', 'api': 'v2s'})
        ctx.sample({'kind': 'format', 'n': MAX - 1, 'den': 'k', 'net': 'litecoin', 'decimals': 11})
        for form in ('text', 'value', 'int', 'add_int'):
            for n in (0, 1, MAX):
                ctx.guard(lambda c: check_output(ctx, c),
                          {'kind': 'output', 'n': n, 'den': '', 'code': '', 'net': 'bitcoin', 'form': form})

    small_exhaustive(ctx)
    dense_window(ctx)
    directed_hard_cases(ctx)

    cnt = 6

    def prop_block(case):
        if len(ctx.samples) < 6 and case['n0'] > 10 ** 6:
            ctx.sample(case)
        ctx.klass('%s.api.%s' % (case['path'], case.get('api') or case.get('form') or case.get('dec_mode')))
        run_block(ctx, case, record=True)

    ctx.run_given('parse', parse_block_strategy(cnt), prop_block, ctx.scale(350, 12000))
    ctx.run_given('format', format_block_strategy(cnt), prop_block, ctx.scale(150, 6000))
    ctx.run_given('numeric', numeric_block_strategy(cnt), prop_block, ctx.scale(120, 5000))

    def prop_output(case):
        n, den = case['n'], case['den']
        if _nontrivial(n, den):
            ctx.nt(('output', case['form'], n, den, case['net'], case.get('code')))
        ctx.klass('output.form.' + case['form'])
        ctx.klass('output.net.' + case['net'])
        if len(ctx.samples) < 9:
            ctx.sample(case)
        check_output(ctx, case)
    ctx.run_given('output', output_strategy(), prop_output, ctx.scale(300, 12000))

    # fee reported by a transaction made from valued inputs and outputs
    from hypothesis import strategies as fst
    val = fst.one_of(fst.sampled_from([1, 2, 546, 10 ** 8, 50 * 10 ** 8, 21 * 10 ** 14]), fst.integers(1, 21 * 10 ** 14))
    ctorfee = fst.fixed_dictionaries({'kind': fst.just('ctorfee'), 'coinbase': fst.booleans(),
                                      'vin': fst.lists(val, min_size=1, max_size=1),
                                      'vout': fst.lists(val, min_size=1, max_size=3)}).map(
        lambda c: c if c['coinbase'] else dict(c, vin=c['vin'] * 2))
    delta = fst.tuples(ctorfee, fst.sampled_from([None, None, 0, 1, -1, 123456, -123456])).map(
        lambda t: t[0] if t[1] is None or sum(t[0]['vin']) + t[1] <= 0 else
        dict(t[0], vout=[sum(t[0]['vin']) + t[1]]))

    def prop_ctorfee(case):
        ctx.klass('ctorfee.%s.%s' % ('coinbase' if case['coinbase'] else 'regular',
                                     'above' if sum(case['vout']) > sum(case['vin']) else
                                     'equal' if sum(case['vout']) == sum(case['vin']) else 'below'))
        ctx.nt(('ctorfee', case['coinbase'], tuple(case['vin']), tuple(case['vout'])))
        check_ctorfee(ctx, case)
    ctx.run_given('ctorfee', delta, prop_ctorfee, ctx.scale(60, 3000))

    # one Value object over time (memoised conversions, in-place arithmetic)
    from hypothesis import strategies as hst
    amt = hst.one_of(hst.sampled_from([0, 1, 546, 10 ** 8, 15 * 10 ** 7, 10 ** 13]), hst.integers(0, 10 ** 13))
    vop = hst.one_of(hst.sampled_from([{'op': 'sat'}, {'op': 'sat'}, {'op': 'bytes'}, {'op': 'index'}, {'op': 'output'}]),
                     hst.fixed_dictionaries({'op': hst.sampled_from(['iadd', 'isub', 'iadd', 'add', 'sub']), 'n': amt}))
    vhist = hst.fixed_dictionaries({'kind': hst.just('vhistory'), 'net': hst.sampled_from(sorted(_nets())), 'n0': amt,
                                    'ops': hst.lists(vop, min_size=3, max_size=8)})

    def prop_vhist(case):
        names = [o['op'] for o in case['ops']]
        reads = [i for i, x in enumerate(names) if x in ('sat', 'bytes', 'index', 'output')]
        if reads and any(x in ('iadd', 'isub') for x in names[reads[0]:]):
            ctx.nt(('vhistory', case['net'], case['n0'], str(case['ops'])))
            ctx.klass('vhistory.read_then_inplace_change')
        check_vhistory(ctx, case)
    ctx.run_given('vhistory', vhist, prop_vhist, ctx.scale(150, 5000))
