"""C06 - transaction and block serialisation round-trips byte-for-byte; ids are exact.

Well-formed serialisations come from the *reference* serialiser (ref/wire, props/txgen), the library has to
parse and re-serialise them identically and report the exact fields and ids. API-built transactions are
read back by the reference parser. Blocks go through both of the library's transaction readers.
"""
import io

from vlib.core import Discrepancy

LEVEL = 'exploration'
TECHNIQUE = ('Hypothesis field-level transaction/block generator on a reference serialiser; round-trip + '
             'differential parse against ref/wire')
RULE = ('Transactions are generated field by field (version/locktime/sequence boundary values, 1..4 inputs and '
        'outputs plus counts 252/253/254, scriptSigs and scriptPubKeys from empty / every one-byte script / '
        'standard templates / push sequences / well-formed opcode mixes / junk bytes, witness stacks incl. empty and '
        'one-byte items, coinbases with and without witness, mixed witness presence), serialised by ref/wire and '
        'parsed with strict=True and strict=False. Blocks: random header + coinbase + 0..5 transactions. '
        'Non-trivial = any boundary shape (count or length on a Comp[incl. items of 65534..65537 bytes and explicitly encoded PUSHDATA1/2/4 pushes] actSize boundary, empty or one-byte script or '
        'witness item, coinbase, segwit with a witness-less input, non-standard script); distinct by raw bytes. [blocks: five readers incl. one transaction per call and mixed with limited bulk reads; header fields whose bytes are ASCII hex digits] [every round-tripped transaction is also read from streams with data before and after it] [blocks: dictionary reader between object reads]'
        ' [apiwit: ready-made witness stacks handed to add_input as list or single byte string, read back by the reference parser]')
ASSUMPTIONS = ['ref/wire.py serialises/parses transactions and blocks per the protocol (self-tested on the genesis '
               'block and BIP143 example)',
               'strict=True may refuse transactions whose scripts the library does not understand (counted as '
               'refusal); strict=False - the mode Block uses - must parse every well-formed transaction']
SHARDS = {'quick': 16, 'thorough': 16}
WALL_CAP = {'quick': 600, 'thorough': 3000}


def _lib():
    from bitcoinlib.transactions import Transaction
    from bitcoinlib.blocks import Block
    return Transaction, Block


def _nontrivial_flags(c):
    flags = set()
    if len(c['vin']) >= 252 or len(c['vout']) >= 252:
        flags.add('count_boundary')
    seg = any(i.get('wit') for i in c['vin'])
    for i in c['vin']:
        ss = i['ss']
        if i['prev'] == '00' * 32:
            flags.add('coinbase_wit' if i.get('wit') else 'coinbase')
        if len(ss) == 2:
            flags.add('one_byte_scriptsig')
        if seg and not i.get('wit'):
            flags.add('mixed_witness')
        if i.get('wit') and ss:
            flags.add('scriptsig_and_witness')
        for w in i.get('wit', []):
            if w == '':
                flags.add('empty_witness_item')
            elif len(w) == 2:
                flags.add('one_byte_witness_item')
        if len(ss) // 2 in (75, 76, 77, 252, 253, 254, 255, 256):
            flags.add('len_boundary')
    for o in c['vout']:
        if o['spk'] == '':
            flags.add('empty_spk')
        elif len(o['spk']) == 2:
            flags.add('one_byte_spk')
        if o['v'] >= 1 << 32:
            flags.add('value_ge_2^32')
    return flags



def _shape(b):
    n = len(b)
    if n == 0:
        return 'empty'
    if n == 1:
        if b[0] == 0:
            return '1byte:00'
        return '1byte:ws' if b in (b'\t', b'\n', b'\x0b', b'\x0c', b'\r', b' ') else '1byte'
    if all(c in b'0123456789abcdefABCDEF \t\n\r\x0b\x0c' for c in b):
        return 'ascii-hex-like'
    if b[0] == 0:
        return 'starts-op0'
    return 'len%s' % (n if n < 6 else '>=6')


def _field_diffs(out, ref_tx):
    """-> None if `out` is not a parseable transaction, else list of (location, index, want, got)."""
    from ref import wire
    try:
        got = wire.Tx.parse(out)
    except Exception:
        return None
    d = []
    if got.version != ref_tx.version & 0xffffffff or got.locktime != ref_tx.locktime:
        d.append(('header', 0, None, None))
    if len(got.vin) != len(ref_tx.vin) or len(got.vout) != len(ref_tx.vout):
        d.append(('counts', 0, None, None))
        return d
    for k, (a, b) in enumerate(zip(got.vin, ref_tx.vin)):
        if a.prev_hash != b.prev_hash or a.prev_n != b.prev_n or a.sequence != b.sequence:
            d.append(('vin.outpoint_or_sequence', k, None, None))
        if a.script_sig != b.script_sig:
            d.append(('vin.ss', k, b.script_sig, a.script_sig))
        if a.witness != b.witness:
            d.append(('vin.wit', k, b.witness, a.witness))
    for k, (a, b) in enumerate(zip(got.vout, ref_tx.vout)):
        if a.value != b.value:
            d.append(('vout.value', k, b.value, a.value))
        if a.script != b.script:
            d.append(('vout.spk', k, b.script, a.script))
    if not d and getattr(got, 'segwit_flag', False) != ref_tx.has_witness():
        d.append(('segwit_marker', 0, None, None))
    return d


def _explain(diff, c):
    """Map one field difference to (bucket, finding id or None). A finding id is returned only when the
    trigger AND the exact wrong observation of that finding are present."""
    from props import txgen
    loc, k, want, got = diff
    if loc == 'vout.spk':
        if want == b'\x00' and got == b'':
            return 'vout.spk[1byte:00]->empty', 'C06-zero-byte-item-serialised-empty'
        return 'vout.spk[%s]->%s' % (_shape(want), _shape(got)), None
    if loc in ('vin.ss', 'vin.wit'):
        ci = c['vin'][k]
        if txgen.input_is_exotic(ci):
            return 'vin[scriptsig+witness, not nested-consistent]', 'C06-scriptsig-and-witness-not-nested'
        if loc == 'vin.wit':
            if len(want) == len(got) and all(w == g or (w == b'\x00' and g == b'') for w, g in zip(want, got)):
                return 'vin.wit[item 1byte:00]->empty', 'C06-zero-byte-item-serialised-empty'
        if txgen.input_has_short_sig(ci):
            # (was a finding of its own until the repair ccb8b20; a label only now)
            return 'vin[signature-shaped item outside 69..74 bytes]', None
        if loc == 'vin.wit':
            if not got:
                return 'vin.witness_dropped[%s,ss=%s]' % ('coinbase' if ci['prev'] == '00' * 32 else 'noncoinbase',
                                                          'empty' if not ci['ss'] else 'nonempty'), None
            return 'vin.wit[changed]', None
        if want == b'\x00':
            return 'vin.ss[1byte:00]->%s' % _shape(got), None
        return 'vin.ss[%s]->%s' % (_shape(want), 'empty' if not got else 'changed'), None
    return loc, None


def check_tx(ctx, case):
    from ref import wire
    from props import txgen
    Transaction, _ = _lib()
    c = case['tx']
    strict = case.get('strict', False)
    ref_tx = txgen.tx_from_case(c)
    raw = ref_tx.serialize()
    scripts_wellformed = all(wire.script_is_push_wellformed(bytes.fromhex(i['ss'])) for i in c['vin']
                             if i['prev'] != '00' * 32) and \
        all(wire.script_is_push_wellformed(bytes.fromhex(o['spk'])) for o in c['vout'])
    try:
        t = Transaction.parse(raw, strict=strict)
    except Exception as e:
        if strict:
            # documented: strict mode raises when a transaction is "malformed, incomplete or not understood"
            ctx.refusal('strict.%s' % type(e).__name__)
            return
        ctx.disc('tx.parse.raises', 'Transaction.parse(strict=False) raised %r on well-formed %s' %
                 (e, raw.hex()[:300]), case)
        return
    try:
        out = t.raw()
    except Exception as e:
        ctx.disc('tx.raw.raises', 'raw() raised %r after parsing %s' % (e, raw.hex()[:300]), case)
        return
    if out != raw:
        diffs = _field_diffs(out, ref_tx)
        if diffs is None:
            ctx.disc('tx.roundtrip.bytes:unparseable', 'parse(strict=%s).raw() is not a transaction: %s want %s' %
                     (strict, out.hex()[:300], raw.hex()[:300]), case)
            return
        if not diffs:
            ctx.disc('tx.roundtrip.bytes:encoding', 'same fields, different bytes: got %s want %s' %
                     (out.hex()[:300], raw.hex()[:300]), case)
            return
        explained = [_explain(d, c) for d in diffs]
        for bucket, fid in explained:
            if fid is None or not ctx.known_active(fid):
                ctx.disc('tx.roundtrip.bytes:' + bucket, 'parse(strict=%s).raw() differs (%s): got %s want %s' %
                         (strict, '; '.join(b for b, _ in explained), out.hex()[:400], raw.hex()[:400]), case)
                return
        for fid in sorted(set(f for _, f in explained)):
            ctx.known_hits[fid] = ctx.known_hits.get(fid, 0) + 1
        return
    want_txid = ref_tx.txid().hex()
    if t.txid != want_txid:
        ctx.disc('tx.txid', 'txid %s want %s' % (t.txid, want_txid), case)
        return
    # fields
    try:
        ok = (int.from_bytes(t.version, 'big') == c['version'] and t.locktime == c['locktime'] and
              len(t.inputs) == len(c['vin']) and len(t.outputs) == len(c['vout']))
        where = 'header'
        if ok:
            for li, ci in zip(t.inputs, c['vin']):
                if li.prev_txid[::-1].hex() != ci['prev'] or int.from_bytes(li.output_n, 'big') != ci['n'] or \
                        li.sequence != ci['seq'] or li.unlocking_script.hex() != ci['ss']:
                    ok = False
                    where = 'input %d' % li.index_n
                    break
                got_w = [(b'' if w == b'\0' and False else w).hex() for w in li.witnesses]
                want_w = ci.get('wit', [])
                # a legacy input's .witnesses is an internal scratch list (signature, key), not a parsed field
                if got_w != want_w and (want_w or li.witness_type != 'legacy'):
                    # the library stores an empty witness item as b'\0' (placeholder convention)
                    if [('' if w == '00' else w) for w in got_w] == [('' if w == '00' else w) for w in want_w] and \
                            any(w in ('', '00') for w in want_w):
                        ctx.klass('witness_placeholder_convention')
                    else:
                        ok = False
                        where = 'witness of input %d' % li.index_n
                        break
        if ok:
            for lo, co in zip(t.outputs, c['vout']):
                if lo.value != co['v'] or lo.lock_script.hex() != co['spk']:
                    ok = False
                    where = 'output %d' % lo.output_n
                    break
    except Exception as e:
        ctx.disc('tx.fields.raises', 'reading fields raised %r' % e, case)
        return
    if not ok:
        ctx.disc('tx.fields', 'parsed fields differ at %s' % where, case)
        return
    # the same transaction read from a stream in which it is preceded and followed by other data (transactions read
    # one after the other, the transaction list of a block): the reader takes exactly the bytes of the transaction
    from io import BytesIO
    for entry, prefix, trail in (('parse_bytesio', b'\xaa\xbb\xcc', b'\x05\x06'), ('parse', b'', raw),
                                 ('parse', b'\x00', b'')):
        if True:
            stream = BytesIO(prefix + raw + trail)
            stream.seek(len(prefix))
            what = 'Transaction.%s(stream at offset %d, %d bytes follow)' % (entry, len(prefix), len(trail))
            try:
                t2 = Transaction.parse_bytesio(stream, strict=strict) if entry == 'parse_bytesio' else \
                    Transaction.parse(stream, strict=strict)
                got = (t2.txid, t2.raw(), stream.tell())
            except Exception as e:
                ctx.disc('tx.stream.raises:' + entry, '%s raised %r' % (what, e), case)
                return
            if got != (want_txid, raw, len(prefix) + len(raw)):
                ctx.disc('tx.stream:' + entry, '%s: txid %s (want %s), raw() %s the input bytes, stream position %d (want '
                         '%d)' % (what, got[0], want_txid, 'equals' if got[1] == raw else 'differs from', got[2],
                                  len(prefix) + len(raw)), case)
                return
    ctx.klass('tx.stream_reads')


def check_block(ctx, case):
    from ref import wire
    from props import txgen
    _, Block = _lib()
    header, txs = txgen.block_from_case(case['block'])
    raw = wire.block_serialize(header, txs)
    want_hash = header.hash()
    try:
        b = Block.parse_bytes(raw, parse_transactions=True)
    except Exception as e:
        ctx.disc('block.parse.raises', 'Block.parse_bytes raised %r' % e, case)
        return
    try:
        probs = []
        if b.block_hash != want_hash:
            probs.append('block_hash %s want %s' % (b.block_hash.hex(), want_hash.hex()))
        if b.version_int != header.version or b.prev_block != header.prev_hash[::-1] or \
                b.merkle_root != header.merkle[::-1] or b.time != header.time or b.bits_int != header.bits or \
                b.nonce_int != header.nonce:
            probs.append('header fields differ')
        tgt, neg, ovf = wire.set_compact(header.bits)
        if b.target != tgt:
            probs.append('target %r want %r' % (b.target, tgt))
        if b.tx_count != len(txs) or len(b.transactions) != len(txs):
            probs.append('tx_count %r/%d want %d' % (b.tx_count, len(b.transactions), len(txs)))
        else:
            for k, (lt, rt) in enumerate(zip(b.transactions, txs)):
                if lt.txid != rt.txid().hex():
                    probs.append('txid of transaction %d: %s want %s' % (k, lt.txid, rt.txid().hex()))
                    break
    except Exception as e:
        ctx.disc('block.fields.raises', 'reading block fields raised %r' % e, case)
        return
    # attribute transaction-level differences to transaction-level findings before judging the block
    if len(b.transactions) == len(txs):
        fids = set()
        unexplained = None
        for k, (lt, rt) in enumerate(zip(b.transactions, txs)):
            try:
                out = lt.raw()
            except Exception as e:
                unexplained = 'raw() of transaction %d raised %r' % (k, e)
                break
            if out != rt.serialize():
                diffs = _field_diffs(out, rt)
                ex = [_explain(d, case['block']['txs'][k]) for d in diffs] if diffs else [('unparseable', None)]
                for bucket, fid in ex:
                    if fid is None or not ctx.known_active(fid):
                        unexplained = 'transaction %d: %s' % (k, bucket)
                    else:
                        fids.add(fid)
        if fids and unexplained is None:
            for fid in sorted(fids):
                ctx.known_hits[fid] = ctx.known_hits.get(fid, 0) + 1
            return
    if probs:
        ctx.disc('block.fields', '; '.join(probs), case)
        return
    try:
        ser = b.serialize()
    except Exception as e:
        ctx.disc('block.serialize.raises', 'serialize raised %r' % e, case)
        return
    if ser != raw:
        ctx.disc('block.roundtrip.bytes', 'Block.serialize() differs from input (first diff at byte %d of %d)' %
                 (next((i for i in range(min(len(ser), len(raw))) if ser[i] != raw[i]), min(len(ser), len(raw))),
                  len(raw)), case)
        return
    # second reader: dictionary reader on an unparsed block
    try:
        b2 = Block.parse_bytes(raw, parse_transactions=False)
        dicts = b2.parse_transactions_dict()
    except Exception as e:
        ctx.disc('block.dictreader.raises', 'parse_transactions_dict raised %r' % e, case)
        return
    if len(dicts) != len(txs):
        ctx.disc('block.dictreader.count', 'dict reader returned %d transactions want %d' % (len(dicts), len(txs)),
                 case)
        return
    for k, (d, rt) in enumerate(zip(dicts, txs)):
        txid = d['txid'].hex() if isinstance(d['txid'], bytes) else d['txid']
        if txid != rt.txid().hex():
            ctx.disc('block.dictreader.txid', 'dict reader txid %d: %s want %s' % (k, txid, rt.txid().hex()), case)
            return
        if d['rawtx'] != rt.serialize():
            ctx.disc('block.dictreader.rawtx', 'dict reader rawtx %d differs' % k, case)
            return
    # third: incremental object reader
    try:
        b3 = Block.parse_bytes(raw, parse_transactions=False)
        b3.parse_transactions()
        ids3 = [t.txid for t in b3.transactions]
    except Exception as e:
        ctx.disc('block.objreader.raises', 'parse_transactions raised %r' % e, case)
        return
    if ids3 != [t.txid().hex() for t in txs]:
        ctx.disc('block.objreader.txids', 'parse_transactions txids differ', case)
        return
    # fourth: the one-transaction-per-call readers, alone and mixed with the limited bulk reader; every reader has to
    # hand out the same transactions (ids and bytes) and leave a block that serialises to the input
    want_ids = [t.txid().hex() for t in txs]
    want_raw = [t.serialize() for t in txs]
    for mode in ('single', 'mixed', 'single_dict', 'dict_between'):
        try:
            b4 = Block.parse_bytes(raw, parse_transactions=False)
            got = []
            if mode == 'single_dict':
                for _ in range(len(txs) + 1):
                    d = b4.parse_transaction_dict()
                    if not d:
                        break
                    got.append((d['txid'].hex() if isinstance(d['txid'], bytes) else d['txid'], d['rawtx']))
                ser4 = None
            elif mode == 'dict_between':
                # some transactions read as objects, the dictionary reader asked in between, the rest read as objects
                b4.parse_transactions(limit=1 + len(txs) // 3)
                n_before = len(b4.transactions)
                dicts4 = b4.parse_transactions_dict()
                b4.parse_transactions()
                got = [(t.txid, t.raw()) for t in b4.transactions]
                ser4 = b4.serialize()
                rest = [(d['txid'].hex() if isinstance(d['txid'], bytes) else d['txid']) for d in dicts4]
                if rest != want_ids[n_before:]:
                    ctx.disc('block.reader_dict_between.dict_ids', 'dictionary reader after %d object reads gives ids %r, '
                             'the remaining transactions are %r' % (n_before, rest[:3], want_ids[n_before:][:3]), case)
                    return
            else:
                if mode == 'mixed':
                    b4.parse_transactions(limit=1)
                for _ in range(len(txs) + 1):
                    if not b4.parse_transaction():
                        break
                    if mode == 'mixed':
                        b4.parse_transactions(limit=1)
                got = [(t.txid, t.raw()) for t in b4.transactions]
                ser4 = b4.serialize()
        except Exception as e:
            ctx.disc('block.reader_%s.raises' % mode, 'reading the transactions one call at a time (%s) raised %r' %
                     (mode, e), case)
            return
        if [g[0] for g in got] != want_ids:
            ctx.disc('block.reader_%s.txids' % mode, 'one-call-at-a-time reader (%s) gives ids %r, want %r' %
                     (mode, [g[0] for g in got][:4], want_ids[:4]), case)
            return
        if [g[1] for g in got] != want_raw:
            k = next(i for i in range(len(got)) if got[i][1] != want_raw[i])
            ctx.disc('block.reader_%s.rawtx' % mode, 'one-call-at-a-time reader (%s): transaction %d serialises to %s, '
                     'input bytes %s' % (mode, k, got[k][1].hex()[:200], want_raw[k].hex()[:200]), case)
            return
        if ser4 is not None and ser4 != raw:
            ctx.disc('block.reader_%s.roundtrip' % mode, 'block read one transaction per call (%s) serialises '
                     'differently from the input' % mode, case)
            return


def check_api(ctx, case):
    """A transaction built through the API serialises to bytes the independent parser reads back to the
    requested fields."""
    from props import txplan
    from ref import wire
    plan = case['plan']
    try:
        t = txplan.realise(plan, allow_keyless=bool(case.get('signed', True)))
        if case.get('signed', True):
            txplan.sign_history(t, plan)
        raw = t.raw()
    except Exception as e:
        ctx.refusal('api.%s' % type(e).__name__)
        return
    try:
        r = wire.Tx.parse(raw)
    except Exception as e:
        raise Discrepancy('api.unparseable', 'raw() of API-built transaction not parseable: %r %s' %
                          (e, raw.hex()[:300]), case)
    probs = []
    if r.version != txplan.expected_version(plan):
        probs.append('version %d want %d' % (r.version, txplan.expected_version(plan)))
    if r.locktime != plan['locktime']:
        probs.append('locktime %d want %d' % (r.locktime, plan['locktime']))
    if len(r.vin) != len(plan['inputs']) or len(r.vout) != len(plan['outputs']):
        probs.append('counts')
    else:
        for k, (a, i) in enumerate(zip(r.vin, plan['inputs'])):
            if a.prev_hash[::-1].hex() != i['prev'] or a.prev_n != i['n'] or a.sequence != i['seq']:
                probs.append('input %d outpoint/sequence' % k)
            po = txplan.prevout(i)
            if po['redeem'] is not None and po['segwit'] and a.script_sig != wire.push_data(po['redeem']):
                probs.append('input %d nested scriptSig %s want push of %s' % (k, a.script_sig.hex(),
                                                                              po['redeem'].hex()))
            if i['kind'] in ('p2wpkh', 'p2wsh_ms') and a.script_sig != b'':
                probs.append('input %d native segwit input with scriptSig' % k)
        for k, (a, o) in enumerate(zip(r.vout, plan['outputs'])):
            if a.value != o['value'] or a.script != txplan.output_script(o):
                probs.append('output %d: %d %s want %d %s' % (k, a.value, a.script.hex(), o['value'],
                                                              txplan.output_script(o).hex()))
    if probs:
        ctx.disc('api.fields', '; '.join(probs[:4]), case)
        return
    # ids of the built transaction once parsed back by the library itself
    try:
        from bitcoinlib.transactions import Transaction
        t2 = Transaction.parse(raw, network=plan['network'])
        if t2.txid != r.txid().hex():
            ctx.disc('api.reparse.txid', 'txid after re-parse %s want %s' % (t2.txid, r.txid().hex()), case)
            return
        if t2.raw() != raw:
            ctx.disc('api.reparse.bytes', 're-parse of API-built transaction does not round-trip', case)
    except Discrepancy:
        raise
    except Exception as e:
        ctx.disc('api.reparse.raises', 'library cannot parse its own transaction: %r' % e, case)


def _der_like(r, s, hash_type):
    """Strict DER signature of (r, s) followed by the hash type byte, as hex."""
    def enc(v):
        b = v.to_bytes((v.bit_length() + 8) // 8 or 1, 'big')
        return b'\x02' + bytes([len(b)]) + b
    body = enc(r) + enc(s)
    return (b'\x30' + bytes([len(body)]) + body + bytes([hash_type])).hex()


_APIWIT_PUBS = None


def _apiwit_pubs():
    global _APIWIT_PUBS
    if _APIWIT_PUBS is None:
        from ref import ec
        _APIWIT_PUBS = [ec.ser_compressed(ec.pubkey(d)) for d in (1, 2, 3, 7, 0xdeadbeef)]
    return _APIWIT_PUBS


def _apiwit_stack(spec):
    """Witness stack (list of byte strings, b'' = empty item) of one input described by spec."""
    from ref import wire
    pubs = _apiwit_pubs()
    sigs = [bytes.fromhex(x) for x in spec['sigs']]
    kind = spec['shape']
    if kind == 'p2wpkh':
        return [sigs[0], pubs[spec['k'] % len(pubs)]]
    if kind == 'multisig':
        n = 2 + spec['k'] % 2
        script = bytes([0x50 + len(sigs)]) + b''.join(wire.push_data(pubs[(spec['k'] + j) % len(pubs)])
                                                      for j in range(n)) + bytes([0x50 + n, 0xae])
        if len(sigs) > n:
            sigs = sigs[:n]
            script = bytes([0x50 + n]) + script[1:]
        return [b''] + sigs + [script]
    if kind == 'branch':
        script = (b'\x63' + wire.push_data(pubs[spec['k'] % len(pubs)]) + b'\xac\x67' +
                  wire.push_data(pubs[(spec['k'] + 1) % len(pubs)]) + b'\xac\x68')
        return [sigs[0], b'' if spec['k'] % 2 else b'\x01', script]
    if kind == 'empties':
        return [b''] * (1 + spec['k'] % 3)
    raise HarnessError('unknown witness shape %r' % kind)


def check_apiwit(ctx, case):
    """Inputs handed to the API with ready-made witness stacks (as a list of items or as the single serialised byte
    string found in a raw transaction - both documented forms of the `witnesses` argument; the second is what the
    wallet and the service cache use when they rebuild a stored transaction): the bytes the library serialises are
    read back by the independent parser to the fields that were given."""
    from ref import wire
    from bitcoinlib.transactions import Transaction
    stacks = [_apiwit_stack(i) for i in case['inputs']]
    try:
        t = Transaction(version=case['version'], locktime=case['locktime'], network='bitcoin', witness_type='segwit')
        for i, stack in zip(case['inputs'], stacks):
            if i['form'] == 'bytes':
                w = wire.compact_size(len(stack)) + b''.join(wire.compact_size(len(x)) + x for x in stack)
            else:
                w = [x if x else b'\0' for x in stack]      # the library's in-memory convention for an empty item
            t.add_input(i['prev'], i['n'], sequence=i['seq'], witnesses=w, witness_type='segwit')
        for o in case['outputs']:
            t.add_output(o['value'], lock_script=bytes.fromhex(o['spk']))
        raw = t.raw()
    except Exception as e:
        ctx.refusal('apiwit.%s' % type(e).__name__)
        return
    try:
        r = wire.Tx.parse(raw)
    except Exception as e:
        raise Discrepancy('apiwit.unparseable', 'raw() of API-built transaction not parseable: %r %s' %
                          (e, raw.hex()[:300]), case)
    probs = []
    # add_input documents: version 1 becomes 2 when an input carries a relative lock-time sequence
    want_version = 2 if any(0 < i['seq'] < 0x80000000 for i in case['inputs']) else case['version']
    if r.version != want_version or r.locktime != case['locktime']:
        probs.append('version/locktime %d/%d' % (r.version, r.locktime))
    if len(r.vin) != len(case['inputs']) or len(r.vout) != len(case['outputs']):
        probs.append('counts')
    else:
        for k, (a, i, stack) in enumerate(zip(r.vin, case['inputs'], stacks)):
            if a.prev_hash[::-1].hex() != i['prev'] or a.prev_n != i['n'] or a.sequence != i['seq']:
                probs.append('input %d outpoint/sequence' % k)
            if a.script_sig != b'':
                probs.append('input %d: scriptSig %s on a native witness input' % (k, a.script_sig.hex()[:40]))
            if list(a.witness) != stack:
                probs.append('input %d (%s form, %s): witness stack given as %s, serialised as %s' % (
                    k, i['form'], i['shape'], [x.hex()[:12] + '(%d)' % len(x) for x in stack],
                    [x.hex()[:12] + '(%d)' % len(x) for x in a.witness]))
        for k, (a, o) in enumerate(zip(r.vout, case['outputs'])):
            if a.value != o['value'] or a.script.hex() != o['spk']:
                probs.append('output %d' % k)
    if probs:
        ctx.disc('apiwit.fields', '; '.join(probs[:4]), case)


DISPATCH = {'tx': check_tx, 'block': check_block, 'api': check_api, 'apiwit': check_apiwit}


def probes(ctx):
    saved = ctx.findings
    ctx.findings = {}
    base_in = {'prev': '11' * 32, 'n': 0, 'ss': '', 'seq': 0xffffffff, 'wit': []}
    sig = '30440220' + '11' * 32 + '0220' + '22' * 32 + '01'
    pub = '0279be667ef9dcbbac55a06295ce870b07029bfcdb2dce28d959f2815b16f81798'
    plist = [
        ('C06-zero-byte-item-serialised-empty',
         {'kind': 'tx', 'strict': False, 'tx': {'version': 1, 'locktime': 0, 'vin': [base_in],
                                                'vout': [{'v': 1, 'spk': '00'}]}},
         'an output script (or witness item) consisting of the single byte 00 is re-serialised as empty'),
        ('C06-scriptsig-and-witness-not-nested',
         {'kind': 'tx', 'strict': False, 'tx': {'version': 1, 'locktime': 0,
                                                'vin': [dict(base_in, ss='51', wit=['aabb'])],
                                                'vout': [{'v': 1, 'spk': '51'}]}},
         'a non-coinbase input carrying both a scriptSig that is not a nested-segwit push and a witness loses its '
         'witness (or has its scriptSig regenerated) on re-serialisation'),
        ('C06-short-signature-not-recognised',
         {'kind': 'tx', 'strict': False,
          'tx': {'version': 1, 'locktime': 0,
                 'vin': [dict(base_in, wit=['', '3006020101020101' + '01',
                                            '5121' + pub + '51ae'],
                              ss='220020' + 'ab' * 32)],
                 'vout': [{'v': 1, 'spk': '51'}]}},
         'a nested/multisig input whose signature push is outside 69..74 bytes is not recognised: scriptSig / '
         'redeem script are regenerated (as 1-of-n) and the bytes change'),
    ]
    try:
        for fid, case, what in plist:
            try:
                replay(ctx, case)
                ctx.probe(fid, False, what)
            except Discrepancy:
                ctx.probe(fid, True, what)
    finally:
        ctx.findings = saved


def replay(ctx, case):
    DISPATCH[case['kind']](ctx, case)


def run(ctx):
    from hypothesis import strategies as st
    from props import txgen

    def prop_tx(case):
        flags = _nontrivial_flags(case['tx'])
        for f in flags:
            ctx.klass('tx.' + f)
        ctx.klass('tx.strict' if case['strict'] else 'tx.lenient')
        if flags:
            ctx.nt(('tx', case['tx'], case['strict']))
        if len(ctx.samples) < 4 and flags:
            ctx.sample(case)
        check_tx(ctx, case)

    tx_strat = st.fixed_dictionaries({'kind': st.just('tx'), 'strict': st.booleans(),
                                      'tx': txgen.tx_cases(big_counts=False)})
    ctx.run_given('tx', tx_strat, prop_tx, ctx.scale(300, 12000))
    # input / output counts on the CompactSize boundary (252, 253, 254): expensive, a few per shard
    big = st.fixed_dictionaries({'kind': st.just('tx'), 'strict': st.booleans(),
                                 'tx': txgen.tx_cases(big_counts=True, max_in=2, max_out=2)})
    ctx.run_given('tx_big_counts', big, prop_tx, ctx.scale(6, 60))

    # script / witness item lengths on the 16-bit CompactSize boundary (65534, 65535, 65536): directed, few
    @st.composite
    def long_items(draw):
        L = draw(st.sampled_from([65534, 65535, 65536, 65535, 0x10001]))
        where = draw(st.sampled_from(['ss', 'spk', 'wit', 'wit_script']))
        fill = draw(st.sampled_from(['ab', '00', 'ff', '4c']))
        vin = {'prev': draw(st.binary(min_size=32, max_size=32)).hex(), 'n': draw(st.integers(0, 3)), 'ss': '',
               'seq': 0xffffffff, 'wit': []}
        vout = {'v': draw(st.integers(0, 10 ** 9)), 'spk': '0014' + 'cd' * 20}
        if where == 'ss':
            vin['ss'] = '4d' + (L - 3).to_bytes(2, 'little').hex() + fill * (L - 3)
        elif where == 'spk':
            vout['spk'] = '6a4d' + (L - 4).to_bytes(2, 'little').hex() + fill * (L - 4)
        elif where == 'wit':
            vin['wit'] = [fill * L, '51']
        else:
            vin['wit'] = ['01', '75' * (L - 1) + '51']
        return {'kind': 'tx', 'strict': draw(st.booleans()), 'long': '%s=%d' % (where, L),
                'tx': {'version': draw(st.sampled_from([1, 2])), 'locktime': 0, 'vin': [vin], 'vout': [vout]}}

    def prop_long(case):
        ctx.klass('tx.long_item.' + case['long'])
        ctx.nt(('txlong', case['long'], case['strict'], case['tx']['vin'][0]['prev']))
        check_tx(ctx, case)

    ctx.run_given('tx_long_items', long_items(), prop_long, ctx.scale(4, 40))

    def prop_block(case):
        ctx.nt(('block', case['block']))
        ctx.klass('block.segwit_coinbase' if case['block']['txs'][0]['vin'][0]['wit'] else 'block.legacy_coinbase')
        ctx.klass('block.ntx=%d' % min(len(case['block']['txs']), 4))
        if ctx.classes.get('block.samples', 0) < 1:
            ctx.klass('block.samples')
            ctx.sample(case)
        check_block(ctx, case)

    ctx.run_given('block', st.fixed_dictionaries({'kind': st.just('block'), 'block': txgen.block_cases()}),
                  prop_block, ctx.scale(30, 600))

    if ctx.thorough():
        # coverage-guided campaigns with the round-trip oracle inside the target (atheris / libFuzzer)
        from vlib import fuzz
        from fuzz import t_rawtx
        fuzz.run_fuzz(ctx, 'tx', runs=120000, max_len=700)
        fuzz.run_fuzz(ctx, 'rawtx', runs=60000, max_len=1200,
                      with_seed_corpus=t_rawtx.seed_corpus() if ctx.shard % 2 == 0 else None)

    from props import txplan

    def prop_api(case):
        flags = txplan.boundary_flags(case['plan'])
        if flags:
            ctx.nt(('api', case['plan'], case['signed']))
        ctx.klass('api.signed' if case['signed'] else 'api.unsigned')
        check_api(ctx, case)
    ctx.run_given('api', st.fixed_dictionaries({'kind': st.just('api'), 'signed': st.booleans(),
                                                'plan': txplan.plans(max_inputs=3)}),
                  prop_api, ctx.scale(60, 1500))

    # ready-made witness stacks handed to the API (list form / single serialised byte string)
    def _sig_hex():
        return st.tuples(st.integers(1, 2 ** 255), st.integers(1, 2 ** 255),
                         st.sampled_from([1, 1, 2, 3, 0x81, 0x83])).map(
            lambda t_: _der_like(t_[0], t_[1], t_[2]))
    apiwit_in = st.fixed_dictionaries({
        'prev': st.binary(min_size=32, max_size=32).map(lambda b: b.hex()), 'n': st.integers(0, 5),
        'seq': st.sampled_from([0xffffffff, 0xfffffffe, 0xfffffffd, 0, 1, 144]),
        'shape': st.sampled_from(['p2wpkh', 'multisig', 'multisig', 'branch', 'empties']),
        'form': st.sampled_from(['bytes', 'bytes', 'list']), 'k': st.integers(0, 11),
        'sigs': st.lists(_sig_hex(), min_size=1, max_size=3)})
    apiwit = st.fixed_dictionaries({
        'kind': st.just('apiwit'), 'version': st.sampled_from([1, 2]),
        'locktime': st.sampled_from([0, 0, 1, 499999999, 500000000, 0xffffffff]),
        'inputs': st.lists(apiwit_in, min_size=1, max_size=3),
        'outputs': st.lists(st.fixed_dictionaries({
            'value': st.integers(0, 21 * 10 ** 14),
            'spk': st.sampled_from(['0014' + 'cd' * 20, '0020' + 'ab' * 32, '76a914' + '11' * 20 + '88ac',
                                    'a914' + '22' * 20 + '87'])}), min_size=1, max_size=3)})

    def prop_apiwit(case):
        for i in case['inputs']:
            ctx.klass('apiwit.%s.%s' % (i['form'], i['shape']))
        if any(i['shape'] != 'p2wpkh' for i in case['inputs']):
            ctx.nt(('apiwit', case['inputs'], case['version'], case['locktime']))
        check_apiwit(ctx, case)
    ctx.run_given('apiwit', apiwit, prop_apiwit, ctx.scale(40, 1500))
