"""Transaction *plans*: structured descriptions of standard transactions that are realised through the
library API; everything the oracle needs (prevout scripts, script codes, addresses) is computed here
with the reference models only.

plan = {'network': str, 'version': int, 'locktime': int,
        'inputs': [{'kind': KIND, 'secrets': [int...], 'compressed': bool, 'm': int, 'sort': bool,
                    'prev': hex (txid, display order), 'n': int, 'seq': int, 'value': int,
                    'alt_type': bool, 'signers': [index into secrets, in signing order]}],
        'outputs': [{'kind': 'p2pkh'|'p2sh'|'p2wpkh'|'p2wsh'|'p2tr'|'nulldata'|'raw', 'payload': hex, 'value': int,
                     'by': 'address'|'script'}]}
"""
from hypothesis import strategies as st

from ref import ec, wire
from ref import address as raddr
from ref.hashes import hash160, sha256
from vlib import gen

KINDS = ['p2pkh', 'p2pk', 'p2sh_ms', 'p2wpkh', 'p2sh_p2wpkh', 'p2wsh_ms', 'p2sh_p2wsh_ms']
SEGWIT_KINDS = ('p2wpkh', 'p2sh_p2wpkh', 'p2wsh_ms', 'p2sh_p2wsh_ms')
MS_KINDS = ('p2sh_ms', 'p2wsh_ms', 'p2sh_p2wsh_ms')
# networks whose (pinned) table defines bech32 / segwit prefixes for keys; dogecoin has no segwit
SEGWIT_NETWORKS = [n for n in raddr.NETWORK_NAMES if not n.startswith('dogecoin')]


def pub_bytes(secret, compressed):
    pt = ec.pubkey(secret)
    return ec.ser_compressed(pt) if compressed else ec.ser_uncompressed(pt)


def input_pubs(inp):
    pubs = [pub_bytes(d, inp['compressed']) for d in inp['secrets']]
    if inp.get('sort'):
        pubs = sorted(pubs)
    return pubs


def prevout(inp):
    """-> dict(spk, script_code, redeem (scriptSig push for nested) , witness_script, sigversion)"""
    kind = inp['kind']
    pubs = input_pubs(inp)
    out = {'redeem': None, 'witness_script': None, 'segwit': kind in SEGWIT_KINDS}
    if kind == 'p2pkh':
        out['spk'] = raddr.script_p2pkh(hash160(pubs[0]))
        out['script_code'] = out['spk']
    elif kind == 'p2pk':
        out['spk'] = raddr.script_p2pk(pubs[0])
        out['script_code'] = out['spk']
    elif kind == 'p2sh_ms':
        rs = raddr.script_multisig(inp['m'], pubs)
        out['redeem'] = rs
        out['spk'] = raddr.script_p2sh(hash160(rs))
        out['script_code'] = rs
    elif kind == 'p2wpkh':
        h = hash160(pubs[0])
        out['spk'] = raddr.script_p2wpkh(h)
        out['script_code'] = raddr.script_p2pkh(h)
    elif kind == 'p2sh_p2wpkh':
        h = hash160(pubs[0])
        out['redeem'] = raddr.script_p2wpkh(h)
        out['spk'] = raddr.script_p2sh(hash160(out['redeem']))
        out['script_code'] = raddr.script_p2pkh(h)
    elif kind == 'p2wsh_ms':
        ws = raddr.script_multisig(inp['m'], pubs)
        out['witness_script'] = ws
        out['spk'] = raddr.script_p2wsh(sha256(ws))
        out['script_code'] = ws
    elif kind == 'p2sh_p2wsh_ms':
        ws = raddr.script_multisig(inp['m'], pubs)
        out['witness_script'] = ws
        out['redeem'] = raddr.script_p2wsh(sha256(ws))
        out['spk'] = raddr.script_p2sh(hash160(out['redeem']))
        out['script_code'] = ws
    else:
        raise ValueError(kind)
    return out


def _nonminimal_push(op, data):
    n = {0x4c: 1, 0x4d: 2, 0x4e: 4}[op]
    return bytes([op]) + len(data).to_bytes(n, 'little') + data


def output_script(o):
    if o['kind'] == 'raw':
        return bytes.fromhex(o['payload'])
    if o['kind'] == 'nulldata':
        return b'\x6a' + wire.push_data(bytes.fromhex(o['payload']))
    return raddr.script_for(o['kind'], bytes.fromhex(o['payload']))


def output_address(o, network):
    return raddr.address_for(o['kind'], bytes.fromhex(o['payload']), network)


def expected_version(plan):
    """add_input documents: version 1 is bumped to 2 when an input carries a relative lock-time sequence."""
    v = plan['version']
    if v == 1 and any(0 < i['seq'] < 0x80000000 for i in plan['inputs']):
        return 2
    return v


def lib_script_type(inp):
    kind = inp['kind']
    alt = inp.get('alt_type', False)
    if kind in ('p2pkh', 'p2wpkh'):
        return 'sig_pubkey'
    if kind == 'p2pk':
        return 'signature'
    if kind == 'p2sh_p2wpkh':
        return 'p2sh_p2wpkh' if alt else 'sig_pubkey'
    if kind == 'p2sh_p2wsh_ms':
        return 'p2sh_p2wsh' if alt else 'p2sh_multisig'
    return 'p2sh_multisig'


def lib_witness_type(inp):
    kind = inp['kind']
    if kind in ('p2wpkh', 'p2wsh_ms'):
        return 'segwit'
    if kind in ('p2sh_p2wpkh', 'p2sh_p2wsh_ms'):
        return 'p2sh-segwit'
    return 'legacy'


def realise(plan, with_private=False, allow_keyless=True, signatures=None):
    """Build the transaction through the library API. Returns the Transaction (unsigned)."""
    from bitcoinlib.transactions import Transaction
    from bitcoinlib.keys import Key
    segwit = any(i['kind'] in SEGWIT_KINDS for i in plan['inputs'])
    t = Transaction(network=plan['network'], version=plan['version'], locktime=plan['locktime'],
                    witness_type='segwit' if segwit else 'legacy')
    for inp in plan['inputs']:
        if with_private:
            keys = [Key(d, network=plan['network'], compressed=inp['compressed']) for d in inp['secrets']]
        else:
            keys = [Key(pub_bytes(d, inp['compressed']).hex(), network=plan['network']) for d in inp['secrets']]
        if inp.get('keyless') and allow_keyless and inp['kind'] in ('p2pkh', 'p2wpkh', 'p2sh_p2wpkh'):
            # the input is known by the ADDRESS of the output it spends only; its key arrives with sign()
            h = hash160(input_pubs(inp)[0])
            addr = {'p2pkh': lambda: raddr.address_for('p2pkh', h, plan['network']),
                    'p2wpkh': lambda: raddr.address_for('p2wpkh', h, plan['network']),
                    'p2sh_p2wpkh': lambda: raddr.address_for('p2sh', hash160(raddr.script_p2wpkh(h)),
                                                             plan['network'])}[inp['kind']]()
            t.add_input(prev_txid=inp['prev'], output_n=inp['n'], address=addr, script_type=lib_script_type(inp),
                        sequence=inp['seq'], compressed=inp['compressed'], value=inp['value'],
                        witness_type=lib_witness_type(inp))
            continue
        t.add_input(prev_txid=inp['prev'], output_n=inp['n'], keys=keys, script_type=lib_script_type(inp),
                    sigs_required=inp['m'] if inp['kind'] in MS_KINDS else None, sort=bool(inp.get('sort')),
                    sequence=inp['seq'], compressed=inp['compressed'], value=inp['value'],
                    witness_type=lib_witness_type(inp),
                    # (signatures collected elsewhere, handed over as data: DER + hash type, hex)
                    **({'signatures': signatures[len(t.inputs)]} if signatures and signatures.get(len(t.inputs)) else {}),
                    # documented argument "locking script (scriptPubKey) of previous output if known"
                    **({'locking_script': prevout(inp)['spk']} if inp.get('give_spk') else {}))
    for o in plan['outputs']:
        if o.get('by') == 'address' and o['kind'] not in ('raw', 'nulldata'):
            t.add_output(o['value'], address=output_address(o, plan['network']))
        else:
            t.add_output(o['value'], lock_script=output_script(o))
    return t


def lib_keys(plan, k):
    from bitcoinlib.keys import Key
    inp = plan['inputs'][k]
    return [Key(d, network=plan['network'], compressed=inp['compressed']) for d in inp['secrets']]


def sign_history(t, plan, history=None):
    """Sign per input following inp['signers'] (indices into secrets, one sign() call each)."""
    for k, inp in enumerate(plan['inputs']):
        keys = lib_keys(plan, k)
        for s in inp['signers']:
            t.sign(keys[s], index_n=k)
    return t


def boundary_flags(plan):
    f = set()
    if len(plan['inputs']) >= 2:
        f.add('multi_input')
    for i in plan['inputs']:
        if i['kind'] in SEGWIT_KINDS:
            f.add('segwit')
        if i['kind'] in MS_KINDS:
            f.add('multisig')
        if i['value'] >= 1 << 32:
            f.add('value>=2^32')
        if i['seq'] < 0xfffffffe:
            f.add('nonfinal_seq')
        if not i['compressed']:
            f.add('uncompressed')
    for o in plan['outputs']:
        if o['value'] >= 1 << 32:
            f.add('out>=2^32')
        if o['kind'] in ('raw', 'nulldata', 'p2tr'):
            f.add('out_' + o['kind'])
    if len(plan['outputs']) >= 252:
        f.add('many_outputs')
    if plan['version'] not in (1, 2):
        f.add('odd_version')
    if plan['locktime']:
        f.add('locktime')
    return f


# ---- strategies -----------------------------------------------------------------------------------

def _values():
    return st.one_of(st.sampled_from([1, 546, 1000, 100000, 0xffffffff, 0x100000000, 2100000000000000]),
                     st.integers(1, 2100000000000000))


@st.composite
def inputs(draw, network, max_keys=4, kinds=None):
    allowed = kinds or KINDS
    if network not in SEGWIT_NETWORKS:
        allowed = [k for k in allowed if k not in SEGWIT_KINDS]
    kind = draw(st.sampled_from(allowed))
    compressed = True if kind in SEGWIT_KINDS else draw(st.integers(0, 3)) != 0
    if kind in MS_KINDS:
        n = draw(st.integers(1, max_keys))
        m = draw(st.integers(1, n))
    else:
        n = m = 1
    secrets = draw(st.lists(gen.secrets(), min_size=n, max_size=n, unique=True))
    order = draw(st.permutations(list(range(n))))
    signers = list(order[:m])
    return {'kind': kind, 'secrets': secrets, 'compressed': compressed, 'm': m,
            'give_spk': draw(st.sampled_from([False, False, True])),
            'sort': draw(st.booleans()) if kind in MS_KINDS else False,
            'prev': draw(st.binary(min_size=32, max_size=32).filter(lambda b: b != bytes(32))).hex(),
            'n': draw(st.one_of(st.sampled_from([0, 1, 0xfffe, 0xffff, 0xfffffffe]), st.integers(0, 0xfffffffe))),
            'seq': draw(st.one_of(st.sampled_from([0xffffffff, 0xfffffffe, 0xfffffffd, 0, 1]),
                                  st.integers(0, 0xffffffff))),
            'value': draw(_values()),
            'alt_type': draw(st.booleans()),
            'keyless': kind in ('p2pkh', 'p2wpkh', 'p2sh_p2wpkh') and draw(st.integers(0, 4)) == 0,
            'signers': signers}


@st.composite
def outputs(draw, network):
    kinds = ['p2pkh', 'p2sh', 'nulldata', 'raw']
    if network in SEGWIT_NETWORKS:
        kinds += ['p2wpkh', 'p2wsh', 'p2tr']
    kind = draw(st.sampled_from(kinds))
    if kind in ('p2pkh', 'p2sh', 'p2wpkh'):
        payload = draw(st.binary(min_size=20, max_size=20))
    elif kind in ('p2wsh', 'p2tr'):
        payload = draw(st.binary(min_size=32, max_size=32))
    elif kind == 'nulldata':
        payload = draw(st.binary(min_size=1, max_size=80))
    else:
        # non-standard but push-well-formed script (bare multisig, odd opcode mixes)
        payload = draw(st.one_of(
            st.integers(1, 3).map(lambda m: raddr.script_multisig(m, [pub_bytes(d, True) for d in (1, 2, 3)])),
            st.lists(st.sampled_from([0x51, 0x52, 0x75, 0x76, 0x87, 0x93, 0xa9, 0xac]), min_size=2, max_size=6).map(
                bytes),
            # pushes that are NOT in their minimal encoding (consensus-valid, common in OP_RETURN outputs): what is
            # signed must be these bytes, not a re-encoding of the parsed script
            st.builds(lambda op, d, lead: lead + _nonminimal_push(op, d),
                      st.sampled_from([0x4c, 0x4d, 0x4e]), st.binary(min_size=0, max_size=40),
                      st.sampled_from([b'\x6a', b'\x6a', b'', b'\x51'])),
            st.sampled_from([b'\x01\x05', b'\x01\x81\x87', b'\x01\x00', b'\x6a\x01\x10', b'\x4c\x01\x07\x75\x51'])))
    # the library refuses a non-zero value on scripts that start with OP_RETURN
    value = 0 if (kind == 'nulldata' or payload[:1] == b'\x6a') else draw(st.one_of(st.sampled_from([0, 1, 546, 0xffffffff, 0x100000000]),
                                                         st.integers(0, 2100000000000000)))
    return {'kind': kind, 'payload': payload.hex(), 'value': value,
            'by': draw(st.sampled_from(['address', 'script']))}


@st.composite
def plans(draw, max_inputs=4, max_outputs=4, max_keys=4, kinds=None, networks=None):
    network = draw(st.sampled_from(networks or raddr.NETWORK_NAMES))
    n_in = draw(st.integers(1, max_inputs))
    ins = [draw(inputs(network, max_keys, kinds)) for _ in range(n_in)]
    # distinct outpoints
    seen = set()
    for i in ins:
        while (i['prev'], i['n']) in seen:
            i['n'] = (i['n'] + 1) % 0xffffffff
        seen.add((i['prev'], i['n']))
    n_out = draw(st.integers(1, max_outputs))
    outs = [draw(outputs(network)) for _ in range(n_out)]
    return {'network': network,
            'version': draw(st.one_of(st.sampled_from([1, 2]), st.sampled_from([1, 2]), st.sampled_from([3, 0x7fffffff, 0x80000000, 0xffffffff]), st.integers(1, 0xffffffff))),
            'locktime': draw(st.one_of(st.sampled_from([0, 0, 1, 499999999, 500000000, 0xffffffff]),
                                       st.integers(0, 0xffffffff))),
            'inputs': ins, 'outputs': outs}
