"""C13 - ECDSA signatures produced by the library are valid, strictly DER encoded, low-S, deterministic and
never share a nonce; the library's verifier accepts a (digest, signature, public key) triple exactly when
standard secp256k1 ECDSA does.

Oracle: ref/ec (verify / sign_with_k / strict + lenient DER, written on Python ints). The expected verdict of
every verifier case is computed by ref.ec.verify on the explicit (z, r, s, public key bytes) of the case.
"""
from vlib.core import Discrepancy

LEVEL = 'exploration'
TECHNIQUE = ('Hypothesis differential against ref/ec: producer checked by independent verification, BIP66 check '
             'and nonce recovery; verifier checked on reference-built valid triples and single-fault mutations')
RULE = ('Producer: key d and 32-byte digests from boundary-biased classes (0.., 1, n-1, n, n+1, ff.., short, random), '
        'optional explicit nonce k (1..3, n-1.., (n+1)/2 = the short-r nonce, random, >= n), hash type 0..255, '
        'signer given as Key / HDKey / hex / bytes, digest as bytes / hex; per case a batch {d, d2} x {z, z2} is '
        'signed: each signature must verify under ref.ec.verify, 1<=r<n, 1<=s<=n//2 (integer), strict DER + hash '
        'type byte, identical on a second call, be accepted by the library\'s own verifier, and the recovered nonces '
        '(k = s^-1(z + r d), up to sign) must be pairwise distinct within the batch and across the shard. Verifier: '
        'explicit triples built by the reference (valid, high-S twin, crafted s in {1,2,small,n//2,n//2+1,n-1}, '
        'short r, z+n alias) and single faults (r or s in {0, n, +n, 2^256-1, random}, wrong key, digest +-1 / bit '
        'flip, public key off the curve incl. a forgery that verifies in curve-agnostic arithmetic for z=0, '
        'coordinate + p alias), signatures given as ints / 64 bytes / 128 hex / DER+hash type (bytes, hex) incl. '
        'non-canonical DER (padded ints, long-form lengths, trailing bytes, truncation, negative, wrong tags), '
        'public key as Key / private Key / HDKey / bytes / hex, through verify(), Signature.verify() and '
        'Signature.parse(public_key=). Re-use histories: one Signature object (from sign(), parse or integers) '
        'asked 2..5 questions with other digests / keys / the stored key - every answer is the ECDSA verdict of '
        'that call. Non-trivial = producer case with a boundary-class key or digest, an explicit '
        'nonce or a non-default hash type; every verifier case that is not the plain valid triple; distinct by all '
        'case fields. [producer cases with a crafted raw s: digest solved from key, nonce and an s on the low-S boundary n//2 .. 2^255]'
        ' [crafted_sizes: every combination of DER integer lengths; the message as bytes, hex and upper-case hex gives one signature]')
ASSUMPTIONS = ['ref/ec.py implements secp256k1 ECDSA verification and BIP66 correctly (self-tested in ref/selftest.py)',
               '"standard ECDSA" = textbook verification on the 32-byte digest read as a big-endian integer, public '
               'key = SEC1 compressed/uncompressed encoding of a curve point with coordinates < p (hybrid 06/07 keys '
               'are not generated); high S is accepted by standard ECDSA (low-S is a producer rule)',
               'the library is not required to follow RFC 6979 on the digest, only to be deterministic and never to '
               'reuse a nonce; use_rfc6979=False (documented random nonce) is not exercised',
               'for non-canonical DER the library may refuse; it may accept only if the (r, s) it parsed verifies',
               'an exception raised by verify()/Signature() counts as "rejects"',
               'the float comparison s > n/2 in Signature.create misclassifies a band of relative width 2^-53 around '
               'n/2 that no search reaches (the crafted s = n//2, n//2+1 cases exercise the verifier, not create)']
SHARDS = {'quick': 16, 'thorough': 16}
WALL_CAP = {'quick': 600, 'thorough': 3000}

KF_DER_SHORT = 'C13-short-der-signature-refused'
KF_PK_HEX = 'C13-verify-pubkey-hexstring'
KF_PK_ALIAS = 'C13-pubkey-coordinate-ge-p'


def _lib():
    import bitcoinlib.keys as keys
    return keys


def _h(v):
    return '%064x' % v


# ---- producer -------------------------------------------------------------------------------------------

def _key_arg(keys, d, form):
    if form == 'Key':
        return keys.Key(d)
    if form == 'HDKey':
        return keys.HDKey(d.to_bytes(32, 'big'))
    if form == 'hex':
        return _h(d)
    return d.to_bytes(32, 'big')


def _sign_once(keys, case, d, zb, kform):
    kw = {}
    if case.get('k') is not None:
        kw['k'] = int(case['k'], 16)
    if case.get('ht', 1) != 1 or case.get('ht_explicit'):
        kw['hash_type'] = case['ht']
    zform = case.get('zform', 'bytes')
    zarg = zb if zform == 'bytes' else zb.hex().upper() if zform == 'hex_upper' else zb.hex()
    return keys.sign(zarg, _key_arg(keys, d, kform), **kw)


def _check_one_signature(ctx, keys, case, d, zb, q, first):
    """Returns the canonical recovered nonce, or None when an explicit nonce was refused."""
    from ref import ec
    n = ec.N
    if len(zb) > 32:
        # documented: "if unhashed transaction or message is provided the double_sha256 hash of message will be
        # calculated" - anything longer than a hash is a message
        from ref.hashes import dsha256
        z = int.from_bytes(dsha256(zb), 'big')
    else:
        z = int.from_bytes(zb, 'big')
    ht = case.get('ht', 1)
    explicit = case.get('k') is not None
    kform = case.get('keyform', 'Key') if first else 'Key'
    try:
        sig = _sign_once(keys, case, d, zb, kform)
    except Exception as e:
        if explicit:
            k = int(case['k'], 16)
            try:
                ec.sign_with_k(z, d, k)
                bad = False
            except Exception:
                bad = True
            if bad or k % n == 0:
                ctx.refusal('sign.explicit_k_unusable.' + type(e).__name__)
                return None
        raise Discrepancy('sign.raises', 'sign(%s, d=%x, k=%s, hash_type=%r) raised %r' %
                          (zb.hex(), d, case.get('k'), ht, e), case)
    try:
        r, s = int(sig.r), int(sig.s)
        der = bytes(sig.as_der_encoded())
        der_nt = bytes(sig.as_der_encoded(include_hash_type=False))
        raw = bytes(sig.bytes())
    except Exception as e:
        raise Discrepancy('sign.views.raises', 'reading r/s/DER of a fresh signature raised %r' % e, case)
    where = 'sign(%s, d=%x%s)' % (zb.hex(), d, ', k=%s' % case['k'] if explicit else '')
    if not (1 <= r < n and 1 <= s < n):
        raise Discrepancy('sign.range', '%s: r=%x s=%x out of [1, n-1]' % (where, r, s), case)
    if s > n // 2:
        raise Discrepancy('sign.high_s', '%s: s=%x > n//2 (not low-S)' % (where, s), case)
    if not ec.verify(z, r, s, q):
        raise Discrepancy('sign.invalid', '%s: (r=%x, s=%x) does not verify under the signer\'s public key' %
                          (where, r, s), case)
    if not der or der[-1] != ht:
        raise Discrepancy('sign.hash_type_byte', '%s: as_der_encoded() ends in %s, hash type %d expected' %
                          (where, der[-1:].hex(), ht), case)
    if not ec.is_strict_der(der[:-1]) or ec.der_decode_strict(der[:-1]) != (r, s):
        raise Discrepancy('sign.der_not_strict', '%s: DER %s is not the strict encoding of (r, s)' %
                          (where, der[:-1].hex()), case)
    if der[:-1] != ec.der_encode(r, s) or der_nt != ec.der_encode(r, s):
        raise Discrepancy('sign.der_mismatch', '%s: DER %s / %s, canonical %s' % (where, der[:-1].hex(), der_nt.hex(),
                                                                                    ec.der_encode(r, s).hex()), case)
    if raw != r.to_bytes(32, 'big') + s.to_bytes(32, 'big'):
        raise Discrepancy('sign.raw64', '%s: bytes()=%s is not r||s' % (where, raw.hex()), case)
    # determinism: a second call on fresh objects
    try:
        # (other key form and other message form: the signature is a function of key and message only)
        # (hexadecimal text in either letter case is the same message)
        other = dict(case, zform={'bytes': 'hex_upper' if d & 1 else 'hex', 'hex': 'hex_upper' if d & 1 else 'bytes',
                                  'hex_upper': 'hex' if d & 1 else 'bytes'}[case.get('zform', 'bytes')])
        sig2 = _sign_once(keys, other, d, zb, 'Key' if kform != 'Key' else 'hex')
        der2 = bytes(sig2.as_der_encoded())
    except Exception as e:
        raise Discrepancy('sign.second_call.raises', '%s: second call raised %r' % (where, e), case)
    if der2 != der:
        raise Discrepancy('sign.nondeterministic', '%s: two calls gave %s and %s' % (where, der.hex(), der2.hex()), case)
    # the library's verifier on a triple the reference accepts
    try:
        ok = sig.verify()
    except Exception as e:
        ok = 'raised %r' % e
    if ok is not True:
        raise Discrepancy('sign.own_verify', '%s: Signature.verify() of the fresh signature -> %s' % (where, ok), case)
    ctx.count()
    k1, k2 = ec.recover_nonce_candidates(z, r, s, d)
    return min(k1, k2)


def _digest_class(zb):
    from ref import ec
    z = int.from_bytes(zb, 'big')
    if z == 0:
        return 'zero'
    if z < (1 << 64):
        return 'short'
    if z >= ec.N:
        return 'ge_n'
    if z >= ec.N - 1000:
        return 'near_n'
    return 'random'


def check_sign(ctx, case, registry=None):
    from ref import ec
    from vlib.gen import secret_class
    keys = _lib()
    d = int(case['d'], 16)
    zs = [bytes.fromhex(x) for x in case['zs']]
    explicit = case.get('k') is not None
    ds = [d]
    if case.get('d2') and not explicit:
        ds.append(int(case['d2'], 16))
    if explicit:
        zs = zs[:1]
    seen = {}
    first = True
    for dd in ds:
        q = ec.pubkey(dd)
        for zb in zs:
            if (dd, zb) in [(a, b) for (a, b) in seen.values()]:
                continue
            kn = _check_one_signature(ctx, keys, case, dd, zb, q, first)
            first = False
            if kn is None:
                continue
            if not explicit:
                other = seen.get(kn)
                if other is None and registry is not None:
                    other = registry.get(kn)
                if other is not None and other != (dd, zb):
                    pair = {'kind': 'noncepair', 'a': {'d': _h(other[0]), 'z': other[1].hex()},
                            'b': {'d': _h(dd), 'z': zb.hex()}}
                    raise Discrepancy('sign.nonce_shared', 'the same nonce (up to sign) %x was used for (d=%x, z=%s) and '
                                      '(d=%x, z=%s)' % (kn, other[0], other[1].hex(), dd, zb.hex()), pair)
                seen[kn] = (dd, zb)
                if registry is not None:
                    registry[kn] = (dd, zb)
    kc, zc = secret_class(d), _digest_class(zs[0])
    ctx.klass('sign.key.' + kc)
    ctx.klass('sign.digest.' + zc)
    ctx.klass('sign.keyform.' + case.get('keyform', 'Key'))
    if explicit:
        ctx.klass('sign.explicit_k')
    if case.get('crafted_s'):
        sr = int(case['crafted_s'], 16)
        ctx.klass('sign.crafted_s.' + ('window_half_to_2^255' if ec.N // 2 < sr <= (1 << 255) else
                                       'high' if sr > ec.N // 2 else 'low'))
    if case.get('ht', 1) != 1:
        ctx.klass('sign.hash_type_nondefault')
    if kc != 'uniform' or zc != 'random' or explicit or case.get('ht', 1) != 1:
        ctx.nt(('sign', case['d'], case['zs'], case.get('d2'), case.get('k'), case.get('ht', 1), case.get('keyform'),
                case.get('zform')))


def check_noncepair(ctx, case):
    from ref import ec
    keys = _lib()
    ks = []
    for side in ('a', 'b'):
        d = int(case[side]['d'], 16)
        zb = bytes.fromhex(case[side]['z'])
        try:
            sig = keys.sign(zb, keys.Key(d))
        except Exception as e:
            raise Discrepancy('sign.raises', 'sign raised %r' % e, case)
        k1, k2 = ec.recover_nonce_candidates(int.from_bytes(zb, 'big'), int(sig.r), int(sig.s), d)
        ks.append(min(k1, k2))
    if ks[0] == ks[1] and case['a'] != case['b']:
        raise Discrepancy('sign.nonce_shared', 'the same nonce (up to sign) %x for %r and %r' % (ks[0], case['a'],
                                                                                                  case['b']), case)


# ---- verifier -------------------------------------------------------------------------------------------

def _pk_arg(keys, case, pkb):
    form = case.get('pkform', 'key_pub')
    if form == 'key_pub':
        return keys.Key(pkb)
    if form == 'key_nonstrict':
        # the way transaction parsing builds the keys it finds (no validation at construction): the verifier itself
        # must refuse a point that is not on the curve
        return keys.Key(pkb, strict=False)
    if form == 'key_priv' and case.get('d'):
        return keys.Key(int(case['d'], 16), compressed=len(pkb) == 33)
    if form == 'hdkey_pub':
        return keys.HDKey(pkb)
    if form == 'hex':
        return pkb.hex()
    return pkb


def _sig_arg(keys, case, r, s, ht):
    """Returns (argument for verify()/parse, kind) - kind 'obj' when a Signature object is built from ints."""
    form = case['sigform']
    if form in ('der', 'der_hex'):
        der = bytes.fromhex(case['der']) if case.get('der') is not None else None
        if der is None:
            from ref import ec
            der = ec.der_encode(r, s)
        b = der + bytes([ht])
        return (b if form == 'der' else b.hex()), 'enc'
    if form in ('raw64', 'hex128') and 0 <= r < (1 << 256) and 0 <= s < (1 << 256):
        b = r.to_bytes(32, 'big') + s.to_bytes(32, 'big')
        return (b if form == 'raw64' else b.hex()), 'enc'
    return None, 'ints'


def _lib_verdict(keys, case, zb, r, s, pkb, ht):
    """Runs the library; returns (accepted: bool, exception or None, parsed (r, s) or None)."""
    zarg = zb if case.get('zform', 'bytes') == 'bytes' else zb.hex()
    entry = case.get('entry', 'verify_fn')
    parsed = None
    try:
        pk = _pk_arg(keys, case, pkb)
        sarg, kind = _sig_arg(keys, case, r, s, ht)
        if kind == 'ints':
            if entry == 'sig_ctor_pk':
                sig = keys.Signature(r, s, public_key=pk)
                parsed = (sig.r, sig.s)
                res = sig.verify(zarg)
            else:
                sig = keys.Signature(r, s)
                parsed = (sig.r, sig.s)
                res = sig.verify(zarg, pk) if entry == 'sig_method' else keys.verify(zarg, sig, pk)
        else:
            if entry == 'verify_fn':
                # parse separately as well so that the (r, s) the library read are known
                res = keys.verify(zarg, sarg, pk)
                try:
                    ps = keys.Signature.parse(sarg)
                    parsed = (ps.r, ps.s)
                except Exception:
                    parsed = None
            elif entry == 'sig_ctor_pk':
                sig = keys.Signature.parse(sarg, public_key=pk)
                parsed = (sig.r, sig.s)
                res = sig.verify(zarg)
            else:
                sig = keys.Signature.parse(sarg)
                parsed = (sig.r, sig.s)
                res = sig.verify(zarg, pk)
    except Exception as e:
        return False, e, parsed
    return bool(res), None, parsed


def check_verify(ctx, case):
    from ref import ec
    keys = _lib()
    zb = bytes.fromhex(case['z'])
    z = int.from_bytes(zb, 'big')
    if case.get('zlen') and z < (1 << (8 * case['zlen'])):
        zb = zb[-case['zlen']:]
        ctx.klass('verify.short_digest')
    r, s = int(case['r'], 16), int(case['s'], 16)
    pkb = bytes.fromhex(case['pk'])
    ht = case.get('ht', 1)
    q = ec.parse_pubkey(pkb)
    form = case['sigform']
    canonical = True
    if form in ('der', 'der_hex') and case.get('der') is not None:
        der = bytes.fromhex(case['der'])
        if ec.is_strict_der(der):
            r, s = ec.der_decode_strict(der)
        else:
            canonical = False
    mode = case.get('mode', '?')
    ctx.klass('verify.mode.' + mode)
    ctx.klass('verify.sigform.' + form)
    ctx.klass('verify.pkform.' + case.get('pkform', 'key_pub'))
    if mode != 'valid':
        ctx.nt(('verify',) + tuple(sorted((k, str(v)) for k, v in case.items())))
    accepted, exc, parsed = _lib_verdict(keys, case, zb, r, s, pkb, ht)
    if exc is not None:
        ctx.refusal('verify.%s.%s' % (mode, type(exc).__name__))
    what = 'mode=%s z=%s r=%x s=%x pk=%s sig as %s%s, pk as %s, via %s' % (
        mode, zb.hex(), r, s, pkb.hex(), form, (' (' + case['der'] + ')') if case.get('der') else '',
        case.get('pkform'), case.get('entry'))
    if not canonical:
        ctx.klass('verify.noncanonical_der.' + ('accepted' if accepted else 'refused'))
        if accepted:
            if parsed is None or not ec.verify(z, int(parsed[0]), int(parsed[1]), q):
                raise Discrepancy('verify.noncanonical_der.accepted_invalid', 'library accepted a non-canonical DER '
                                  'signature whose parsed (r, s)=%r does not verify: %s' % (parsed, what), case)
        return
    exp = ec.verify(z, r, s, q)
    ctx.klass('verify.expected.' + ('accept' if exp else 'reject'))
    if accepted == exp:
        if accepted and parsed is not None and (int(parsed[0]), int(parsed[1])) != (r, s):
            raise Discrepancy('verify.parsed_rs', 'library read (r, s)=%r from %s' % (parsed, what), case)
        return
    if exp and not accepted:
        kf = None
        msg = repr(exc) if exc is not None else 'returned False'
        if (form in ('der', 'der_hex') and len(ec.der_encode(r, s)) + 1 <= 64 and exc is not None and
                'Signature length must be 64 bytes' in str(exc)):
            kf = KF_DER_SHORT
        elif (case.get('pkform') == 'hex' and isinstance(exc, AttributeError) and 'is_private' in str(exc)):
            kf = KF_PK_HEX
        bucket = 'verify.rejects_valid' + {KF_DER_SHORT: '.short_der', KF_PK_HEX: '.pubkey_hexstring'}.get(kf, '')
        ctx.disc(bucket, 'standard ECDSA accepts, library %s: %s' % (msg, what), case, kf=kf)
        return
    # accepted although standard ECDSA rejects
    kf = None
    if q is None and len(pkb) in (33, 65):
        # known shape: a coordinate >= p is used modulo p (same root cause as C04-pubkey-off-curve)
        x = int.from_bytes(pkb[1:33], 'big')
        if pkb[0] in (2, 3):
            red = ec.lift_x(x % ec.P, pkb[0] == 3) if x >= ec.P else None
        else:
            y = int.from_bytes(pkb[33:], 'big')
            red = (x % ec.P, y % ec.P) if (x >= ec.P or y >= ec.P) and ec.on_curve((x % ec.P, y % ec.P)) else None
        if red is not None and ec.verify(z, r, s, red):
            kf = KF_PK_ALIAS
    ctx.disc('verify.accepts_invalid' + ('.pubkey_coordinate_ge_p' if kf else ''),
             'standard ECDSA rejects (%s), library accepted: %s' %
             ('public key is not a valid encoding of a curve point' if q is None else 'equation does not hold / range',
              what), case, kf=kf)




def check_reuse(ctx, case):
    """One Signature object asked several questions in a row. case: kind=reuse, d, d2, zs (hex digests), origin
    sign|parse|ints, steps [{'z': index, 'pk': 'right'|'wrong'|'stored', 'entry': 'method'|'fn'}]. Every answer must
    be the standard ECDSA verdict for the digest and key OF THAT CALL, whatever the object was asked before."""
    from ref import ec
    keys = _lib()
    d, d2 = int(case['d'], 16), int(case['d2'], 16)
    zs = [bytes.fromhex(z) for z in case['zs']]
    q, q2 = ec.pubkey(d), ec.pubkey(d2)
    pkb = {'right': ec.ser_compressed(q), 'wrong': ec.ser_compressed(q2)}
    try:
        sig = keys.sign(zs[0], keys.Key(d))
        r, s = sig.r, sig.s
        if case['origin'] == 'parse':
            sig = keys.Signature.parse(sig.as_der_encoded())
        elif case['origin'] == 'ints':
            sig = keys.Signature(r, s)
    except Exception as e:
        raise Discrepancy('reuse.setup.raises', 'creating the signature raised %r' % e, case)
    if not ec.verify(int.from_bytes(zs[0], 'big'), r, s, q):
        raise Discrepancy('reuse.setup.invalid', 'sign() returned a signature the reference rejects', case)
    last_pk = 'right' if case['origin'] == 'sign' else None
    for n, st_ in enumerate(case['steps']):
        zb = zs[st_['z'] % len(zs)]
        which = st_['pk']
        if which == 'stored' and last_pk is None:
            which = 'right'
        use = last_pk if which == 'stored' else which
        if use == 'offcurve':
            want = False             # (not a key: no triple with it is accepted)
        else:
            want = ec.verify(int.from_bytes(zb, 'big'), r, s, q if use == 'right' else q2)
        raised = False
        try:
            if which == 'stored':
                got = sig.verify(zb)
            elif which == 'offcurve':
                # a "key" that is no point of the curve (as a lenient reader hands it over): refused or rejected, and
                # the object answers the next question as if this one had not been asked
                bad = b'\x04' + q[0].to_bytes(32, 'big') + ((q[1] + 1) % ec.P).to_bytes(32, 'big')
                got = sig.verify(zb, keys.Key(bad.hex(), strict=False))
            elif st_['entry'] == 'fn':
                got = keys.verify(zb, sig, keys.Key(pkb[which]))
            else:
                got = sig.verify(zb, keys.Key(pkb[which]))
        except Exception as e:
            got = False
            raised = True
        if not (which == 'offcurve' and raised):
            last_pk = use
        if bool(got) != want:
            raise Discrepancy('reuse.verdict:%s:%s' % (case['origin'], 'accepts' if got else 'rejects'),
                              'call %d on one Signature object (%s): verify(digest %d, key %s) = %r, standard ECDSA '
                              'says %r (earlier calls: %r)' % (n + 1, case['origin'], st_['z'] % len(zs), which, got,
                                                               want, case['steps'][:n]), case)


DISPATCH = {'sign': check_sign, 'verify': check_verify, 'noncepair': check_noncepair, 'reuse': check_reuse}


def replay(ctx, case):
    if 'probe' in case and 'kind' not in case:          # replay file written for a reproducing finding probe
        case = dict((fid, c) for fid, c, _ in _probe_list())[case['probe']]
    DISPATCH[case['kind']](ctx, case)


# ---- construction of verifier cases (reference only) ---------------------------------------------------------

def _half():
    from ref import ec
    return (ec.N + 1) // 2


def _craft(d, k, s):
    """A valid triple with chosen nonce k and chosen s: z = s*k - r*d (mod n)."""
    from ref import ec
    rp = ec.mul(k, ec.G)
    r = rp[0] % ec.N
    z = (s * k - r * d) % ec.N
    return z, r, s


def crafted_sign_case(d, k, s_raw, keyform='Key', zform='bytes'):
    """A producer case whose raw (pre-normalisation) s is chosen: the digest is solved from (d, k, s_raw). This is the
    only way to put the s the signer computes on the low-S boundary (n//2, n//2 + 1, ..., 2^255), which random
    digests reach with probability 2^-128."""
    from ref import ec
    d = d % ec.N or 1
    k = k % ec.N or 1
    z, r, _ = _craft(d, k, s_raw % ec.N or 1)
    return {'kind': 'sign', 'd': _h(d), 'zs': [z.to_bytes(32, 'big').hex()], 'd2': None, 'k': '%x' % k, 'ht': 1,
            'keyform': keyform, 'zform': zform, 'crafted_s': '%x' % (s_raw % ec.N or 1)}


def _s_boundary():
    from ref import ec
    h = ec.N // 2
    return [h - 1, h, h + 1, h + 2, h + (1 << 100), (1 << 255) - 1, 1 << 255, (1 << 255) + 1, h + (1 << 126),
            ec.N - 1, ec.N - 2, 1, 2]


def _der_int(v, pad=0, strip=False):
    b = v.to_bytes((v.bit_length() + 7) // 8 or 1, 'big')
    if b[0] & 0x80 and not strip:
        b = b'\x00' + b
    return b'\x00' * pad + b


def _der_variant(r, s, how):
    rb, sb = _der_int(r), _der_int(s)

    def tlv(tag, body, longlen=False):
        if longlen:
            return bytes([tag, 0x81, len(body)]) + body
        return bytes([tag, len(body)]) + body
    if how == 'pad_r':
        return tlv(0x30, tlv(2, b'\x00' + rb) + tlv(2, sb))
    if how == 'pad_s':
        return tlv(0x30, tlv(2, rb) + tlv(2, b'\x00' + sb))
    if how == 'long_seq_len':
        return tlv(0x30, tlv(2, rb) + tlv(2, sb), True)
    if how == 'long_int_len':
        return tlv(0x30, tlv(2, rb, True) + tlv(2, sb))
    if how == 'trailing_in':
        return tlv(0x30, tlv(2, rb) + tlv(2, sb) + b'\x00')
    if how == 'trailing_out':
        return tlv(0x30, tlv(2, rb) + tlv(2, sb)) + b'\x00'
    if how == 'truncated':
        return tlv(0x30, tlv(2, rb) + tlv(2, sb))[:-1]
    if how == 'neg_unpadded':
        return tlv(0x30, tlv(2, _der_int(r, strip=True)) + tlv(2, _der_int(s, strip=True)))
    if how == 'wrong_seq_tag':
        return tlv(0x31, tlv(2, rb) + tlv(2, sb))
    if how == 'wrong_int_tag':
        return tlv(0x30, tlv(3, rb) + tlv(2, sb))
    if how == 'seq_len_short':
        body = tlv(2, rb) + tlv(2, sb)
        return bytes([0x30, len(body) - 1]) + body
    if how == 'seq_len_long':
        body = tlv(2, rb) + tlv(2, sb)
        return bytes([0x30, len(body) + 1]) + body
    raise ValueError(how)


DER_HOWS = ['pad_r', 'pad_s', 'long_seq_len', 'long_int_len', 'trailing_in', 'trailing_out', 'truncated',
            'neg_unpadded', 'wrong_seq_tag', 'wrong_int_tag', 'seq_len_short', 'seq_len_long']
MODES = ['valid', 'valid', 'high_s', 'crafted_small_s', 'crafted_s_edge', 'half_nonce', 'half_nonce_small_s',
         'z_plus_n', 'r_zero', 's_zero', 'r_n', 's_n', 'r_plus_n', 's_plus_n', 'r_max', 's_max', 'rs_random',
         'r_negated', 'wrong_key', 'z_plus_1', 'z_minus_1', 'z_bitflip', 'der_variant', 'der_variant', 'der_variant',
         'der_variant', 'der_variant',
         'offcurve_pk_comp', 'offcurve_pk_uncomp', 'forged_z0_offcurve', 'pk_alias', 'crafted_sizes', 'crafted_sizes']
# nonces whose r encodes as a DER integer of 31 / 32 / 33 bytes
R_SIZE_KS = {31: [246, 1158, 1436, 1661], 32: [5, 7], 33: [2, 3, 4, 6]}
SMALL_CURVE_XS = [1, 2, 3, 4, 6, 8, 12, 13, 14, 16, 20, 22, 25, 27, 32, 33, 38, 39]


def build_verify_case(mode, d, zb, k, aux, aux2, bit, derhow, pkcomp, sigform, pkform, zform, entry, ht):
    """Everything is computed with ref/ec; the result is an explicit triple."""
    from ref import ec
    n, p = ec.N, ec.P
    z = int.from_bytes(zb, 'big')
    q = ec.pubkey(d)
    der = None
    if mode in ('half_nonce', 'half_nonce_small_s'):
        k = _half()
    if mode in ('crafted_small_s', 'half_nonce_small_s'):
        z, r, s = _craft(d, k, 1 + aux % 300 if aux % 3 else 1 + aux % 3)
    elif mode == 'crafted_s_edge':
        z, r, s = _craft(d, k, [n // 2, n // 2 + 1, n - 1, n // 2 - 1][aux % 4])
    elif mode == 'crafted_sizes':
        # every combination of DER integer lengths (r: 31 / 32 / 33 bytes, s: 30 / 31 / 32 / 33 bytes): valid triples of
        # plain ECDSA whatever the lengths add up to
        rl = (31, 32, 33)[aux % 3]
        sl = (30, 31, 32, 33)[(aux // 3) % 4]
        k = R_SIZE_KS[rl][(aux // 12) % len(R_SIZE_KS[rl])]
        lo, hi = {30: (1 << 232, 1 << 239), 31: (1 << 240, 1 << 247), 32: (1 << 248, 1 << 255), 33: (1 << 255, n)}[sl]
        z, r, s = _craft(d, k, lo + aux2 % (hi - lo))
        if sigform not in ('der', 'der_hex', 'ints'):
            sigform = 'der'
    elif mode == 'z_plus_n':
        z = aux2 % ((1 << 256) - n)
        r, s = ec.sign_with_k(z, d, k)
        z = z + n
    else:
        r, s = ec.sign_with_k(z, d, k)
    pk_point = q
    pkb = None
    if mode == 'high_s':
        s = n - s
    elif mode == 'r_zero':
        r = 0
    elif mode == 's_zero':
        s = 0
    elif mode == 'r_n':
        r = n
    elif mode == 's_n':
        s = n
    elif mode == 'r_plus_n':
        # r + n never fits 32 bytes for a real r (needs r < 2^128): plain out-of-range value
        r = n + 1 + aux % 1000
    elif mode == 's_plus_n':
        # crafted small s: s + n fits 32 bytes; a verifier reducing s modulo n would accept
        z, r, s = _craft(d, k, 1 + aux % 1000)
        s = s + n
    elif mode == 'r_max':
        r = (1 << 256) - 1
    elif mode == 's_max':
        s = (1 << 256) - 1
    elif mode == 'rs_random':
        r, s = 1 + aux2 % (n - 1), 1 + (aux2 >> 7) % (n - 1)
    elif mode == 'r_negated':
        r = n - r
    elif mode == 'wrong_key':
        pk_point = ec.pubkey(1 + (d + aux) % (n - 1) if (1 + (d + aux) % (n - 1)) != d else (d % (n - 1)) + 1)
    elif mode == 'z_plus_1':
        z = (z + 1) % (1 << 256)
    elif mode == 'z_minus_1':
        z = (z - 1) % (1 << 256)
    elif mode == 'z_bitflip':
        z ^= 1 << bit
    elif mode == 'der_variant':
        der = _der_variant(r, s, derhow)
        sigform = 'der' if sigform not in ('der', 'der_hex') else sigform
    elif mode == 'offcurve_pk_comp':
        x = q[0]
        while ec.lift_x(x, False) is not None:
            x = (x + 1) % p
        pkb = bytes([2 + (aux & 1)]) + x.to_bytes(32, 'big')
    elif mode == 'offcurve_pk_uncomp':
        y = (q[1] + 1 + aux % 5) % p
        pkb = b'\x04' + q[0].to_bytes(32, 'big') + y.to_bytes(32, 'big')
    elif mode == 'forged_z0_offcurve':
        # a point of another curve y^2 = x^3 + b'; with z = 0 verification only computes u2*Q, and the
        # group law for a = 0 does not involve b: (r, s) "verifies" for a verifier that skips the curve check
        x, y = q[0], (q[1] + 1 + aux % 5) % p
        t = 1 + aux2 % (n - 1)
        rp = ec.mul(t, (x, y))
        if rp is None or rp[0] % n == 0:
            t = 2
            rp = ec.mul(t, (x, y))
        r = rp[0] % n
        s = (r * pow(t, n - 2, n)) % n
        z = 0
        pkb = b'\x04' + x.to_bytes(32, 'big') + y.to_bytes(32, 'big')
    elif mode == 'pk_alias':
        # a real point with a tiny abscissa: x + p still fits 32 bytes. Valid triple without knowing the secret:
        # R = u1*G + u2*Q, r = R.x, s = r/u2, z = u1*s
        x = SMALL_CURVE_XS[aux % len(SMALL_CURVE_XS)]
        pt = ec.lift_x(x, bool(aux2 & 1))
        u1, u2 = 1 + aux2 % (n - 1), 1 + (aux2 >> 9) % (n - 1)
        rp = ec.mul2(u1, ec.G, u2, pt)
        r = rp[0] % n
        s = (r * pow(u2, n - 2, n)) % n
        z = (u1 * s) % n
        if pkcomp:
            pkb = bytes([2 + (pt[1] & 1)]) + (x + p).to_bytes(32, 'big')
        else:
            pkb = b'\x04' + (x + p).to_bytes(32, 'big') + pt[1].to_bytes(32, 'big')
    if pkb is None:
        pkb = ec.ser_compressed(pk_point) if pkcomp else ec.ser_uncompressed(pk_point)
    if pkform == 'key_priv' and (mode in ('wrong_key', 'offcurve_pk_comp', 'offcurve_pk_uncomp', 'forged_z0_offcurve',
                                          'pk_alias')):
        pkform = 'key_pub'
    case = {'kind': 'verify', 'mode': mode if mode != 'der_variant' else 'der_' + derhow, 'z': _h(z), 'r': '%x' % r,
            's': '%x' % s, 'pk': pkb.hex(), 'sigform': sigform, 'pkform': pkform, 'zform': zform, 'entry': entry,
            'ht': ht}
    if len(zb) < 32 and z < (1 << (8 * len(zb))):
        case['zlen'] = len(zb)      # a digest shorter than 32 bytes is handed over as it is (not zero padded)
    if pkform == 'key_priv':
        case['d'] = _h(d)
    if der is not None:
        case['der'] = der.hex()
    return case


def strategies(ctx):
    from hypothesis import strategies as st
    from ref import ec
    from vlib import gen
    n = ec.N
    half = _half()
    # digests, and (one in five) unhashed messages of 33..100 bytes which the library documents to hash itself
    hexd = st.one_of(gen.digests(), gen.digests(), gen.digests(), gen.digests(),
                     st.sampled_from([33, 40, 48, 63, 64, 65, 80, 100]).flatmap(
                         lambda n: st.binary(min_size=n, max_size=n))).map(bytes.hex)
    explicit_k = st.one_of(
        st.sampled_from([1, 2, 3, half, half + 1, n - 1, n - 2, n + 1, n + 2, (1 << 256) - 1, n]),
        st.integers(1, n - 1), st.integers(1, 1000))
    sign = st.fixed_dictionaries({
        'kind': st.just('sign'),
        'd': gen.secrets().map(_h),
        'zs': st.lists(hexd, min_size=1, max_size=2, unique=True),
        'd2': st.one_of(st.none(), gen.secrets().map(_h)),
        'k': st.one_of(st.none(), st.none(), st.none(), explicit_k.map(lambda v: '%x' % v)),
        'ht': st.one_of(st.just(1), st.just(1), st.sampled_from([0, 2, 3, 0x81, 0x82, 0x83, 0x80, 0xff]),
                        st.integers(0, 255)),
        'keyform': st.sampled_from(['Key', 'HDKey', 'hex', 'bytes']),
        'zform': st.sampled_from(['bytes', 'hex']),
    })
    # nonces whose r has a top byte that format sniffing could mistake for something else: 0x30 (DER sequence tag),
    # 0x02/0x03/0x04 (public key prefixes), 0x00 (leading zero) - matters for the 64-byte compact form
    special_ks = [102, 160, 227, 245, 580, 848, 153, 246, 886, 1158, 1417, 1436, 441, 908, 1133, 1169, 1941, 2453,
                  133, 275, 305, 564, 574, 836, 45, 145, 311, 336, 816, 1107]
    ks = st.one_of(st.integers(1, n - 1), st.integers(1, 50), st.integers(1, 50).map(lambda v: n - v),
                   st.sampled_from(special_ks))
    # digests of 32 bytes and, one in five, genuinely shorter ones (20-byte RIPEMD160 / SHA1 style digests, 31 bytes):
    # standard ECDSA takes a digest shorter than the group order as the integer it is
    vdig = st.one_of(gen.digests(), gen.digests(), gen.digests(), gen.digests(),
                     st.sampled_from([20, 20, 31, 16]).flatmap(lambda n: st.binary(min_size=n, max_size=n)))
    verify = st.builds(
        build_verify_case, st.sampled_from(MODES), gen.secrets(), vdig, ks, st.integers(0, 1 << 30),
        st.integers(0, (1 << 256) - 1), st.integers(0, 255), st.sampled_from(DER_HOWS), st.booleans(),
        st.sampled_from(['ints', 'raw64', 'hex128', 'der', 'der', 'der_hex']),
        st.sampled_from(['key_pub', 'key_pub', 'key_priv', 'hdkey_pub', 'bytes', 'bytes', 'hex', 'key_nonstrict',
                         'key_nonstrict']),
        st.sampled_from(['bytes', 'hex']), st.sampled_from(['verify_fn', 'verify_fn', 'sig_method', 'sig_ctor_pk']),
        st.sampled_from([1, 1, 1, 0, 2, 3, 0x81, 0xff]))
    h = n // 2
    s_raw = st.one_of(st.sampled_from(_s_boundary()), st.integers(h + 1, 1 << 255), st.integers(h - 1000, h + 1000),
                      st.integers((1 << 255) - 1000, (1 << 255) + 1000), st.integers(1, n - 1))
    crafted = st.builds(crafted_sign_case, gen.secrets(), ks, s_raw, st.sampled_from(['Key', 'HDKey', 'hex', 'bytes']),
                        st.sampled_from(['bytes', 'hex']))
    sign = st.one_of(sign, sign, sign, crafted)
    reuse = st.fixed_dictionaries({
        'kind': st.just('reuse'),
        'd': gen.secrets().map(_h), 'd2': st.integers(1, 1000).map(_h),
        'zs': st.lists(gen.digests().map(bytes.hex), min_size=2, max_size=3, unique=True),
        'origin': st.sampled_from(['sign', 'parse', 'ints']),
        'steps': st.lists(st.fixed_dictionaries({'z': st.integers(0, 2), 'pk': st.sampled_from(['right', 'right', 'wrong', 'stored', 'stored', 'offcurve']),
                                                 'entry': st.sampled_from(['method', 'fn'])}), min_size=2, max_size=5),
    })
    return sign, verify, reuse


# ---- probes ------------------------------------------------------------------------------------------

def _probe_list():
    zb = bytes(range(32))
    base = (0x1234567, zb, 12345, 7, 99, 0, 'pad_r', True)
    return [
        (KF_DER_SHORT, build_verify_case('half_nonce', *base[:2], 1, *base[3:], 'der', 'key_pub', 'bytes',
                                         'verify_fn', 1),
         'a valid strict-DER signature of at most 63 bytes (64 with the hash type byte; e.g. the short r of nonce '
         '1/2, common on chain) is refused by Signature.parse_bytes / verify: "Signature length must be 64 bytes"'),
        (KF_PK_HEX, build_verify_case('valid', *base, 'raw64', 'hex', 'bytes', 'verify_fn', 1),
         'verify(txid, signature, public_key=<hex string>) raises AttributeError although hexstring is a '
         'documented public_key type'),
        (KF_PK_ALIAS, build_verify_case('pk_alias', *base[:7], False, 'raw64', 'bytes', 'bytes', 'verify_fn', 1),
         'a public key encoding with x >= p (x + p of a real point) is accepted by the verifier; standard parsers '
         'reject such encodings'),
    ]


def probes(ctx):
    saved = ctx.findings
    ctx.findings = {}
    try:
        for fid, case, what in _probe_list():
            try:
                replay(ctx, case)
                ctx.probe(fid, False, what)
            except Discrepancy:
                ctx.probe(fid, True, what)
    finally:
        ctx.findings = saved


# ---- run ---------------------------------------------------------------------------------------------

def run(ctx):
    from ref import ec
    n = ec.N
    registry = {}

    # 1. fixed boundary grid for the producer (sharded) --------------------------------------------------
    keys_b = [1, 2, n - 1, n - 2, (n + 1) // 2, 1 << 255, (1 << 128) - 1, 0x1234567]
    digs_b = [bytes(32), bytes(31) + b'\x01', b'\xff' * 32, (n - 1).to_bytes(32, 'big'), n.to_bytes(32, 'big'),
              (n + 1).to_bytes(32, 'big'), bytes(16) + b'\xab' * 16, b'\x80' + bytes(31)]
    idx = 0
    done = True
    for d in keys_b:
        for zb in digs_b:
            idx += 1
            if idx % ctx.nshards != ctx.shard:
                continue
            if ctx.out_of_time():
                done = False
                break
            case = {'kind': 'sign', 'd': _h(d), 'zs': [zb.hex()], 'd2': None, 'k': None, 'ht': 1,
                    'keyform': ['Key', 'HDKey', 'hex', 'bytes'][idx % 4], 'zform': ['bytes', 'hex'][idx % 2]}
            ctx.guard(lambda c: check_sign(ctx, c, registry), case)
    ctx.exhaustive('producer grid: 8 boundary keys x 8 boundary digests', done)
    # every hash type byte once (shard = ht mod nshards)
    for ht in range(256):
        if ht % ctx.nshards != ctx.shard:
            continue
        case = {'kind': 'sign', 'd': _h(0x1234567 + ht), 'zs': [(bytes([ht]) * 32).hex()], 'd2': None, 'k': None,
                'ht': ht, 'ht_explicit': True, 'keyform': 'Key', 'zform': 'bytes'}
        ctx.guard(lambda c: check_sign(ctx, c, registry), case)
    ctx.exhaustive('producer: every hash type byte 0..255')
    # raw s of the signer placed on every low-S boundary value (digest solved from key, nonce and s)
    idx = 0
    for s_raw in _s_boundary():
        for (d, k) in [(0x1234567, 12345), (n - 2, n - 3), (1, 1)]:
            idx += 1
            if idx % ctx.nshards != ctx.shard:
                continue
            case = crafted_sign_case(d, k, s_raw, ['Key', 'HDKey', 'hex', 'bytes'][idx % 4], ['bytes', 'hex'][idx % 2])
            ctx.guard(lambda c: check_sign(ctx, c, registry), case)
    ctx.exhaustive('producer: signer\'s raw s on 13 low-S boundary values x 3 (key, nonce) pairs')

    # 2. Hypothesis ----------------------------------------------------------------------------------------
    sign, verify, reuse = strategies(ctx)

    def p_sign(case):
        if len([s for s in ctx.samples if s.get('kind') == 'sign']) < 2:
            ctx.sample(case)
        check_sign(ctx, case, registry)

    def p_verify(case):
        if len([s for s in ctx.samples if s.get('kind') == 'verify']) < 3 and case.get('mode') != 'valid':
            ctx.sample(case)
        check_verify(ctx, case)
    ctx.run_given('sign', sign, p_sign, ctx.scale(110, 2500))
    ctx.run_given('verify', verify, p_verify, ctx.scale(330, 7000))

    def p_reuse(case):
        zi = [s['z'] % len(case['zs']) for s in case['steps']]
        if len(set(zi)) > 1:
            ctx.nt(('reuse', case['d'], tuple(case['zs']), case['origin'], str(case['steps'])))
            ctx.klass('reuse.other_digest_after_first')
        ctx.klass('reuse.origin.' + case['origin'])
        check_reuse(ctx, case)
    ctx.run_given('reuse', reuse, p_reuse, ctx.scale(40, 1500))
