"""C14 - mnemonic sentences follow BIP39 in all nine bundled languages, round-trip, give the BIP39 seed
(NFKD-normalised sentence and passphrase), and sentences with a bad checksum or an unknown word are rejected.

Oracle: ref/bip39 over pinned copies of the word lists (ref/wordlists), ref/hashes PBKDF2, ref/bip32 master key.
"""
import unicodedata

from vlib.core import Discrepancy

LEVEL = 'exploration'
TECHNIQUE = 'Hypothesis differential against ref/bip39 + ref/bip32; reference-guided single-word substitutions'
RULE = ('entropy of 16/20/24/28/32 bytes (all-zero, all-ones, 1-8 leading zero bytes, leading zero bits, >= curve '
        'order, 32 ASCII-hex bytes, uniform) x 9 word lists x input form (bytes / hex string); per case: to_mnemonic '
        'with check_on_curve False and default, to_entropy of the library sentence and of the reference sentence in '
        'a drawn spelling (as is / NFC / ideographic spaces for japanese), to_seed with a drawn unicode passphrase '
        '(ASCII, NFC, NFD, compatibility characters, arbitrary text) on the language instance and on the default '
        'Mnemonic() instance, HDKey.from_passphrase against the reference BIP32 master. Substitutions: one word of '
        'a valid sentence replaced by another list word, half of the cases steered by the reference to a replacement '
        'that keeps the checksum valid (must be accepted with the new entropy) and half arbitrary (rejected iff the '
        'reference rejects); unknown words: word of another list, upper-cased word, 4-letter prefix, ASCII junk, '
        'must be rejected by to_entropy and to_seed. Shared-word sentences: entropies constructed so that every '
        'word of the sentence also occurs in a second bundled list (dutch/english/french, the two chinese lists), '
        'decoded by the instance of their own language. Object histories: one Mnemonic(lang) object reads sentences of drawn languages and is asked for to_mnemonic / '
        'word() in between. Non-trivial = non-English list, entropy with a leading zero '
        'byte, non-ASCII passphrase, or any substitution/unknown-word case; distinct by all case fields.')
ASSUMPTIONS = ['ref/wordlists are the nine BIP39 lists as bundled at the baseline commit (compared byte for byte with '
               'the tree under test at the start of every run)',
               'sentences are compared after NFKD normalisation (the library returns NFKD text joined by U+0020; the '
               'ideographic space of japanese sentences is a display convention that NFKD maps to U+0020)',
               'any exception derived from Exception (ValueError, Warning) counts as rejection',
               'every single-word substitution is sampled (reference-guided), not enumerated: one library sentence '
               'operation costs ~10 ms because language detection re-reads nine files',
               'Mnemonic.generate() (os.urandom) is not exercised; wrong word counts are outside the statement']
SHARDS = {'quick': 16, 'thorough': 16}
WALL_CAP = {'quick': 600, 'thorough': 3000}

LANGS = ['chinese_simplified', 'chinese_traditional', 'dutch', 'english', 'french', 'italian', 'japanese',
         'portuguese', 'spanish']
F_PASS = 'C14-passphrase-not-nfkd'
F_LANG = 'C14-default-instance-rejects-non-english'
F_HEX = 'C14-ascii-hex-entropy-reinterpreted'
N = 0xFFFFFFFFFFFFFFFFFFFFFFFFFFFFFFFEBAAEDCE6AF48A03BBFD25E8CD0364141
HEXCHARS = set(b'0123456789abcdefABCDEF')


def _lib():
    import bitcoinlib.mnemonic as mn
    import bitcoinlib.keys as keys
    return mn, keys


def nfkd(s):
    return unicodedata.normalize('NFKD', s)


def _spell(words, lang, form):
    """text of a sentence in one of the spellings a user may hand over"""
    if form == 'ideographic':
        return unicodedata.normalize('NFC', '\u3000'.join(words))
    s = ' '.join(words)
    if form == 'nfc':
        return unicodedata.normalize('NFC', s)
    return s


def _is_ascii_hex(b):
    return len(b) > 0 and all(c in HEXCHARS for c in b)


# ---- entropy -> sentence -> entropy / seed / key ---------------------------------------------------------

def check_entropy(ctx, case):
    """case: kind=entropy, lang, entropy (hex), input bytes|hex, form, passphrase, opts (list of extra steps)"""
    from ref import bip39, bip32
    mn, keys = _lib()
    lang, ent = case['lang'], bytes.fromhex(case['entropy'])
    form = case.get('form', 'lib')
    pw = case.get('passphrase', '')
    opts = case.get('opts', [])
    arg = ent if case.get('input', 'bytes') == 'bytes' else ent.hex()
    words = bip39.entropy_to_words(ent, lang)
    want_sentence = nfkd(' '.join(words))
    ent_int = int.from_bytes(ent, 'big')
    try:
        m = mn.Mnemonic(lang)
    except Exception as e:
        raise Discrepancy('init.raises', 'Mnemonic(%r) raised %r' % (lang, e), case)

    # 1. generated sentence is the BIP39 sentence
    hexy = _is_ascii_hex(ent)        # trigger of F_HEX: to_bytes() un-hexlifies bytes that look like hex text
    half = len(ent) // 2
    try:
        s0 = m.to_mnemonic(arg, check_on_curve=False)
    except Exception as e:
        kf = F_HEX if (hexy and isinstance(e, ValueError) and 'divisible by 32' in str(e)) else None
        ctx.disc('to_mnemonic.raises', 'Mnemonic(%r).to_mnemonic(%s, check_on_curve=False) raised %r' %
                 (lang, case['entropy'], e), case, kf=kf)
        return
    if not isinstance(s0, str) or nfkd(s0) != want_sentence:
        kf = None
        if hexy and isinstance(s0, str):
            got_words = nfkd(s0).split(' ')
            small = (half * 8 + half * 8 // 32) // 11
            if isinstance(arg, bytes) and len(got_words) == small:
                kf = F_HEX          # sentence of the un-hexlified half-length data
            elif not isinstance(arg, bytes) and got_words != want_sentence.split(' '):
                kf = F_HEX          # checksum taken over the un-hexlified data (too few bits): words misaligned
        ctx.disc('to_mnemonic.sentence', 'Mnemonic(%r).to_mnemonic(%s) = %r, BIP39 sentence is %r' %
                 (lang, case['entropy'], s0, want_sentence), case, kf=kf)
        return
    try:
        s1 = m.to_mnemonic(arg)
        if nfkd(s1) != want_sentence:
            raise Discrepancy('to_mnemonic.default', 'to_mnemonic(%s) (default flags) = %r, BIP39 sentence is %r' %
                              (case['entropy'], s1, want_sentence), case)
    except Discrepancy:
        raise
    except ValueError as e:
        if 0 < ent_int < N:
            raise Discrepancy('to_mnemonic.default.raises', 'to_mnemonic(%s) raised %r for an in-range value' %
                              (case['entropy'], e), case)
        ctx.refusal('to_mnemonic.check_on_curve')
    except Exception as e:
        raise Discrepancy('to_mnemonic.default.raises', 'to_mnemonic(%s) raised %r' % (case['entropy'], e), case)
    if hexy:
        # everything below trips over the same re-interpretation inside Mnemonic.checksum(); the defect is
        # recorded once, by the probe and by the to_entropy step
        try:
            m.to_entropy(_spell(words, lang, 'lib'))
            return
        except Exception as e:
            ctx.disc('to_entropy.raises', 'Mnemonic(%r).to_entropy(<valid sentence of ASCII-hex entropy %s>) raised '
                     '%r' % (lang, case['entropy'], e), case,
                     kf=F_HEX if 'Invalid checksum' in str(e) else None)
            return

    # 2. converts back to the same entropy (library sentence, and the reference sentence in a drawn spelling)
    text = _spell(words, lang, form)
    for label, sent in (('library sentence', s0), ('%s spelling' % form, text)):
        if label != 'library sentence' and 'reparse' not in opts and form == 'lib':
            continue
        try:
            back = m.to_entropy(sent)
        except Exception as e:
            raise Discrepancy('to_entropy.raises', 'Mnemonic(%r).to_entropy(%r) (%s) raised %r' %
                              (lang, sent, label, e), case)
        if bytes(back) != ent:
            raise Discrepancy('to_entropy.mismatch', 'Mnemonic(%r).to_entropy(%r) (%s) = %s, entropy is %s' %
                              (lang, sent, label, bytes(back).hex(), ent.hex()), case)

    # 3. BIP39 seed
    want_seed = bip39.seed(text, pw)
    raw_pw_seed = None
    if nfkd(pw) != pw:
        from ref import hashes
        raw_pw_seed = hashes.pbkdf2_sha512(nfkd(text).encode('utf8'), b'mnemonic' + pw.encode('utf8'), 2048, 64)

    def seed_kf(got):
        return F_PASS if (raw_pw_seed is not None and got == raw_pw_seed) else None

    try:
        seed = m.to_seed(text, pw)
    except Exception as e:
        raise Discrepancy('to_seed.raises', 'Mnemonic(%r).to_seed(%r, %r) raised %r' % (lang, text, pw, e), case)
    if bytes(seed) != want_seed:
        ctx.disc('to_seed.mismatch', 'Mnemonic(%r).to_seed(%r, password=%r) = %s.., BIP39 seed is %s..' %
                 (lang, text, pw, bytes(seed).hex()[:16], want_seed.hex()[:16]), case, kf=seed_kf(bytes(seed)))

    # 3b. the same passphrase handed over as UTF-8 bytes (the method accepts them): the text is what counts, the seed
    # is the same - or the call is refused
    if pw and 'pw_bytes' in opts:
        try:
            seed_b = bytes(m.to_seed(text, pw.encode('utf8')))
        except Exception as e:
            ctx.refusal('to_seed.bytes_passphrase.%s' % type(e).__name__)
        else:
            ctx.klass('seed.passphrase_as_bytes' + ('.not_nfkd' if nfkd(pw) != pw else ''))
            if seed_b != want_seed:
                ctx.disc('to_seed.mismatch.bytes_passphrase', 'Mnemonic(%r).to_seed(%r, password=%r as UTF-8 bytes) = '
                         '%s.., BIP39 seed is %s..' % (lang, text, pw, seed_b.hex()[:16], want_seed.hex()[:16]), case,
                         kf=seed_kf(seed_b))

    # 4. the default instance (what HDKey.from_passphrase, Wallet.create and the tools use)
    if 'default_instance' in opts:
        try:
            seed = mn.Mnemonic().to_seed(text, pw)
        except Exception as e:
            kf = F_LANG if (lang != 'english' and isinstance(e, ValueError) and 'not in list' in str(e)) else None
            ctx.disc('default_instance.raises', 'Mnemonic().to_seed(<valid %s sentence>) raised %r' % (lang, e),
                     case, kf=kf)
            seed = None
        if seed is not None and bytes(seed) != want_seed:
            ctx.disc('default_instance.mismatch', 'Mnemonic().to_seed(%r, %r) differs from the BIP39 seed' %
                     (text, pw), case, kf=seed_kf(bytes(seed)))
    if 'key' in opts:
        master = bip32.master(want_seed)
        try:
            k = keys.HDKey.from_passphrase(text, password=pw, network=case.get('network', 'bitcoin'))
        except Exception as e:
            kf = F_LANG if (lang != 'english' and isinstance(e, ValueError) and 'not in list' in str(e)) else None
            ctx.disc('from_passphrase.raises', 'HDKey.from_passphrase(<valid %s sentence>) raised %r' % (lang, e),
                     case, kf=kf)
            return
        if k.secret != master.secret or bytes(k.chain) != master.chain or not k.is_private or k.depth != 0:
            kf = None
            if raw_pw_seed is not None:
                alt = bip32.master(raw_pw_seed)
                if k.secret == alt.secret and bytes(k.chain) == alt.chain:
                    kf = F_PASS
            ctx.disc('from_passphrase.mismatch', 'HDKey.from_passphrase(%r, password=%r): secret %x, BIP39+BIP32 '
                     'master is %x' % (text, pw, k.secret, master.secret), case, kf=kf)


# ---- substitutions ---------------------------------------------------------------------------------

def check_subst(ctx, case):
    """case: kind=subst, lang, entropy, pos, new (index of the replacement word), seed (bool), passphrase"""
    from ref import bip39
    mn, _ = _lib()
    lang, ent = case['lang'], bytes.fromhex(case['entropy'])
    wl = bip39.wordlist(lang)
    words = bip39.entropy_to_words(ent, lang)
    words[case['pos']] = wl[case['new']]
    try:
        want = bip39.words_to_entropy(words, lang)
    except ValueError:
        want = None
    text = nfkd(' '.join(words))
    m = mn.Mnemonic(lang)
    try:
        got = bytes(m.to_entropy(text))
    except Exception as e:
        got = None
        err = e
    if want is None and got is not None:
        raise Discrepancy('subst.accepted', 'Mnemonic(%r).to_entropy(%r) returned %s although the checksum is wrong' %
                          (lang, text, got.hex()), case)
    if want is not None and got is None and _is_ascii_hex(want) and 'Invalid checksum' in str(err):
        ctx.disc('subst.rejected.hex', 'to_entropy rejected the valid sentence of ASCII-hex entropy %s' % want.hex(),
                 case, kf=F_HEX)
        return
    if want is not None and got is None:
        raise Discrepancy('subst.rejected', 'Mnemonic(%r).to_entropy(%r) raised %r although the checksum is valid '
                          '(entropy %s)' % (lang, text, err, want.hex()), case)
    if want is not None and got != want:
        raise Discrepancy('subst.entropy', 'Mnemonic(%r).to_entropy(%r) = %s, reference %s' %
                          (lang, text, got.hex(), want.hex()), case)
    if case.get('seed'):
        pw = case.get('passphrase', '')
        try:
            seed = bytes(m.to_seed(text, pw))
        except Exception as e:
            seed = None
            err = e
        if want is None and seed is not None:
            raise Discrepancy('subst.seed.accepted', 'Mnemonic(%r).to_seed(%r) returned a seed although the checksum '
                              'is wrong' % (lang, text), case)
        if want is not None and seed is None:
            raise Discrepancy('subst.seed.rejected', 'Mnemonic(%r).to_seed(%r) raised %r for a valid sentence' %
                              (lang, text, err), case)
        if want is not None and seed != bip39.seed(text, pw):
            if nfkd(pw) != pw:
                ctx.disc('subst.seed.mismatch', 'to_seed differs (passphrase %r)' % pw, case, kf=F_PASS)
            else:
                raise Discrepancy('subst.seed.mismatch', 'Mnemonic(%r).to_seed(%r) differs from the BIP39 seed' %
                                  (lang, text), case)
    ctx.klass('subst.valid' if want is not None else 'subst.invalid')


def check_unknown(ctx, case):
    """case: kind=unknown, lang, entropy, pos, word (the foreign word itself), mode"""
    from ref import bip39
    mn, _ = _lib()
    lang, ent = case['lang'], bytes.fromhex(case['entropy'])
    wl = bip39.wordlist(lang)
    word = case['word']
    if nfkd(word) in set(nfkd(w) for w in wl) or not word.strip() or ' ' in nfkd(word):
        ctx.exclude('unknown.word_is_in_list_or_blank')
        return
    words = bip39.entropy_to_words(ent, lang)
    words[case['pos']] = word
    text = ' '.join(words)
    m = mn.Mnemonic(lang)
    for name, fn in (('to_entropy', lambda: m.to_entropy(text)), ('to_seed', lambda: m.to_seed(text, '')),
                     ('to_seed(default instance)', lambda: mn.Mnemonic().to_seed(text, ''))):
        try:
            r = fn()
        except Exception:
            ctx.refusal('unknown.%s' % name)
            continue
        raise Discrepancy('unknown.accepted', '%s accepted %r (word %r is not in the %s list) and returned %s..' %
                          (name, text, word, lang, bytes(r).hex()[:16]), case)


def check_lists(ctx, case):
    """the bundled lists are the pinned BIP39 lists"""
    import os
    from ref import bip39
    mn, _ = _lib()
    base = os.path.join(os.path.dirname(mn.__file__), 'wordlist')
    for lang in LANGS:
        try:
            with open(os.path.join(base, lang + '.txt'), 'rb') as f:
                data = f.read()
        except Exception as e:
            raise Discrepancy('lists.missing', 'word list %s cannot be read: %r' % (lang, e), case)
        have = [w.strip() for w in data.decode('utf8').split('\n') if w.strip()]
        want = bip39.wordlist(lang)
        if have != want:
            diff = [i for i in range(min(len(have), len(want))) if have[i] != want[i]][:4]
            raise Discrepancy('lists.differ', 'bundled list %s differs from the BIP39 list (%d words, first '
                              'differences at %r)' % (lang, len(have), diff), case)
        try:
            lib_list = mn.Mnemonic(lang).wordlist()
        except Exception as e:
            raise Discrepancy('lists.raises', 'Mnemonic(%r).wordlist() raised %r' % (lang, e), case)
        if list(lib_list) != want:
            raise Discrepancy('lists.loaded', 'Mnemonic(%r).wordlist() differs from the BIP39 list' % lang, case)


def check_mhistory(ctx, case):
    """One long-lived Mnemonic(lang) object: reads of sentences in drawn languages (to_entropy, to_seed) interleaved
    with to_mnemonic / word() requests. What the object produces is always in ITS language and what it reads is
    decoded to the entropy / seed of the sentence, whatever it read before. case: kind=mhistory, lang, ops
    [{'op': 'to_mnemonic'|'to_entropy'|'to_seed'|'word', 'entropy': hex, 'lang': language of the sentence, 'i'}]"""
    from ref import bip39
    mn, _ = _lib()
    lang = case['lang']
    try:
        m = mn.Mnemonic(lang)
    except Exception as e:
        raise Discrepancy('init.raises', 'Mnemonic(%r) raised %r' % (lang, e), case)
    done = []
    for op in case['ops']:
        name = op['op']
        ent = bytes.fromhex(op.get('entropy', '00' * 16))
        try:
            if name == 'to_mnemonic':
                want = nfkd(' '.join(bip39.entropy_to_words(ent, lang)))
                got = nfkd(m.to_mnemonic(ent, check_on_curve=False))
                what = 'to_mnemonic(%s)' % ent.hex()
            elif name == 'word':
                want = nfkd(bip39.wordlist(lang)[op['i']])
                got = nfkd(m.word(op['i']))
                what = 'word(%d)' % op['i']
            elif name == 'to_entropy':
                text = _spell(bip39.entropy_to_words(ent, op['lang']), op['lang'], 'lib')
                want = ent
                got = bytes(m.to_entropy(text))
                what = 'to_entropy(<%s sentence>)' % op['lang']
            elif name == 'bad_sentence':
                # a sentence with a wrong checksum: first read WITHOUT validation (a documented option: the seed of the
                # text as it is), then with validation - by this object and by a new one - which has to refuse it
                words = list(bip39.entropy_to_words(ent, lang))
                wl = bip39.wordlist(lang)
                words[-1] = wl[(wl.index(words[-1]) + 1) % 2048]
                try:
                    bip39.words_to_entropy(words, lang)
                    done.append('bad_sentence(skipped: checksum matches)')
                    continue
                except ValueError:
                    pass
                text = _spell(words, lang, 'lib')
                want = bip39.seed(text, 'pw')
                got = bytes(m.to_seed(text, 'pw', validate=False))
                what = 'to_seed(<sentence with wrong checksum>, validate=False)'
                for who, obj in (('the same object', m), ('a new Mnemonic object', mn.Mnemonic(lang))):
                    try:
                        obj.to_seed(text, 'pw')
                    except Exception:
                        continue
                    raise Discrepancy('mhistory.bad_checksum_accepted', 'Mnemonic(%r): to_seed(<sentence with wrong '
                                      'checksum>) by %s returned a seed after the sentence had been read once with '
                                      'validate=False (earlier: %r)' % (lang, who, done), case)
            else:
                text = _spell(bip39.entropy_to_words(ent, op['lang']), op['lang'], 'lib')
                want = bip39.seed(text, 'pw')
                got = bytes(m.to_seed(text, 'pw'))
                what = 'to_seed(<%s sentence>)' % op['lang']
        except Discrepancy:
            raise
        except Exception as e:
            if _is_ascii_hex(ent):
                ctx.refusal('mhistory.ascii_hex_entropy')
                done.append(name)
                continue
            raise Discrepancy('mhistory.raises', 'Mnemonic(%r): %s raised %r after %r' % (lang, name, e, done), case)
        if got != want:
            raise Discrepancy('mhistory.%s' % name, 'Mnemonic(%r).%s after %r gives %r, expected %r' %
                              (lang, what, done, got if isinstance(got, str) else got.hex(),
                               want if isinstance(want, str) else want.hex()), case)
        done.append('%s[%s]' % (name, op.get('lang', lang)) if name in ('to_entropy', 'to_seed') else name)
        ctx.count()


DISPATCH = {'entropy': check_entropy, 'subst': check_subst, 'unknown': check_unknown, 'lists': check_lists,
            'mhistory': check_mhistory}


def replay(ctx, case):
    DISPATCH[case['kind']](ctx, case)


def probes(ctx):
    saved = ctx.findings
    ctx.findings = {}
    try:
        plist = [
            (F_PASS, {'kind': 'entropy', 'lang': 'english', 'entropy': '00' * 16, 'passphrase': '\u00e9',
                      'opts': []},
             "Mnemonic().to_seed(sentence, password='\\u00e9') uses the raw UTF-8 password (bytes(password, 'utf8')) "
             "instead of its NFKD form: composed / compatibility characters give a non-BIP39 seed (and key)"),
            (F_LANG, {'kind': 'entropy', 'lang': 'japanese', 'entropy': '000102030405060708090a0b0c0d0e0f',
                      'passphrase': '', 'opts': ['key']},
             "HDKey.from_passphrase / Mnemonic().to_seed (default English instance, as used by Wallet.create and the "
             "tools) raise ValueError \"... is not in list\" for every valid non-English sentence: validation looks "
             "the words up in the instance's English list although the language was detected"),
            (F_HEX, {'kind': 'entropy', 'lang': 'english', 'entropy': (b'0123456789abcdef' * 2).hex(),
                     'input': 'bytes', 'opts': []},
             "to_mnemonic(b'0123456789abcdef0123456789abcdef') (entropy bytes that are all ASCII hex digits) returns the "
             "12-word sentence of the un-hexlified 16 bytes, and to_entropy rejects the valid sentence of such an "
             "entropy with 'Invalid checksum' (to_mnemonic and Mnemonic.checksum pass bytes through to_bytes, which "
             "un-hexlifies them)"),
        ]
        for fid, case, what in plist:
            try:
                replay(ctx, case)
                ctx.probe(fid, False, what)
            except Discrepancy:
                ctx.probe(fid, True, what)
    finally:
        ctx.findings = saved


# ---- strategies ------------------------------------------------------------------------------------

def entropies():
    from hypothesis import strategies as st
    lens = st.sampled_from([16, 20, 24, 28, 32])

    def lead_zero_bytes(t):
        n, z, body = t
        z = min(z, n - 1)
        return bytes(z) + bytes([body[0] | 1]) + body[1:n - z]

    return st.one_of(
        lens.flatmap(lambda n: st.binary(min_size=n, max_size=n)),
        lens.flatmap(lambda n: st.binary(min_size=n, max_size=n)),
        lens.map(lambda n: bytes(n)),
        lens.map(lambda n: b'\xff' * n),
        st.tuples(lens, st.integers(1, 8), st.binary(min_size=32, max_size=32)).map(lead_zero_bytes),
        st.tuples(lens, st.integers(1, 7), st.binary(min_size=32, max_size=32)).map(
            lambda t: bytes([t[2][0] & (0xff >> t[1])]) + t[2][1:t[0]]),
        lens.flatmap(lambda n: st.integers(1, 255).map(lambda v: v.to_bytes(n, 'big'))),
        st.integers(0, (1 << 256) - 1 - N).map(lambda d: (N + d).to_bytes(32, 'big')),
        st.integers(1, 1000).map(lambda d: (N - d).to_bytes(32, 'big')),
        st.text(alphabet='0123456789abcdefABCDEF', min_size=32, max_size=32).map(lambda s: s.encode()),
    )


def entropy_class(b):
    if not any(b):
        return 'all_zero'
    if all(c == 0xff for c in b):
        return 'all_ones'
    if _is_ascii_hex(b):
        return 'ascii_hex'
    if len(b) == 32 and int.from_bytes(b, 'big') >= N:
        return 'ge_order'
    if b[0] == 0:
        return 'leading_zero_byte'
    if b[0] < 0x80:
        return 'leading_zero_bit'
    return 'uniform'


def passphrases():
    from hypothesis import strategies as st
    specials = ['', 'TREZOR', 'correct horse battery staple', '\u00e9', 'e\u0301', '\u212b', '\ufb01',
                '\u2460\u2461', '\uff21\uff22\uff23', '\ud55c\uae00', '\u01c6', '\u00a0nbsp', '\u3000',
                'pass\u00e9 compos\u00e9', '\u1e9b\u0323', '\u2126 \u03a9', '\u00bd', 'm\u00fcnchen',
                '\u4f60\u597d', '\u00b5', 'caf\u00e9\u0301']
    return st.one_of(st.sampled_from(specials), st.sampled_from(specials),
                     st.text(min_size=1, max_size=12),
                     st.text(alphabet=st.characters(min_codepoint=0xa0, max_codepoint=0x24ff), min_size=1, max_size=8),
                     st.text(alphabet=st.characters(min_codepoint=0x20, max_codepoint=0x7e), min_size=1, max_size=16))


_SHARED = {}


def shared_indices(lang, other):
    """indices (in lang's list) of the words that also occur in other's list"""
    from ref import bip39
    key = (lang, other)
    if key not in _SHARED:
        theirs = set(bip39.wordlist(other))
        _SHARED[key] = [i for i, w in enumerate(bip39.wordlist(lang)) if w in theirs]
    return _SHARED[key]


def shared_pairs(minimum=60):
    return [(a, b) for a in LANGS for b in LANGS if a != b and len(shared_indices(a, b)) >= minimum]


def shared_entropy(lang, other, n_bytes, picks, start):
    """entropy whose sentence in `lang` consists only of words that `other` has too (an ambiguous sentence: a
    language detector that counts hits sees a tie). None if the search for a fitting last word fails."""
    from ref.hashes import sha256
    sh = shared_indices(lang, other)
    shset = set(sh)
    ent_bits = n_bytes * 8
    cs = ent_bits // 32
    n = (ent_bits + cs) // 11
    head = 0
    for k in range(n - 1):
        head = (head << 11) | sh[picks[k % len(picks)] % len(sh)]
    free = 11 - cs
    for d in range(1 << free):
        tail = (start + d) % (1 << free)
        ent = ((head << free) | tail).to_bytes(n_bytes, 'big')
        last = (tail << cs) | (sha256(ent)[0] >> (8 - cs))
        if last in shset:
            return ent
    return None


def shared_strategy():
    from hypothesis import strategies as st
    from vlib import gen
    pairs = shared_pairs()

    def build(t):
        pair, nb, picks, start, pw, opts, form = t
        ent = shared_entropy(pair[0], pair[1], nb, picks, start)
        if ent is None:
            ent = bytes(nb)
        return {'kind': 'entropy', 'lang': pair[0], 'entropy': ent.hex(), 'input': 'bytes', 'form': form,
                'passphrase': pw, 'opts': sorted(opts), 'shared_with': pair[1]}
    return st.tuples(st.sampled_from(pairs), st.sampled_from([16, 16, 20, 24, 28, 32]),
                     st.lists(st.integers(0, 4095), min_size=3, max_size=24), st.integers(0, 255),
                     # (not through the default instance: for an instance of another language the sentence is
                     # genuinely ambiguous)
                     passphrases(), st.sets(st.sampled_from(['reparse']), max_size=1),
                     st.sampled_from(['lib', 'nfc'])).map(build)


def entropy_strategy():
    from hypothesis import strategies as st
    from vlib import gen

    def build(t):
        lang, ent, inp, form, pw, opts, net = t
        if form == 'ideographic' and lang != 'japanese':
            form = 'nfc'
        return {'kind': 'entropy', 'lang': lang, 'entropy': ent.hex(), 'input': inp, 'form': form,
                'passphrase': pw, 'opts': sorted(opts), 'network': net}
    return st.tuples(st.sampled_from(LANGS + ['japanese']), entropies(), st.sampled_from(['bytes', 'bytes', 'hex']),
                     st.sampled_from(['lib', 'nfc', 'ideographic']), passphrases(),
                     st.sets(st.sampled_from(['reparse', 'default_instance', 'key', 'pw_bytes', 'pw_bytes']), max_size=2),
                     gen.networks()).map(build)


def subst_strategy():
    from hypothesis import strategies as st
    from ref import bip39

    def build(t):
        lang, ent, posf, new, want_valid, seed, pw = t
        words = bip39.entropy_to_words(ent, lang)
        wl = bip39.wordlist(lang)
        pos = (len(words) - 1) if posf < 0 else posf % len(words)
        old = wl.index(words[pos])
        if new == old:
            new = (new + 1) % 2048
        if want_valid:
            # walk from the drawn index to the next replacement that keeps the checksum valid (the reference
            # decides); 1 in 16..256 replacements does
            for step in range(2048):
                cand = (new + step) % 2048
                if cand == old:
                    continue
                trial = list(words)
                trial[pos] = wl[cand]
                try:
                    bip39.words_to_entropy(trial, lang)
                    new = cand
                    break
                except ValueError:
                    pass
        return {'kind': 'subst', 'lang': lang, 'entropy': ent.hex(), 'pos': pos, 'new': new, 'seed': seed,
                'passphrase': pw}
    lens = st.sampled_from([16, 16, 20, 24, 28, 32])
    return st.tuples(st.sampled_from(LANGS), lens.flatmap(lambda n: st.binary(min_size=n, max_size=n)),
                     st.one_of(st.integers(0, 23), st.integers(0, 23), st.just(-1)), st.integers(0, 2047), st.booleans(),
                     st.sampled_from([False, False, True]),
                     st.sampled_from(['', 'x', 'e\u0301'])).map(build)


def unknown_strategy():
    from hypothesis import strategies as st
    from ref import bip39

    def build(t):
        lang, ent, posf, mode, other, idx, junk = t
        words = bip39.entropy_to_words(ent, lang)
        pos = posf % len(words)
        if mode == 'other_lang':
            word = bip39.wordlist(other)[idx]
        elif mode == 'upper':
            word = words[pos].upper()
        elif mode == 'prefix':
            word = words[pos][:4] if len(words[pos]) > 4 else words[pos] + words[pos][-1]
        elif mode == 'doubled':
            word = words[pos] + words[(pos + 1) % len(words)]
        else:
            word = junk
        return {'kind': 'unknown', 'lang': lang, 'entropy': ent.hex(), 'pos': pos, 'word': word, 'mode': mode}
    lens = st.sampled_from([16, 20, 24, 28, 32])
    return st.tuples(st.sampled_from(LANGS), lens.flatmap(lambda n: st.binary(min_size=n, max_size=n)),
                     st.integers(0, 23), st.sampled_from(['other_lang', 'other_lang', 'upper', 'prefix', 'doubled',
                                                          'junk']),
                     st.sampled_from(LANGS), st.integers(0, 2047),
                     st.text(alphabet='abcdefghijklmnopqrstuvwxyz', min_size=3, max_size=9)).map(build)


def run(ctx):
    if ctx.shard == 0:
        ctx.guard(lambda c: check_lists(ctx, c), {'kind': 'lists'})
        ctx.exhaustive('bundled word lists equal the pinned BIP39 lists')
    # every language x every entropy length x fixed patterns, split over the shards
    fixed = []
    for lang in LANGS:
        for n in (16, 20, 24, 28, 32):
            for pat in ('00', 'ff', '80', '7f', '01'):
                ent = bytes.fromhex(pat) * n if pat in ('00', 'ff', '80', '7f') else bytes(n - 1) + b'\x01'
                fixed.append({'kind': 'entropy', 'lang': lang, 'entropy': ent.hex(), 'input': 'bytes', 'form': 'lib',
                              'passphrase': 'TREZOR', 'opts': ['reparse']})
    for i, case in enumerate(fixed):
        if i % ctx.nshards == ctx.shard:
            ctx.nt(('fixed', case['lang'], case['entropy']))
            ctx.klass('fixed_patterns')
            ctx.guard(lambda c: check_entropy(ctx, c), case)
    ctx.exhaustive('fixed entropy patterns x 5 lengths x 9 lists')

    def prop_entropy(case):
        ent = bytes.fromhex(case['entropy'])
        cls = entropy_class(ent)
        pw = case['passphrase']
        ascii_pw = all(ord(c) < 128 for c in pw)
        if case['lang'] != 'english' or ent[0] == 0 or not ascii_pw:
            ctx.nt(('entropy', case))
        ctx.klass('entropy.class.' + cls)
        ctx.klass('entropy.len.%d' % len(ent))
        ctx.klass('entropy.lang.' + case['lang'])
        ctx.klass('entropy.form.' + case['form'])
        ctx.klass('passphrase.' + ('empty' if not pw else 'ascii' if ascii_pw else
                                   'nfkd_stable' if nfkd(pw) == pw else 'needs_nfkd'))
        for o in case['opts']:
            ctx.klass('entropy.opt.' + o)
        if len(ctx.samples) < 4 and ctx.evaluations % 7 == 3:
            ctx.sample(case)
        check_entropy(ctx, case)
    ctx.run_given('entropy', entropy_strategy(), prop_entropy, ctx.scale(100, 2000))

    # sentences made only of words that a second bundled list contains too (language detection sees a tie)
    def prop_shared(case):
        ctx.nt(('shared', case['lang'], case['shared_with'], case['entropy'], case['form'], tuple(case['opts'])))
        ctx.klass('shared_words.%s~%s' % (case['lang'], case['shared_with']))
        check_entropy(ctx, case)
    ctx.run_given('shared_words', shared_strategy(), prop_shared, ctx.scale(12, 400))

    # one long-lived object that reads sentences of several languages
    from hypothesis import strategies as hst
    ent16 = hst.sampled_from([16, 16, 24, 32]).flatmap(lambda n: hst.binary(min_size=n, max_size=n)).filter(
        lambda b: not _is_ascii_hex(b)).map(bytes.hex)
    mop = hst.one_of(
        hst.fixed_dictionaries({'op': hst.just('to_mnemonic'), 'entropy': ent16}),
        hst.fixed_dictionaries({'op': hst.just('word'), 'i': hst.sampled_from([0, 1, 1000, 2047])}),
        hst.fixed_dictionaries({'op': hst.just('bad_sentence'), 'entropy': ent16}),
        hst.fixed_dictionaries({'op': hst.sampled_from(['to_entropy', 'to_entropy', 'to_seed']), 'entropy': ent16,
                                'lang': hst.sampled_from(LANGS)}))
    mhist = hst.fixed_dictionaries({'kind': hst.just('mhistory'), 'lang': hst.sampled_from(LANGS),
                                    'ops': hst.lists(mop, min_size=2, max_size=6)})

    def prop_mhist(case):
        reads = [o for o in case['ops'] if o['op'] in ('to_entropy', 'to_seed')]
        if any(o['lang'] != case['lang'] for o in reads):
            ctx.nt(('mhistory', case['lang'], str(case['ops'])))
            ctx.klass('mhistory.foreign_sentence_read')
        check_mhistory(ctx, case)
    ctx.run_given('mhistory', mhist, prop_mhist, ctx.scale(25, 800))

    def prop_subst(case):
        ctx.nt(('subst', case))
        ctx.klass('subst.lang.' + case['lang'])
        ctx.klass('subst.pos.' + ('last' if case['pos'] == {16: 11, 20: 14, 24: 17, 28: 20, 32: 23}[
            len(case['entropy']) // 2] else 'inner'))
        if len(ctx.samples) < 7 and ctx.evaluations % 5 == 1:
            ctx.sample(case)
        check_subst(ctx, case)
    ctx.run_given('subst', subst_strategy(), prop_subst, ctx.scale(220, 6000))

    def prop_unknown(case):
        ctx.nt(('unknown', case))
        ctx.klass('unknown.mode.' + case['mode'])
        if len(ctx.samples) < 9 and ctx.evaluations % 5 == 2:
            ctx.sample(case)
        check_unknown(ctx, case)
    ctx.run_given('unknown', unknown_strategy(), prop_unknown, ctx.scale(60, 1500))
