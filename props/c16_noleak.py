"""C16 - public views and default exports never contain private key material (any encoding), also when
pickled / copied; with database field encryption on, no private key or private WIF is readable in plaintext
in the database file.

Oracle: a secret-encoding scanner that is independent of bitcoinlib.  Every secret involved in a case (the
key itself, and for HD keys / wallets every private key on every derivation path the library walked, derived
with ref/bip32 from the drawn seed) is rendered in every encoding the scanner knows (ref/address.wif for
every WIF prefix of the pinned network table and both compressions, ref/bip32 XKey.xkey for every private
version prefix of the pinned table, raw big/little-endian bytes, hex, decimal, the int itself) and searched
for in (a) the text of each view, (b) the complete object graph, pickles and copies of public-version
objects, (c) the raw bytes and the sqlite3-level cell dump of the database file and every side file.  In
addition every long base58 token met anywhere is decoded and searched for the raw secret, so a WIF/xprv
with an unknown prefix or altered metadata is found as well.
"""
import collections
import contextlib
import copy
import hashlib
import io
import json
import os
import pickle
import re
import shutil
import sqlite3
import subprocess
import sys
import types

from vlib.core import Discrepancy, HarnessError

LEVEL = 'exploration'
TECHNIQUE = ('Hypothesis-generated call histories on keys / HD keys / signed transactions / wallets, then a '
             'secret-encoding scanner (ref/address, ref/bip32, ref/base58; independent of bitcoinlib) over view texts, '
             'object graphs, pickles, copies and raw database files; encrypted-database part in a subprocess')
RULE = ('key case: a Key or HDKey built from a drawn secret/seed in a drawn import format (int, hex, bytes, WIF, seed, '
        'xprv, key+chain, Key object; optionally a derived child), a drawn history of 1..6 calls on the private object '
        '(wif, wif with foreign prefix, wif_key, wif_private, address, as_dict/as_json(include_private=True), info, '
        'sign, public_master*, child derivations, deepcopy, pickle round trip, encrypt), then every view: repr/str/'
        'as_dict/as_json/bytes/address object of the private object, and for public(), public_master(), '
        'public_master_multisig(), child_public() the object graph before and after its own views, pickle (protocols '
        '0, 2, highest), unpickled copy, deepcopy, copy, repr/str/as_dict/as_json/info/wif*. tx case: 1-3 inputs signed '
        'with drawn keys (single key or 2-of-3 multisig; legacy / segwit / p2sh-segwit), views repr/str/as_dict/'
        'as_json/info/raw of the transaction and of every input/output. wallet case: HD, single-key or 2-of-3 multisig '
        'wallet in its own SQLite file with a drawn history (get_key, new_key, new_account, utxos_update, send, '
        'import_key, wif(is_private=True), as_dict(include_private=True), reopen ...), views repr/str/as_dict/as_json/'
        'info(0..5)/wif()/public_master()/keys(as_dict)/WalletKey.as_dict/transactions + a watch-only wallet created '
        'from the public export in a second file whose bytes are scanned. db case: a subprocess with '
        'DB_FIELD_ENCRYPTION_KEY or _PASSWORD creates the wallets + history, the parent scans the raw bytes of every '
        'file in the data directory and the sqlite3 cell dump; a control run without the variable must be found '
        'leaking by the same scanner. Non-trivial = a key/tx/wallet case whose history contains at least one '
        'cache-filling or secret-handling call before the view is taken; a db case with >= 5 private key rows that '
        'are stored encrypted. Distinct by (kind, secret/seed, import format, history). [wallet cases may add a watch-only wallet (address / account xpub) into which an unrelated private key is imported; its default views are scanned] [multisig wallets whose own cosigner keys are single keys without derivation data]'
        ' [field encryption keys of 16 / 48 / 64 bytes]')
ASSUMPTIONS = [
    'the scanner only knows these encodings of a secret d: 32-byte big-endian (leading zero bytes optional), '
    'little-endian (as in pickled ints), hex in either case (leading zeros optional), decimal, the int itself, WIF '
    'for every prefix_wif of the pinned network table x both compressions, extended private key for every private '
    'version of the pinned table with the true depth/fingerprint/index/chain, and any base58 token of 40..200 '
    'characters whose decoding contains the raw secret; an obfuscated leak (XOR, base64, encrypted with a known '
    'key) passes',
    'secrets are hashes of drawn bytes shaped into uniform / 1..12 leading zero bytes / just below the group order (all '
    '>= 2^128, >= 8 distinct byte values) so that no needle can collide with public data or file padding by accident',
    'scope of "public": text views (repr/str/as_dict/as_json/info and exports) of keys, addresses, transactions, '
    'wallets and wallet keys; object graph / pickle / copy only for objects the library hands out as public '
    'versions (Key.public, HDKey.public, public_master*, child_public, WalletKey.public().key()). Key.info() and '
    'include_private=True views of PRIVATE objects print the secret by design and are used as history only. A '
    'pickled signed Transaction (Transaction.save) keeps its signing keys; that is not a view the statement lists',
    'the object-graph walk does not descend into SQLAlchemy objects (session, engine, ORM rows reachable from a '
    'WalletKey): they are handles to the database, which holds the private keys by design',
    'database part: SQLite only, page size large enough that a key row is stored contiguously; the cell dump '
    'through the sqlite3 module covers rows regardless of page layout',
]
SHARDS = {'quick': 16, 'thorough': 16}
WALL_CAP = {'quick': 600, 'thorough': 3000}

F_WIF = 'C16-public-keeps-cached-wif'
F_WKREPR = 'C16-walletkey-repr-private-wif'
F_DBKREPR = 'C16-dbkey-repr-private-wif'
ALL_FINDINGS = (F_WIF, F_WKREPR, F_DBKREPR)

HARD = 0x80000000
WITNESS_TYPES = ['legacy', 'segwit', 'p2sh-segwit']
TESTNET = 'bitcoinlib_test'
ENC_KEY_HEX = '11223344556677889900aabbccddeeff11223344556677889900aabbccddeeff'
ENC_PASSWORD = 'verybadpassword'
DB_MODES = ['key', 'password', 'key', 'password', 'key48', 'key64', 'key16', 'key', 'password', 'key48', 'key64', 'key',
            'password', 'key', 'password', 'key16']
DB_MODE_KEYS = {'key': ENC_KEY_HEX, 'key48': ENC_KEY_HEX + '0f' * 16, 'key64': ENC_KEY_HEX * 2,
                'key16': ENC_KEY_HEX[:32]}
B58_TOKEN = re.compile(r'[1-9A-HJ-NP-Za-km-z]{40,200}')


# =================================================================================================
# the scanner (independent of bitcoinlib)
# =================================================================================================

def _pinned_wif_prefixes():
    from ref import address
    out = []
    for n in address.NETWORK_NAMES:
        p = address.prefix_wif(n)
        if p not in out:
            out.append(p)
    return out


def _pinned_private_versions():
    from ref import address
    out = []
    for n in address.NETWORK_NAMES:
        for e in address.xkey_versions(n):
            if e['private'] and e['version'] not in out:
                out.append(e['version'])
    return out


class Secrets(object):
    """Every known encoding of every secret involved in a case."""

    def __init__(self):
        self.ints = {}        # d -> label
        self.text = {}        # case-sensitive str needle -> (kind, label)
        self.hexl = {}        # lower-case hex needle -> label
        self.raw = {}         # bytes needle -> (kind, label)
        self._xk = set()
        self._wifp = _pinned_wif_prefixes()
        self._xver = _pinned_private_versions()
        self._btext = None
        self._memo = {}       # leaf value -> [(kind, label, needle)] (identical leaves are scanned once)
        self._paths = set()

    def add(self, d, label, xk=None):
        from ref import base58
        if d not in self.ints:
            if d < (1 << 128) or len(set(d.to_bytes(32, 'big'))) < 8:
                raise HarnessError('low-entropy secret given to the scanner (%s): its encodings could match public '
                                   'data or padding by accident' % label)
            self.ints[d] = label
            be = d.to_bytes(32, 'big')
            self.raw[be.lstrip(b'\x00')] = ('raw', label)
            self.raw[d.to_bytes(32, 'little').rstrip(b'\x00')] = ('raw_le', label)
            self.hexl['%x' % d] = label
            self.text[str(d)] = ('dec', label)
            for p in self._wifp:
                for suffix in (b'\x01', b''):
                    self.text[base58.check_encode(p + be + suffix)] = ('wif', label)
        if xk is not None:
            key = (d, xk.depth, xk.parent_fp, xk.child, xk.chain)
            if key not in self._xk:
                self._xk.add(key)
                for v in self._xver:
                    self.text[xk.xkey(v, private=True)] = ('xprv', label)
        self._btext = None
        self._memo = {}

    def add_xkey(self, xk, label):
        self.add(xk.secret, label, xk)

    # ---- haystacks ---------------------------------------------------------------------------
    def scan_text(self, s, where, hits):
        if len(s) < 16:
            return
        found = self._memo.get(s)
        if found is None:
            tmp = []
            self._scan_text(s, where, tmp)
            found = self._memo[s] = [(h.kind, h.label, h.needle) for h in tmp]
        for kind, label, needle in found:
            hits.append(Hit(where, kind, label, needle))

    def _scan_text(self, s, where, hits):
        for needle, (kind, label) in self.text.items():
            if needle in s:
                hits.append(Hit(where, kind, label, needle))
        low = s.lower()
        for needle, label in self.hexl.items():
            if needle in low:
                hits.append(Hit(where, 'hex', label, needle))
        self._tokens(s, where, hits)

    def _tokens(self, s, where, hits):
        """Decode every long base58 token (and its neighbours with up to 2 leading / 1 trailing framing characters
        removed, e.g. the length byte of a pickled string) and look for the raw secret inside."""
        from ref import base58
        for m in B58_TOKEN.finditer(s):
            tok = m.group(0)
            found = False
            for a in (0, 1, 2):
                for z in (0, 1):
                    cand = tok[a:len(tok) - z]
                    if cand in self.text:
                        found = True       # already reported through the explicit needle
                        break
                    if len(cand) < 38:
                        continue
                    try:
                        dec = base58.b58decode(cand)
                    except ValueError:
                        continue
                    for needle, (kind, label) in self.raw.items():
                        if kind == 'raw' and needle in dec:
                            hits.append(Hit(where, 'b58payload', label, cand))
                            found = True
                            break
                    if found:
                        break
                if found:
                    break

    def scan_bytes(self, b, where, hits):
        if len(b) < 16:
            return
        found = self._memo.get(b)
        if found is None:
            tmp = []
            self._scan_bytes(b, where, tmp)
            found = [(h.kind, h.label, h.needle) for h in tmp]
            if len(b) < 4096:
                self._memo[b] = found
        for kind, label, needle in found:
            hits.append(Hit(where, kind, label, needle))

    def _scan_bytes(self, b, where, hits):
        for needle, (kind, label) in self.raw.items():
            if needle in b:
                hits.append(Hit(where, kind, label, needle.hex()))
        if self._btext is None:
            self._btext = [(n.encode('ascii'), n, v) for n, v in self.text.items()]
        for bn, needle, (kind, label) in self._btext:
            if bn in b:
                hits.append(Hit(where, kind, label, needle))
        low = b.lower()
        for needle, label in self.hexl.items():
            if needle.encode('ascii') in low:
                hits.append(Hit(where, 'hex', label, needle))
        self._tokens(b.decode('latin-1'), where, hits)


class Hit(object):
    __slots__ = ('where', 'kind', 'label', 'needle', 'attr')

    def __init__(self, where, kind, label, needle, attr=None):
        self.where = where
        self.kind = kind
        self.label = label
        self.needle = needle
        self.attr = attr

    def __repr__(self):
        return '%s: %s of %s (%s..)' % (self.where, self.kind, self.label, str(self.needle)[:24])


_SKIP_TOP = ('sqlalchemy', 'logging', 'threading', '_thread', 'sqlite3', 'weakref', '_weakref', '_io', 'io')
_ATOMS = (type, types.ModuleType, types.FunctionType, types.BuiltinFunctionType, types.MethodType,
          types.GetSetDescriptorType, types.MemberDescriptorType, property, staticmethod, classmethod)


def walk(root, secrets, where, hits, stats=None):
    """Object-graph scan: cycles, __dict__, __slots__, dict/list/tuple/set, str/bytes/int leaves."""
    seen = set()
    keep = []
    stack = [(root, where)]
    n = 0
    while stack:
        obj, path = stack.pop()
        n += 1
        if n > 500000:
            raise HarnessError('object graph walk does not terminate at %s' % path)
        if obj is None or isinstance(obj, (bool, float, complex)):
            continue
        if isinstance(obj, int):
            if obj in secrets.ints:
                hits.append(Hit(path, 'int', secrets.ints[obj], str(obj), _last_attr(path)))
            continue
        if isinstance(obj, str):
            if len(obj) < 16:
                continue
            h0 = len(hits)
            secrets.scan_text(obj, path, hits)
            for h in hits[h0:]:
                h.attr = _last_attr(path)
            continue
        if isinstance(obj, (bytes, bytearray, memoryview)):
            h0 = len(hits)
            secrets.scan_bytes(bytes(obj), path, hits)
            for h in hits[h0:]:
                h.attr = _last_attr(path)
            continue
        oid = id(obj)
        if oid in seen:
            continue
        seen.add(oid)
        keep.append(obj)
        if isinstance(obj, _ATOMS):
            continue
        if isinstance(obj, dict):
            for k, v in list(obj.items()):
                ks = k if isinstance(k, str) and len(k) < 40 else type(k).__name__
                stack.append((k, '%s{key}' % path))
                stack.append((v, '%s[%s]' % (path, ks)))
            if type(obj) in (dict, collections.OrderedDict):
                continue
        elif isinstance(obj, (list, tuple, set, frozenset, collections.deque)):
            for i, v in enumerate(list(obj)):
                stack.append((v, '%s[%d]' % (path, i)))
            if type(obj) in (list, tuple, set, frozenset, collections.deque):
                continue
        mod = (getattr(type(obj), '__module__', '') or '').split('.')[0]
        if mod in _SKIP_TOP or hasattr(obj, '_sa_instance_state'):
            if stats is not None:
                stats['skipped:' + type(obj).__name__] = stats.get('skipped:' + type(obj).__name__, 0) + 1
            continue
        attrs = {}
        d = getattr(obj, '__dict__', None)
        if isinstance(d, dict):
            attrs.update(d)
        for klass in type(obj).__mro__:
            slots = klass.__dict__.get('__slots__', ())
            if isinstance(slots, str):
                slots = (slots,)
            for s in slots:
                if s in ('__dict__', '__weakref__'):
                    continue
                try:
                    attrs[s] = getattr(obj, s)
                except AttributeError:
                    pass
        if not attrs and stats is not None and not isinstance(obj, (dict, list, tuple, set, frozenset)):
            stats['opaque:' + type(obj).__name__] = stats.get('opaque:' + type(obj).__name__, 0) + 1
        for a, v in attrs.items():
            stack.append((v, '%s.%s' % (path, a)))
    return n


def _last_attr(path):
    m = re.search(r'\.([A-Za-z_][A-Za-z0-9_]*)$', path)
    return m.group(1) if m else None


def scanner_selftest():
    """The scanner must see a planted secret in every encoding and container shape (else: harness error)."""
    from ref import bip32, address
    m = bip32.master(b'c16 scanner self-test')
    s = Secrets()
    s.add_xkey(m, 'planted')
    d = m.secret

    class Slotted(object):
        __slots__ = ('a', 'b')

    class Plain(object):
        pass
    planted = [
        d, str(d), 'x=%064X;' % d, ('%064x' % d), d.to_bytes(32, 'big'), b'..' + d.to_bytes(32, 'big').hex().encode(),
        address.wif(d, 'bitcoin', True), address.wif(d, 'dogecoin_testnet', False),
        m.xkey(address.xkey_version('litecoin', True)), m.xkey(bytes.fromhex('0488ade4')),
        # unknown version prefix / altered metadata: only the token decoder can see these
        bip32.XKey(d, m.point, m.chain, 3, b'abcd', 77).xkey(bytes.fromhex('0f0f0f0f'), private=True),
        pickle.dumps({'k': d}, 2), pickle.dumps([d], 0),
    ]
    for i, p in enumerate(planted):
        for shape in range(5):
            o = Plain()
            if shape == 0:
                o.x = p
            elif shape == 1:
                sl = Slotted()
                sl.a = [1, (2, {'deep': {p if isinstance(p, (str, bytes, int)) else 0: None}})]
                sl.b = sl
                o.x = sl
            elif shape == 2:
                o.x = {'a': {'b': [set([p])]}}
                o.self = o
            elif shape == 3:
                o.x = collections.OrderedDict([('q', (p,))])
            else:
                o.x = pickle.dumps(p)
            hits = []
            walk(o, s, 'selftest', hits)
            if not hits:
                raise HarnessError('scanner self-test: planted item %d not found in shape %d' % (i, shape))
    clean = Plain()
    clean.pub = m.pub
    clean.xpub = m.xkey(bytes.fromhex('0488b21e'), private=False)
    clean.chain = m.chain
    clean.n = [d + 1, d - 1, str(d + 1)]
    hits = []
    walk(clean, s, 'selftest', hits)
    if hits:
        raise HarnessError('scanner self-test: false positive %r' % hits)


# =================================================================================================
# helpers
# =================================================================================================

def _lib():
    import bitcoinlib.keys as keys
    import bitcoinlib.transactions as tx
    return keys, tx


def _wallets():
    import bitcoinlib.wallets as wallets
    return wallets


def _capture(fn):
    buf = io.StringIO()
    with contextlib.redirect_stdout(buf):
        fn()
    return buf.getvalue()


def _cointype(net):
    from ref import address
    return address.net(net)['bip44_cointype']


def _pm_path(net, witness_type, multisig, account=0):
    """Public-master path by the BIPs (44/49/84 single, 45/48 multisig); independent of the library tables."""
    c = _cointype(net) | HARD
    a = account | HARD
    if not multisig:
        purpose = {'legacy': 44, 'p2sh-segwit': 49, 'segwit': 84, 'taproot': 86}[witness_type]
        return [purpose | HARD, c, a]
    if witness_type == 'legacy':
        return [45 | HARD]
    return [48 | HARD, c, a, (1 if witness_type == 'p2sh-segwit' else 2) | HARD]


def _add_path(secrets, xk, path, label):
    """Add xk and every key on `path` below it; returns the last key."""
    from ref import bip32
    memo_key = (xk.secret, xk.chain, tuple(path))
    if memo_key in secrets._paths:
        return None
    secrets._paths.add(memo_key)
    secrets.add_xkey(xk, label)
    cur = xk
    done = []
    for idx in path:
        cur = bip32.ckd_priv(cur, idx)
        done.append(idx)
        secrets.add_xkey(cur, '%s/%s' % (label, _fmt_path(done)))
    return cur


def _fmt_path(path):
    return '/'.join('%d%s' % (i & 0x7fffffff, "'" if i & HARD else '') for i in path)


def _parse_path(s):
    """'m/84'/0'/0'/0/1' -> list of ints, None for public-relative ('M/..') or unparsable paths."""
    if not s:
        return None
    parts = s.split('/')
    if parts[0] != 'm':
        return None
    out = []
    for p in parts[1:]:
        if not p:
            return None
        hard = p[-1] in "'HhPp"
        if hard:
            p = p[:-1]
        if not p.isdigit():
            return None
        out.append(int(p) | (HARD if hard else 0))
    return out


def _xver(net, private, witness_type, multisig):
    from ref import address
    v = address.xkey_version(net, private, witness_type, multisig)
    if v is None:
        v = address.xkey_version(net, private, 'legacy', False)
    return v


def _report(ctx, case, hits, kf_of=None):
    """One discrepancy per root-cause bucket; known findings are counted, everything else raises."""
    if not hits:
        return
    seen = {}
    for h in hits:
        view = re.sub(r'\[\d+\]', '[]', h.where)
        view = re.sub(r'\[[0-9a-f]{16,}\]', '[]', view)
        bucket = 'leak:%s:%s' % (view[:90], h.kind)
        if bucket in seen:
            continue
        seen[bucket] = h
    first = None
    for bucket in sorted(seen):
        h = seen[bucket]
        kf = kf_of(h) if kf_of else None
        msg = '%s contains the %s encoding of the private key %s (%s...)' % (h.where, h.kind, h.label,
                                                                             str(h.needle)[:20])
        try:
            ctx.disc(bucket, msg, case, kf=kf)
        except Discrepancy as d:
            if first is None:
                first = d
    if first is not None:
        raise first


# =================================================================================================
# key cases
# =================================================================================================

KEY_OPS_COMMON = ['wif', 'wif_foreign', 'address', 'as_dict_private', 'as_json_private', 'info', 'sign', 'public',
                  'deepcopy', 'pickle', 'repr', 'as_dict', 'hash160']
KEY_OPS_HD = ['wif_key', 'wif_private', 'wif_private_wt', 'wif_public', 'public_master', 'public_master_private',
              'public_master_multisig', 'child_private', 'child_private_h', 'child_public', 'fingerprint']
CACHE_FILLING = {'wif', 'wif_foreign', 'wif_key', 'as_dict_private', 'as_json_private', 'info', 'wif_private',
                 'wif_private_wt', 'sign', 'encrypt', 'public_master_private', 'child_private', 'child_private_h',
                 'public_master', 'public_master_multisig', 'pickle', 'deepcopy'}


def secret_strategy():
    """Secrets with enough entropy that no needle can match public data or padding by accident: a hash of drawn
    bytes, shaped into the classes uniform / leading zero bytes (>= 2^128) / just below the group order."""
    from hypothesis import strategies as st
    from ref import ec

    def shape(t):
        raw, klass, k = t
        h = int.from_bytes(hashlib.sha256(b'c16 secret' + raw).digest(), 'big')
        if klass == 0:
            return h % (ec.N - 1) + 1
        if klass == 1:
            return (h >> (8 * k)) | (1 << (255 - 8 * k))       # exactly k leading zero bytes, k <= 12
        return ec.N - 1 - (h % 1000)
    return st.tuples(st.binary(min_size=1, max_size=8), st.sampled_from([0, 0, 1, 2]), st.integers(1, 12)).map(shape)


def key_strategy(ctx):
    from hypothesis import strategies as st
    from ref import ec
    from ref.address import NETWORK_NAMES
    n = ec.N
    secret = secret_strategy()
    net = st.one_of(st.sampled_from(NETWORK_NAMES), st.just('bitcoin'), st.just(TESTNET))
    ops_plain = st.lists(st.sampled_from(KEY_OPS_COMMON + ['wif', 'wif', 'info', 'as_dict_private']), min_size=1,
                         max_size=6)
    ops_hd = st.lists(st.sampled_from(KEY_OPS_COMMON + KEY_OPS_HD + ['wif_key', 'wif_key', 'info']), min_size=1,
                      max_size=6)
    plain = st.fixed_dictionaries({
        'kind': st.just('key'), 'cls': st.just('Key'),
        'secret': secret.map(lambda d: '%x' % d),
        'fmt': st.sampled_from(['int', 'hex', 'bytes', 'wif']),
        'network': net, 'compressed': st.booleans(), 'history': ops_plain,
        'encrypt': st.sampled_from([False] * 29 + [True]),
    })
    hd = st.fixed_dictionaries({
        'kind': st.just('key'), 'cls': st.just('HDKey'),
        'seed': st.binary(min_size=16, max_size=64).map(bytes.hex),
        'secret': secret.map(lambda d: '%x' % d),
        'fmt': st.sampled_from(['seed', 'seed', 'xprv', 'xprv', 'keychain', 'key_obj', 'wif']),
        'network': net, 'compressed': st.booleans(),
        'witness_type': st.sampled_from(WITNESS_TYPES), 'multisig': st.booleans(),
        'subpath': st.one_of(st.just([]), st.just([]),
                             st.lists(st.one_of(st.integers(0, 3), st.integers(0, 3).map(lambda i: i | HARD),
                                                st.integers(0, 0xffffffff)), min_size=1, max_size=3)),
        'history': ops_hd,
        'encrypt': st.sampled_from([False] * 29 + [True]),
    })
    return st.one_of(plain, hd, hd)


def _build_key(case, secrets):
    """-> (library key object, ref XKey or None, state dict). Raises _Refused when the library refuses the input."""
    from ref import ec, bip32, address
    keys, _ = _lib()
    net = case['network']
    comp = case.get('compressed', True)
    d = int(case['secret'], 16)
    fmt = case['fmt']
    if case['cls'] == 'Key':
        secrets.add(d, 'key')
        if fmt == 'int':
            arg = d
        elif fmt == 'hex':
            arg = '%064x' % d
        elif fmt == 'bytes':
            arg = d.to_bytes(32, 'big')
        else:
            arg = address.wif(d, net, comp)
        try:
            k = keys.Key(arg, network=net, compressed=comp)
        except Exception as e:
            raise _Refused('Key(%s):%s' % (fmt, type(e).__name__))
        return k, None, {'net': net, 'wt': 'legacy', 'ms': False}
    wt = case.get('witness_type', 'legacy')
    ms = bool(case.get('multisig', False))
    try:
        if fmt in ('seed', 'xprv', 'keychain'):
            seed = bytes.fromhex(case['seed'])
            xk = bip32.master(seed)
            secrets.add_xkey(xk, 'master')
            if fmt == 'seed':
                k = keys.HDKey.from_seed(seed, network=net, witness_type=wt, multisig=ms)
            elif fmt == 'xprv':
                k = keys.HDKey(xk.xkey(_xver(net, True, wt, ms), private=True), network=net)
                wt = k.witness_type
                ms = bool(k.multisig)
            else:
                k = keys.HDKey(key=xk.secret.to_bytes(32, 'big'), chain=xk.chain, network=net, witness_type=wt,
                               multisig=ms)
        else:
            xk = bip32.XKey(d, ec.pubkey(d), bytes(32))
            secrets.add_xkey(xk, 'master')
            if fmt == 'key_obj':
                k = keys.HDKey(keys.Key(d, network=net, compressed=comp), network=net, witness_type=wt, multisig=ms)
            else:
                k = keys.HDKey(address.wif(d, net, comp), network=net, witness_type=wt, multisig=ms)
    except ValueError:
        raise _Refused('ref.master invalid')
    except Exception as e:
        raise _Refused('HDKey(%s):%s' % (fmt, type(e).__name__))
    done = []
    for idx in case.get('subpath', []):
        try:
            nxt = bip32.ckd_priv(xk, idx)
        except ValueError:
            raise _Refused('ref.ckd invalid')
        try:
            k = k.child_private(index=idx & 0x7fffffff, hardened=bool(idx & HARD))
        except Exception as e:
            raise _Refused('child_private:%s' % type(e).__name__)
        xk = nxt
        done.append(idx)
        secrets.add_xkey(xk, 'master/%s' % _fmt_path(done))
    return k, xk, {'net': net, 'wt': wt, 'ms': ms}


class _Refused(Exception):
    pass


def _foreign_net(net):
    from ref.address import NETWORK_NAMES
    i = NETWORK_NAMES.index(net) if net in NETWORK_NAMES else 0
    return NETWORK_NAMES[(i + 1) % len(NETWORK_NAMES)]


def _other_wt(wt):
    return WITNESS_TYPES[(WITNESS_TYPES.index(wt) + 1) % 3] if wt in WITNESS_TYPES else 'segwit'


def _apply_key_op(ctx, k, op, xk, state, secrets):
    """One history call on the PRIVATE object. Returns the (possibly replaced) object."""
    from ref import bip32, address
    keys, _ = _lib()
    hd = xk is not None
    try:
        if op == 'wif':
            k.wif() if not hd else k.wif(is_private=True)
        elif op == 'wif_foreign':
            p = address.prefix_wif(_foreign_net(state['net']))
            keys.Key.wif(k, prefix=p)
        elif op == 'wif_key':
            k.wif_key()
        elif op == 'wif_private':
            k.wif_private()
        elif op == 'wif_private_wt':
            k.wif_private(witness_type=_other_wt(state['wt']))
        elif op == 'wif_public':
            k.wif_public()
        elif op == 'address':
            k.address()
        elif op == 'as_dict_private':
            k.as_dict(include_private=True)
        elif op == 'as_json_private':
            k.as_json(include_private=True)
        elif op == 'info':
            _capture(k.info)
        elif op == 'sign':
            keys.sign(hashlib.sha256(b'c16').hexdigest(), k)
        elif op == 'public':
            k.public()
        elif op == 'deepcopy':
            k = copy.deepcopy(k)
        elif op == 'pickle':
            k = pickle.loads(pickle.dumps(k))
        elif op == 'repr':
            repr(k)
        elif op == 'as_dict':
            k.as_dict()
        elif op == 'hash160':
            k.hash160
        elif op == 'fingerprint':
            k.fingerprint
        elif op == 'encrypt':
            k.encrypt('c16 password')
        elif op in ('public_master', 'public_master_private', 'public_master_multisig'):
            if op == 'public_master_multisig':
                state['ms'] = True
            try:
                _add_path(secrets, xk, _pm_path(state['net'], state['wt'], state['ms']), 'subject')
            except ValueError:
                pass
            if op == 'public_master':
                k.public_master()
            elif op == 'public_master_private':
                k.public_master(as_private=True)
            else:
                k.public_master_multisig()
        elif op in ('child_private', 'child_private_h'):
            idx = 1 | (HARD if op.endswith('_h') else 0)
            try:
                secrets.add_xkey(bip32.ckd_priv(xk, idx), 'subject/%s' % _fmt_path([idx]))
            except ValueError:
                pass
            k.child_private(index=1, hardened=op.endswith('_h'))
        elif op == 'child_public':
            k.child_public(2)
    except Exception as e:
        ctx.refusal('history.%s:%s' % (op, type(e).__name__))
    return k


def _text_views(obj, name, out, private_variants=False):
    """Collect (view name, value) of the default text/dict views of a key-like object."""
    def add(v, fn):
        try:
            out.append(('%s.%s' % (name, v), fn()))
        except Exception as e:
            out.append(('%s.%s' % (name, v), _Raised(e)))
    add('repr', lambda: repr(obj))
    add('str', lambda: str(obj))
    add('as_dict', lambda: obj.as_dict())
    add('as_json', lambda: obj.as_json())
    if hasattr(obj, 'public_byte'):
        add('bytes', lambda: bytes(obj))
        add('address', lambda: obj.address())
        add('address_obj.as_dict', lambda: obj.address_obj.as_dict())
        add('address_obj.as_json', lambda: obj.address_obj.as_json())
        add('address_obj.repr', lambda: repr(obj.address_obj))
    if hasattr(obj, 'wif_public'):
        add('wif_default', lambda: obj.wif())
        add('wif_public', lambda: obj.wif_public())
        add('wif_is_private_false', lambda: obj.wif(is_private=False))
        # public exports under explicitly given version bytes (how SLIP-132 ypub / zpub / Ypub strings are made)
        add('wif_public_prefix_hex', lambda: obj.wif_public(prefix='04b24746'))
        add('wif_public_prefix_bytes', lambda: obj.wif_public(prefix=bytes.fromhex('049d7cb2')))
        add('wif_is_private_false_prefix', lambda: obj.wif(is_private=False, prefix='0488b21e'))
    if private_variants:
        # on a PUBLIC object every output must be clean, whatever is asked for
        add('as_dict_private', lambda: obj.as_dict(include_private=True))
        add('as_json_private', lambda: obj.as_json(include_private=True))
        add('info', lambda: _capture(obj.info))
        if hasattr(obj, 'wif_public'):
            add('wif_is_private_true', lambda: obj.wif(is_private=True))
            add('wif_private', lambda: obj.wif_private())
            add('wif_key', lambda: obj.wif_key())
        else:
            add('wif', lambda: obj.wif())


class _Raised(object):
    def __init__(self, e):
        self.e = e


def _scan_views(ctx, views, secrets, hits):
    for name, val in views:
        if isinstance(val, _Raised):
            ctx.refusal('view.%s:%s' % (re.sub(r'^[^.]*\.', '', name), type(val.e).__name__))
            continue
        walk(val, secrets, name, hits)


def _scan_public_object(ctx, pub, name, secrets, hits, stats):
    """Everything that can be asked of an object handed out as public."""
    walk(pub, secrets, name + '.graph', hits, stats)
    for proto in (0, 2, pickle.HIGHEST_PROTOCOL):
        try:
            blob = pickle.dumps(pub, proto)
        except Exception as e:
            ctx.refusal('pickle.%s:%s' % (name, type(e).__name__))
            continue
        secrets.scan_bytes(blob, '%s.pickle%d' % (name, proto), hits)
        if proto == 2:
            try:
                walk(pickle.loads(blob), secrets, name + '.unpickled.graph', hits)
            except Exception as e:
                ctx.refusal('unpickle.%s:%s' % (name, type(e).__name__))
    try:
        walk(copy.deepcopy(pub), secrets, name + '.deepcopy.graph', hits)
        walk(copy.copy(pub), secrets, name + '.copy.graph', hits)
    except Exception as e:
        ctx.refusal('copy.%s:%s' % (name, type(e).__name__))
    views = []
    _text_views(pub, name, views, private_variants=True)
    _scan_views(ctx, views, secrets, hits)
    walk(pub, secrets, name + '.graph_after_views', hits, stats)


def check_key(ctx, case):
    keys, _ = _lib()
    secrets = Secrets()
    try:
        k, xk, state = _build_key(case, secrets)
    except _Refused as r:
        ctx.refusal(str(r))
        return
    hd = xk is not None
    history = list(case.get('history', []))
    if case.get('encrypt'):
        history.append('encrypt')
    for op in history:
        k = _apply_key_op(ctx, k, op, xk, state, secrets)
    hits = []
    stats = {}
    pubs = []
    # views of the private object itself
    views = []
    _text_views(k, 'private', views)
    _scan_views(ctx, views, secrets, hits)
    # public versions
    try:
        pub = k.public()
    except Exception as e:
        raise Discrepancy('public.raises', 'public() raised %r' % e, case)
    pubs.append(pub)
    _scan_public_object(ctx, pub, 'public', secrets, hits, stats)
    if hd:
        for nm, msflag in (('public_master', False), ('public_master_multisig', True)):
            if msflag:
                state['ms'] = True
            try:
                _add_path(secrets, xk, _pm_path(state['net'], state['wt'], state['ms']), 'subject')
            except ValueError:
                continue
            try:
                pm = k.public_master() if not msflag else k.public_master_multisig()
            except Exception as e:
                ctx.refusal('view.%s:%s' % (nm, type(e).__name__))
                continue
            pubs.append(pm)
            _scan_public_object(ctx, pm, nm, secrets, hits, stats)
        try:
            cp = pub.child_public(1)
            pubs.append(cp)
            _scan_public_object(ctx, cp, 'public.child_public', secrets, hits, stats)
        except Exception as e:
            ctx.refusal('view.child_public:%s' % type(e).__name__)
        # keys asked from the PRIVATE object with the BIP32 notation for public derivation ('M/...'): a public key
        # of that path or a refusal (hardened steps), never the private key of the path
        for ppath in ([0, 1], [0 | HARD], [44 | HARD, 0 | HARD, 0 | HARD]):
            try:
                _add_path(secrets, xk, ppath, 'subject')
            except ValueError:
                continue
            try:
                sk = k.subkey_for_path('M/' + _fmt_path(ppath))
            except Exception as e:
                ctx.klass('view.subkey_M_path.refused')
                continue
            ctx.klass('view.subkey_M_path.returned')
            pubs.append(sk)
            _scan_public_object(ctx, sk, 'subkey_for_path(M/%s)' % _fmt_path(ppath), secrets, hits, stats)
    for kname, v in stats.items():
        ctx.klass('walk.' + kname, v)

    cached = set()
    for p in pubs:
        w = getattr(p, '_wif', None)
        if isinstance(w, str):
            cached.add(w)

    def kf_of(h):
        # finding #11: the private WIF cached by wif()/wif_key()/info()/as_dict(include_private) in Key._wif
        # survives public() (deepcopy + strip); visible in the object, its copies and its pickles
        if h.kind != 'wif' or h.needle not in cached:
            return None
        if re.search(r'\.(graph|graph_after_views)\._wif$', h.where):
            return F_WIF
        if re.search(r'\.pickle\d$', h.where):
            return F_WIF
        return None
    _report(ctx, case, hits, kf_of)


def prop_key(ctx):
    def f(case):
        hist = case.get('history', [])
        ctx.klass('key.cls.%s' % case['cls'])
        ctx.klass('key.fmt.%s' % case['fmt'])
        ctx.klass('key.history_len.%d' % len(hist))
        for op in set(hist):
            ctx.klass('key.op.%s' % op)
        if case.get('subpath'):
            ctx.klass('key.derived_subject')
        if case.get('encrypt'):
            ctx.klass('key.op.encrypt')
        if CACHE_FILLING.intersection(hist) or case.get('encrypt'):
            ctx.nt(('key', case['cls'], case.get('seed'), case['secret'], case['fmt'], hist, case.get('subpath')))
            ctx.klass('key.nontrivial')
        if len(ctx.samples) < 3:
            ctx.sample(case)
        check_key(ctx, case)
    return f


# =================================================================================================
# transaction cases
# =================================================================================================

def tx_strategy(ctx):
    from hypothesis import strategies as st
    return st.fixed_dictionaries({
        'kind': st.just('tx'),
        'network': st.sampled_from([TESTNET, 'bitcoin', 'testnet', 'litecoin']),
        'witness_type': st.sampled_from(WITNESS_TYPES),
        'seeds': st.lists(st.binary(min_size=16, max_size=32).map(bytes.hex), min_size=3, max_size=3, unique=True),
        'multisig': st.booleans(),
        'n_in': st.integers(1, 3),
        'warm': st.lists(st.sampled_from(['wif_key', 'wif_private', 'info', 'as_dict_private']), max_size=2),
        'key_form': st.sampled_from(['hdkey', 'key', 'wif', 'bytes']),
    })


def check_tx(ctx, case):
    from ref import bip32
    keys, txm = _lib()
    net = case['network']
    wt = case['witness_type']
    secrets = Secrets()
    hk = []
    try:
        for s in case['seeds']:
            xk = bip32.master(bytes.fromhex(s))
            secrets.add_xkey(xk, 'signer')
            hk.append(keys.HDKey.from_seed(bytes.fromhex(s), network=net, witness_type=wt,
                                           multisig=case['multisig']))
    except ValueError:
        ctx.refusal('ref.master invalid')
        return
    except Exception as e:
        ctx.refusal('tx.HDKey:%s' % type(e).__name__)
        return
    for k in hk:
        for op in case.get('warm', []):
            try:
                if op == 'wif_key':
                    k.wif_key()
                elif op == 'wif_private':
                    k.wif_private()
                elif op == 'info':
                    _capture(k.info)
                else:
                    k.as_dict(include_private=True)
            except Exception as e:
                ctx.refusal('tx.warm.%s:%s' % (op, type(e).__name__))
    try:
        t = txm.Transaction(network=net, witness_type='legacy' if wt == 'legacy' else 'segwit')
        for i in range(case['n_in']):
            prev = hashlib.sha256(b'c16 prev %d' % i).hexdigest()
            if case['multisig']:
                ikeys = [hk[0], hk[1], hk[2].public()]
                t.add_input(prev, i, keys=ikeys, value=100000 + i, script_type='p2sh_multisig', sigs_required=2,
                            witness_type=wt)
            else:
                t.add_input(prev, i, keys=hk[0], value=100000 + i, witness_type=wt)
        t.add_output(50000, hk[1].address())
        signers = [hk[0], hk[1]] if case['multisig'] else [hk[0]]
        for k in signers:
            form = case['key_form']
            arg = k if form == 'hdkey' else keys.Key(k.secret, network=net) if form == 'key' else \
                k.wif_key() if form == 'wif' else k.private_byte
            t.sign(arg)
    except Exception as e:
        ctx.refusal('tx.build:%s' % type(e).__name__)
        return
    nsig = sum(len(i.signatures) for i in t.inputs)
    if nsig:
        ctx.klass('tx.signed')
        ctx.nt(('tx', case['seeds'], net, wt, case['multisig'], case['n_in'], case['warm'], case['key_form']))
    else:
        ctx.klass('tx.unsigned')
    views = []

    def add(name, fn):
        try:
            views.append((name, fn()))
        except Exception as e:
            views.append((name, _Raised(e)))
    add('tx.repr', lambda: repr(t))
    add('tx.str', lambda: str(t))
    add('tx.as_dict', lambda: t.as_dict())
    add('tx.as_json', lambda: t.as_json())
    add('tx.info', lambda: _capture(t.info))
    add('tx.raw_hex', lambda: t.raw_hex())
    for i in t.inputs:
        add('tx.input.repr', lambda i=i: repr(i))
        add('tx.input.str', lambda i=i: str(i))
        add('tx.input.as_dict', lambda i=i: i.as_dict())
        for s in i.signatures:
            add('tx.signature.repr', lambda s=s: repr(s))
            add('tx.signature.str', lambda s=s: str(s))
    for o in t.outputs:
        add('tx.output.repr', lambda o=o: repr(o))
        add('tx.output.as_dict', lambda o=o: o.as_dict())
    hits = []
    _scan_views(ctx, views, secrets, hits)
    _report(ctx, case, hits)


def prop_tx(ctx):
    def f(case):
        ctx.klass('tx.%s.%s' % (case['witness_type'], 'multisig' if case['multisig'] else 'single'))
        if len([s for s in ctx.samples if s.get('kind') == 'tx']) < 2:
            ctx.sample(case)
        check_tx(ctx, case)
    return f


# =================================================================================================
# wallet cases (in process) and the wallet driver shared with the database worker
# =================================================================================================

WALLET_OPS = ['get_key', 'new_key', 'new_key_change', 'new_account', 'utxos_update', 'send_own', 'send_foreign',
              'wif_private', 'as_dict_private', 'main_key_key', 'public_master_private', 'info', 'import_key',
              'key_objects', 'reopen', 'public_master']
WALLET_SECRET_OPS = {'wif_private', 'as_dict_private', 'main_key_key', 'public_master_private', 'import_key',
                     'key_objects', 'send_own', 'send_foreign', 'reopen'}


def wallet_spec_strategy(ctx, max_ops=6):
    from hypothesis import strategies as st
    from ref import ec
    return st.fixed_dictionaries({
        'wtype': st.sampled_from(['hd', 'hd', 'single', 'multisig']),
        'network': st.just(TESTNET),
        'witness_type': st.sampled_from(WITNESS_TYPES),
        'seeds': st.lists(st.binary(min_size=16, max_size=32).map(bytes.hex), min_size=3, max_size=3, unique=True),
        'private': st.sampled_from([[True, False, False], [True, True, False], [True, True, True]]),
        'import_secret': secret_strategy().map(lambda d: '%x' % d),
        'from_account': st.sampled_from([False, False, True]),
        'watch_import': st.sampled_from([None, None, 'address', 'xpub']),
        'single_cosigners': st.sampled_from([False, False, True]),
        'history': st.lists(st.sampled_from(WALLET_OPS + ['get_key', 'utxos_update', 'send_own']), min_size=2,
                            max_size=max_ops),
        'rng': st.integers(0, 0xffffffff),
    })


def _wallet_inputs(spec):
    """Key material handed to Wallet.create, serialised by the reference (not by the library)."""
    from ref import bip32, address
    net = spec['network']
    wt = spec['witness_type']
    masters = [bip32.master(bytes.fromhex(s)) for s in spec['seeds']]
    if spec['wtype'] == 'hd':
        if spec.get('from_account'):
            # a spending wallet made from the PRIVATE key of the account level (what public_master(as_private=True)
            # exports), not from the BIP32 root
            acc = bip32.derive(masters[0], _pm_path(net, wt, False))
            return masters, acc.xkey(_xver(net, True, wt, False), private=True)
        return masters, masters[0].xkey(_xver(net, True, wt, False), private=True)
    if spec['wtype'] == 'single':
        return masters, address.wif(masters[0].secret, net, True)
    keys = []
    if spec.get('single_cosigners'):
        # the wallet's own cosigner key(s) are single private keys without derivation data, the other cosigners give
        # their HD public master (one of the set-ups of examples/wallets_multisig.py)
        from bitcoinlib.keys import HDKey
        for m, priv in zip(masters, spec['private']):
            if priv:
                keys.append(HDKey(m.xkey(_xver(net, True, wt, True), private=True), key_type='single', network=net,
                                  witness_type=wt))
            else:
                acc = bip32.derive(m, _pm_path(net, wt, True))
                keys.append(acc.xkey(_xver(net, False, wt, True), private=False))
        return masters, keys
    for m, priv in zip(masters, spec['private']):
        if priv and spec.get('from_account'):
            acc = bip32.derive(m, _pm_path(net, wt, True))
            keys.append(acc.xkey(_xver(net, True, wt, True), private=True))
        elif priv:
            keys.append(m.xkey(_xver(net, True, wt, True), private=True))
        else:
            acc = bip32.derive(m, _pm_path(net, wt, True))
            keys.append(acc.xkey(_xver(net, False, wt, True), private=False))
    return masters, keys


def _seed_rng(v):
    import random
    random.seed(v)
    np = sys.modules.get('numpy')
    if np is not None:
        try:
            np.random.seed(v & 0xffffffff)
        except Exception:
            pass


def wallet_build(spec, name, db_uri, note):
    """Create the wallet of `spec` in `db_uri` and run its history. `note(name)` records refusals.
    Used in-process (wallet cases) and inside the database worker (db cases)."""
    from ref import address
    wl = _wallets()
    _seed_rng(spec.get('rng', 0))
    net = spec['network']
    wt = spec['witness_type']
    masters, keyarg = _wallet_inputs(spec)
    kw = dict(network=net, witness_type=wt, db_uri=db_uri)
    if spec['wtype'] == 'single':
        kw['scheme'] = 'single'
    if spec['wtype'] == 'multisig':
        kw['sigs_required'] = 2
        kw['sort_keys'] = False
        if sum(1 for p in spec['private'] if p) > 1:
            kw['cosigner_id'] = 0
    w = wl.Wallet.create(name, keys=keyarg, **kw)
    foreign = address.addr_p2pkh(hashlib.sha256(b'c16 foreign').digest()[:20], net)
    for op in spec.get('history', []):
        try:
            if op == 'get_key':
                w.get_key()
            elif op == 'new_key':
                w.new_key()
            elif op == 'new_key_change':
                w.new_key_change()
            elif op == 'new_account':
                w.new_account()
            elif op == 'utxos_update':
                w.utxos_update()
            elif op == 'send_own':
                if not w.utxos():
                    w.utxos_update()
                w.send_to(w.get_key().address, 20000, fee=1000)
            elif op == 'send_foreign':
                if not w.utxos():
                    w.utxos_update()
                w.send_to(foreign, 30000, fee=1000)
            elif op == 'wif_private':
                w.wif(is_private=True)
            elif op == 'as_dict_private':
                w.as_dict(include_private=True)
            elif op == 'main_key_key':
                if w.main_key:
                    w.main_key.key()
            elif op == 'public_master_private':
                w.public_master(as_private=True)
            elif op == 'public_master':
                w.public_master()
            elif op == 'info':
                _capture(lambda: w.info(detail=5))
            elif op == 'import_key':
                w.import_key(address.wif(int(spec['import_secret'], 16), net, True))
            elif op == 'key_objects':
                for dbk in w.keys()[:4]:
                    w.key(dbk.id).key()
            elif op == 'reopen':
                _close_wallet(w)
                w = wl.Wallet(name, db_uri=db_uri)
        except Exception as e:
            note('wallet.history.%s:%s' % (op, type(e).__name__))
    return w


def _close_wallet(w):
    try:
        for c in getattr(w, 'cosigner', []) or []:
            _close_wallet(c)
        w.session.close()
        if w._engine is not None:
            w._engine.dispose()
    except Exception:
        pass


def _db_rows(path):
    """Independent look at the file: every cell of every table through the sqlite3 module."""
    con = sqlite3.connect('file:%s?mode=ro' % path, uri=True)
    try:
        tabs = [r[0] for r in con.execute("SELECT name FROM sqlite_master WHERE type='table'")]
        out = {}
        for t in tabs:
            cur = con.execute('SELECT * FROM "%s"' % t)
            cols = [c[0] for c in cur.description]
            out[t] = (cols, cur.fetchall())
        return out
    finally:
        con.close()


def _wallet_secrets(spec, rows, secrets):
    """All private keys the wallet(s) of `spec` can hold: the private masters, every key on every 'm/..' path
    found in the keys table (derived with ref/bip32 from every private master) and the imported key."""
    from ref import bip32, ec
    masters = [bip32.master(bytes.fromhex(s)) for s in spec['seeds']]
    if spec['wtype'] == 'hd':
        priv = masters[:1]
    elif spec['wtype'] == 'single':
        priv = []
        d = masters[0].secret
        secrets.add_xkey(bip32.XKey(d, ec.pubkey(d), bytes(32)), 'single')
    else:
        priv = [m for m, p in zip(masters, spec['private']) if p]
    paths = set()
    cols, data = rows.get('keys', ([], []))
    if 'path' in cols:
        pi = cols.index('path')
        for r in data:
            p = _parse_path(r[pi])
            if p is not None:
                paths.add(tuple(p))
    if spec.get('from_account') and spec['wtype'] in ('hd', 'multisig'):
        # the wallet was made from the private ACCOUNT key: the keys table holds paths relative to it ('M', 'M/0/3')
        rel = set()
        if 'path' in cols:
            for r in data:
                s_ = r[pi] or ''
                if s_ == 'M' or s_.startswith('M/'):
                    p = _parse_path('m' + s_[1:])
                    if p is not None:
                        rel.add(tuple(p))
        for n, m in enumerate(priv):
            base = bip32.derive(m, _pm_path(spec['network'], spec['witness_type'], spec['wtype'] == 'multisig'))
            secrets.add_xkey(base, 'account%d' % n)
            cache = {(): base}
            for p in sorted(rel):
                for j in range(1, len(p) + 1):
                    pre = p[:j]
                    if pre in cache:
                        continue
                    try:
                        cache[pre] = bip32.ckd_priv(cache[pre[:-1]], pre[-1])
                    except (ValueError, KeyError):
                        break
                    secrets.add_xkey(cache[pre], 'account%d/%s' % (n, _fmt_path(pre)))
    for n, m in enumerate(priv):
        cache = {(): m}
        secrets.add_xkey(m, 'master%d' % n)
        for p in sorted(paths):
            for j in range(1, len(p) + 1):
                pre = p[:j]
                if pre in cache:
                    continue
                try:
                    cache[pre] = bip32.ckd_priv(cache[pre[:-1]], pre[-1])
                except (ValueError, KeyError):
                    break
                secrets.add_xkey(cache[pre], 'master%d/%s' % (n, _fmt_path(pre)))
    if 'import_key' in spec.get('history', []):
        d = int(spec['import_secret'], 16)
        secrets.add_xkey(bip32.XKey(d, ec.pubkey(d), bytes(32)), 'imported')
    return len(secrets.ints)


def _work_dir():
    from vlib import env
    d = env.data_dir()
    if not d:
        d = os.path.join(env.VERIF_DIR, '.work', 'c16-%d' % os.getpid())
    os.makedirs(d, exist_ok=True)
    return d


def _case_tag(case):
    return hashlib.blake2b(json.dumps(case, sort_keys=True).encode(), digest_size=6).hexdigest()


def check_wallet(ctx, case):
    from props import wallet_util as _wu
    with _wu.deterministic_gc():
        return _check_wallet_inner(ctx, case)


def _check_wallet_inner(ctx, case):
    wl = _wallets()
    spec = case['spec']
    tag = _case_tag(case)
    d = os.path.join(_work_dir(), 'c16w-' + tag)
    shutil.rmtree(d, ignore_errors=True)
    os.makedirs(d)
    db = os.path.join(d, 'wallet.sqlite')
    db2 = os.path.join(d, 'watch.sqlite')
    w = w2 = None
    arts = []          # (view name, value)
    pubobjs = []       # (name, object) handed out as public
    wk_private_wifs = set()
    db_private_wifs = set()

    def add(name, fn):
        try:
            v = fn()
            arts.append((name, v))
            return v
        except Exception as e:
            arts.append((name, _Raised(e)))
            return None
    try:
        try:
            w = wallet_build(spec, 'c16', db, ctx.refusal)
        except ValueError:
            ctx.refusal('ref.master invalid')
            return
        except Exception as e:
            ctx.refusal('wallet.create.%s:%s' % (spec['wtype'], type(e).__name__))
            return
        add('wallet.repr', lambda: repr(w))
        add('wallet.str', lambda: str(w))
        add('wallet.as_dict', lambda: w.as_dict())
        add('wallet.as_json', lambda: w.as_json())
        for det in (0, 1, 3, 5):
            add('wallet.info%d' % det, lambda det=det: _capture(lambda: w.info(detail=det)))
        add('wallet.wif_default', lambda: w.wif())
        add('wallet.wif_is_private_false', lambda: w.wif(is_private=False))
        add('wallet.keys_as_dict', lambda: w.keys(as_dict=True))
        add('wallet.keys_addresses_as_dict', lambda: w.keys_addresses(as_dict=True))
        add('wallet.keys_networks_as_dict', lambda: w.keys_networks(as_dict=True))
        add('wallet.addresslist', lambda: w.addresslist())
        add('wallet.utxos', lambda: w.utxos())
        add('wallet.accounts', lambda: w.accounts())
        add('wallet.transactions_as_dict', lambda: w.transactions(as_dict=True, include_new=True))
        add('wallet.transactions_export', lambda: w.transactions_export())
        txs = add('wallet.transactions', lambda: list(w.transactions(include_new=True))) or []
        arts.pop()          # WalletTransaction objects reference the wallet; only their views are scanned
        add('wallet.transactions.repr', lambda: repr(txs))
        for t in txs[:4]:
            add('wallettx.repr', lambda t=t: repr(t))
            add('wallettx.str', lambda t=t: str(t))
            add('wallettx.as_dict', lambda t=t: t.as_dict())
            add('wallettx.as_json', lambda t=t: t.as_json())
            add('wallettx.info', lambda t=t: _capture(t.info))
            add('wallettx.export', lambda t=t: t.export(skip_change=False))
        # wallet keys: default dictionary of every key, repr of private ones (finding), DbKey repr (finding)
        dbkeys = add('wallet.keys', lambda: list(w.keys())) or []
        arts.pop()          # the DbKey objects themselves are database rows, only their repr is a view
        for dbk in dbkeys[:12]:
            add('dbkey.repr', lambda dbk=dbk: repr(dbk))
            if dbk.is_private and isinstance(dbk.wif, str):
                db_private_wifs.add(dbk.wif)
            try:
                wk = w.key(dbk.id)
            except Exception as e:
                ctx.refusal('wallet.key:%s' % type(e).__name__)
                continue
            if wk.is_private and isinstance(wk.wif, str):
                wk_private_wifs.add(wk.wif)
            add('walletkey.as_dict', lambda wk=wk: wk.as_dict())
            add('walletkey.repr', lambda wk=wk: repr(wk))
        # public master(s) - last, because WalletKey.public() strips the object in place
        pm = add('wallet.public_master', lambda: w.public_master())
        arts.pop()
        pms = pm if isinstance(pm, list) else [pm] if pm is not None else []
        # ... and asked with the arguments spelled out (own witness type, account, as_private=False): public all the same
        for nm_, kw_ in (('wallet.public_master.witness_type', {'witness_type': spec['witness_type']}),
                         ('wallet.public_master.all_args', {'account_id': 0, 'witness_type': spec['witness_type'],
                                                            'as_private': False})):
            pmx = add(nm_, lambda kw_=kw_: w.public_master(**kw_))
            arts.pop()
            pms += pmx if isinstance(pmx, list) else [pmx] if pmx is not None else []
        for p in pms:
            pubobjs.append(('wallet.public_master', p))
            add('wallet.public_master.repr', lambda p=p: repr(p))
            add('wallet.public_master.as_dict', lambda p=p: p.as_dict())
            hk = add('wallet.public_master.key', lambda p=p: p.key())
            arts.pop()
            if hk is not None and not isinstance(hk, list):
                pubobjs.append(('wallet.public_master.key', hk))
        add('wallet.as_json_after_public_master', lambda: w.as_json())
        # watch-only wallet from the public export
        export = None
        if spec['wtype'] == 'hd':
            try:
                export = w.wif(is_private=False)
            except Exception:
                export = None
        if isinstance(export, str):
            try:
                w2 = wl.Wallet.create('c16watch', keys=export, network=spec['network'],
                                      witness_type=spec['witness_type'], db_uri=db2)
                w2.get_key()
                w2.utxos_update()
                add('watch.as_dict_private', lambda: w2.as_dict(include_private=True))
                add('watch.as_json_private', lambda: w2.as_json(include_private=True))
                add('watch.wif_private', lambda: w2.wif(is_private=True))
                add('watch.info', lambda: _capture(lambda: w2.info(detail=5)))
                add('watch.keys_repr', lambda: repr(w2.keys()))
                add('watch.main_key', lambda: repr(w2.main_key))
                ctx.klass('wallet.watch_only_created')
            except Exception as e:
                ctx.refusal('watch.create:%s' % type(e).__name__)
                w2 = None
        # watch-only wallets (made from an address / from an account xpub) into which an unrelated private key is
        # imported afterwards: the wallet as a whole stays without a private main key, the imported row is private
        extra = []
        wi = spec.get('watch_import')
        if wi:
            from ref import address as raddr, bip32 as rbip32, ec as rec
            net, wt = spec['network'], spec['witness_type']
            w3 = None
            try:
                seed3 = hashlib.sha256(b'c16 watch import' + bytes.fromhex(spec['seeds'][0])).digest()
                m3 = rbip32.master(seed3)
                d_imp = int(spec['import_secret'], 16)
                if wi == 'address':
                    kind = {'legacy': 'p2pkh', 'p2sh-segwit': 'p2sh_p2wpkh', 'segwit': 'p2wpkh'}.get(wt, 'p2pkh')
                    watch_addr = raddr.key_address(rec.ser_compressed(rec.pubkey(m3.secret)), net, kind)
                    w3 = wl.Wallet.create('c16watch3', keys=watch_addr, network=net, db_uri='sqlite:///' +
                                          os.path.join(d, 'w3.sqlite'))
                    imp = raddr.wif(d_imp, net, True)
                    extra.append(rbip32.XKey(d_imp, rec.pubkey(d_imp), bytes(32)))
                else:
                    acc = rbip32.derive(m3, _pm_path(net, wt, False))
                    w3 = wl.Wallet.create('c16watch3', keys=acc.xkey(_xver(net, False, wt, False), private=False),
                                          network=net, witness_type=wt, db_uri='sqlite:///' + os.path.join(d, 'w3.sqlite'))
                    child = rbip32.ckd_priv(rbip32.master(hashlib.sha256(seed3).digest()), d_imp % 1000)
                    imp = child.xkey(_xver(net, True, wt, False), private=True)
                    extra.append(child)
                w3.import_key(imp)
                if not [k for k in w3.keys() if k.is_private]:
                    ctx.refusal('watch_import.%s:not stored as private' % wi)
                else:
                    ctx.klass('wallet.watch_import.' + wi)
                    add('watch_import.as_dict', lambda: w3.as_dict())
                    add('watch_import.as_json', lambda: w3.as_json())
                    add('watch_import.keys_as_dict', lambda: w3.keys(as_dict=True))
                    add('watch_import.keys_addresses_as_dict', lambda: w3.keys_addresses(as_dict=True))
                    add('watch_import.repr', lambda: repr(w3))
                    add('watch_import.info', lambda: _capture(lambda: w3.info(detail=1)))
                    add('watch_import.wif_default', lambda: w3.wif())
                    _close_wallet(w3)
                    w3 = wl.Wallet('c16watch3', db_uri='sqlite:///' + os.path.join(d, 'w3.sqlite'))
                    add('watch_import.reopened.as_json', lambda: w3.as_json())
            except Exception as e:
                ctx.refusal('watch_import.%s:%s' % (wi, type(e).__name__))
            finally:
                if w3 is not None:
                    _close_wallet(w3)
        # a freshly reopened Wallet object hands out its public master before anything else has touched its keys
        # (WalletKey objects loaded from the database carry no key object yet)
        try:
            _close_wallet(w)
            w = wl.Wallet('c16', db_uri=db)
            pm2 = w.public_master()
            for p in (pm2 if isinstance(pm2, list) else [pm2] if pm2 is not None else []):
                pubobjs.append(('reopened.public_master', p))
            ctx.klass('wallet.reopened_public_master')
        except Exception as e:
            ctx.refusal('reopened.public_master:%s' % type(e).__name__)
        # ---- oracle ----
        secrets = Secrets()
        try:
            rows = _db_rows(db)
        except Exception as e:
            raise HarnessError('cannot read wallet database independently: %r' % e)
        nsec = _wallet_secrets(spec, rows, secrets)
        for n3, xk3 in enumerate(extra):
            secrets.add_xkey(xk3, 'watch_import%d' % n3)
        ctx.klass('wallet.secrets.%s' % ('1' if nsec == 1 else '2-9' if nsec < 10 else '10-19' if nsec < 20 else '20+'))
        hits = []
        _scan_views(ctx, arts, secrets, hits)
        stats = {}
        for name, obj in pubobjs:
            walk(obj, secrets, name + '.graph', hits, stats)
            if not name.endswith('.key'):
                continue
            try:
                secrets.scan_bytes(pickle.dumps(obj, 2), name + '.pickle2', hits)
                walk(copy.deepcopy(obj), secrets, name + '.deepcopy.graph', hits)
            except Exception as e:
                ctx.refusal('wallet.pickle:%s' % type(e).__name__)
            v = []
            _text_views(obj, name, v, private_variants=True)
            _scan_views(ctx, v, secrets, hits)
        for kname, v in stats.items():
            ctx.klass('walk.' + kname, v)
        if w2 is not None:
            _close_wallet(w2)
            w2 = None
            for fn in sorted(os.listdir(d)):
                if fn.startswith('watch.sqlite'):
                    with open(os.path.join(d, fn), 'rb') as f:
                        secrets.scan_bytes(f.read(), 'watch_only_database_file', hits)

        def kf_of(h):
            # repr of a PRIVATE WalletKey / DbKey prints its stored (private) WIF
            if h.kind in ('xprv', 'wif', 'b58payload') and h.where == 'walletkey.repr' and h.needle in wk_private_wifs:
                return F_WKREPR
            if h.kind in ('xprv', 'wif', 'b58payload') and h.where == 'dbkey.repr' and h.needle in db_private_wifs:
                return F_DBKREPR
            return None
        _report(ctx, case, hits, kf_of)
    finally:
        if w is not None:
            _close_wallet(w)
        if w2 is not None:
            _close_wallet(w2)
        del arts[:]
        del pubobjs[:]
        shutil.rmtree(d, ignore_errors=True)


def prop_wallet(ctx):
    def f(case):
        spec = case['spec']
        hist = spec.get('history', [])
        ctx.klass('wallet.type.%s.%s' % (spec['wtype'], spec['witness_type']))
        for op in set(hist):
            ctx.klass('wallet.op.%s' % op)
        if WALLET_SECRET_OPS.intersection(hist):
            ctx.nt(('wallet', spec['wtype'], spec['witness_type'], spec['seeds'], spec['private'], hist))
            ctx.klass('wallet.nontrivial')
        if len([s for s in ctx.samples if s.get('kind') == 'wallet']) < 2:
            ctx.sample(case)
        check_wallet(ctx, case)
    return f


# =================================================================================================
# database part: field encryption (subprocess)
# =================================================================================================

def db_strategy(ctx):
    from hypothesis import strategies as st
    return st.fixed_dictionaries({
        'kind': st.just('db'),
        # quick tier: one case per shard, the mode alternates over the shards (deterministic enumeration)
        # (a key of 32, 48 or 64 bytes is what the cipher behind the encrypted columns takes; a key of another length is
        # a configuration with which the library may refuse to work, but must not store readable keys)
        'mode': st.just(DB_MODES[ctx.shard % len(DB_MODES)]) if ctx.tier == 'quick' else st.sampled_from(DB_MODES),
        'specs': st.lists(wallet_spec_strategy(ctx, max_ops=5), min_size=2, max_size=3),
    })


WORKER = ("import sys, os\n"
          "sys.path.insert(0, os.environ.get('VERIF_REPO', '/repo'))\n"
          "import props.c16_noleak as m\n"
          "m.db_worker_main()\n")


def db_worker_main():
    """Runs in the subprocess: environment (encryption variables, BCL_DATA_DIR) is already set by the parent."""
    case = json.loads(sys.stdin.read())
    refusals = {}

    def note(n):
        refusals[n] = refusals.get(n, 0) + 1
    out = {'ok': True, 'refusals': refusals, 'created': 0}
    import bitcoinlib.db as bdb
    out['enc_key_seen'] = bool(bdb.EncryptedBinary.key)
    out['repo'] = os.path.dirname(os.path.dirname(os.path.abspath(bdb.__file__)))
    for n, spec in enumerate(case['specs']):
        try:
            w = wallet_build(spec, 'c16db%d' % n, None, note)
            out['created'] += 1
            _close_wallet(w)
        except ValueError:
            note('ref.master invalid')
        except Exception as e:
            note('db.wallet.create.%s:%s' % (spec['wtype'], type(e).__name__))
    sys.stdout.write('\nC16-WORKER-RESULT ' + json.dumps(out) + '\n')


def _run_db_worker(case, mode, workdir):
    from vlib import env
    shutil.rmtree(workdir, ignore_errors=True)
    os.makedirs(workdir)
    e = {k: v for k, v in os.environ.items()
         if k not in ('DB_FIELD_ENCRYPTION_KEY', 'DB_FIELD_ENCRYPTION_PASSWORD', 'BCL_CONFIG_FILE')}
    e['BCL_DATA_DIR'] = workdir
    e['BCL_DATABASE_DIR'] = os.path.join(workdir, 'database')
    e['PYTHONPATH'] = env.VERIF_DIR + (os.pathsep + env.DEPS_DIR if os.path.isdir(env.DEPS_DIR) else '')
    e['VERIF_REPO'] = env.REPO_DIR
    e['PYTHONHASHSEED'] = '0'
    if mode in DB_MODE_KEYS:
        e['DB_FIELD_ENCRYPTION_KEY'] = DB_MODE_KEYS[mode]
    elif mode == 'password':
        e['DB_FIELD_ENCRYPTION_PASSWORD'] = ENC_PASSWORD
    p = subprocess.run([sys.executable, '-c', WORKER], input=json.dumps(case).encode(), env=e, cwd=env.VERIF_DIR,
                       stdout=subprocess.PIPE, stderr=subprocess.PIPE, timeout=900)
    res = None
    for line in p.stdout.decode('utf-8', 'replace').splitlines():
        if line.startswith('C16-WORKER-RESULT '):
            res = json.loads(line[len('C16-WORKER-RESULT '):])
    if p.returncode != 0 or res is None:
        raise HarnessError('database worker failed (rc=%s): %s' % (p.returncode, p.stderr.decode('utf-8', 'replace')[-1500:]))
    if os.path.realpath(res['repo']) != os.path.realpath(env.REPO_DIR):
        raise HarnessError('database worker imported bitcoinlib from %s, expected %s' % (res['repo'], env.REPO_DIR))
    return res


def _scan_data_dir(workdir, specs, secrets_out=None):
    """-> (hits, info). Oracle of the database part; touches no bitcoinlib code."""
    dbfile = os.path.join(workdir, 'database', 'bitcoinlib.sqlite')
    if not os.path.isfile(dbfile):
        raise HarnessError('database worker left no database file')
    rows = _db_rows(dbfile)
    secrets = Secrets()
    for spec in specs:
        try:
            _wallet_secrets(spec, rows, secrets)
        except ValueError:
            pass
    info = {'secrets': len(secrets.ints), 'private_rows': 0, 'encrypted_rows': 0, 'plain_rows': 0, 'files': 0}
    cols, data = rows.get('keys', ([], []))
    if 'private' in cols:
        pi = cols.index('private')
        raws = set(n for n, (k, _) in secrets.raw.items() if k == 'raw')
        for r in data:
            v = r[pi]
            if v:
                info['private_rows'] += 1
                b = bytes(v) if not isinstance(v, str) else v.encode('latin-1', 'replace')
                if b.lstrip(b'\x00') in raws:
                    info['plain_rows'] += 1
                elif len(b) >= 48:
                    info['encrypted_rows'] += 1
    hits = []
    for base, _dirs, files in os.walk(workdir):
        for fn in sorted(files):
            path = os.path.join(base, fn)
            rel = os.path.relpath(path, workdir)
            if fn in ('networks.json', 'providers.json', 'providers.examples.json'):
                continue
            with open(path, 'rb') as f:
                blob = f.read()
            info['files'] += 1
            secrets.scan_bytes(blob, 'file:%s' % rel, hits)
    for t, (tcols, tdata) in rows.items():
        for r in tdata:
            for c, v in zip(tcols, r):
                if isinstance(v, (str, bytes, int)) and not isinstance(v, bool):
                    walk(v, secrets, 'cell:%s.%s' % (t, c), hits)
    return hits, info


def check_db(ctx, case, control=False):
    tag = _case_tag(case)
    workdir = os.path.join(_work_dir(), 'c16db-%s%s' % (tag, '-control' if control else ''))
    try:
        res = _run_db_worker(case, None if control else case['mode'], workdir)
        for k, v in res['refusals'].items():
            ctx.refusal(('control.' if control else 'db.') + k, v)
        if res['created'] == 0:
            ctx.refusal(('control.' if control else 'db.') + 'no wallet created')
        # the files are scanned whatever happened in the worker: a failed creation may have written rows already
        hits, info = _scan_data_dir(workdir, case['specs'])
        if control:
            return hits, info
        if not res['enc_key_seen'] and not hits:
            raise HarnessError('encryption variable did not reach the library (EncryptedBinary.key is None)')
        ctx.klass('db.mode.%s' % case['mode'])
        ctx.klass('db.private_rows', info['private_rows'])
        ctx.klass('db.encrypted_rows', info['encrypted_rows'])
        ctx.klass('db.files_scanned', info['files'])
        if info['private_rows'] >= 5:
            ctx.nt(('db', case['mode'], [(s['wtype'], s['witness_type'], s['seeds'], s['history']) for s in case['specs']]))
            ctx.klass('db.nontrivial')
        _report(ctx, case, hits)
        return hits, info
    finally:
        shutil.rmtree(workdir, ignore_errors=True)


def prop_db(ctx):
    def f(case):
        for s in case['specs']:
            ctx.klass('db.wallet.%s' % s['wtype'])
        if len([s for s in ctx.samples if s.get('kind') == 'db']) < 1:
            ctx.sample(case)
        check_db(ctx, case)
    return f


def _fixed_secret(tag):
    from ref import ec
    return '%x' % (int.from_bytes(hashlib.sha256(b'c16 fixed ' + tag).digest(), 'big') % (ec.N - 1) + 1)


CONTROL_CASE = {
    'kind': 'db', 'mode': 'key',
    'specs': [
        {'wtype': 'hd', 'network': TESTNET, 'witness_type': 'segwit',
         'seeds': ['aa' * 16, 'bb' * 16, 'cc' * 16], 'private': [True, False, False], 'import_secret': _fixed_secret(b'control 1'),
         'history': ['get_key', 'utxos_update', 'send_own', 'import_key'], 'rng': 1},
        {'wtype': 'multisig', 'network': TESTNET, 'witness_type': 'legacy',
         'seeds': ['dd' * 16, 'ee' * 16, 'ab' * 16], 'private': [True, True, False], 'import_secret': _fixed_secret(b'control 2'),
         'history': ['get_key', 'utxos_update', 'send_own'], 'rng': 2},
        {'wtype': 'single', 'network': TESTNET, 'witness_type': 'legacy',
         'seeds': ['cd' * 16, 'ef' * 16, 'ac' * 16], 'private': [True, False, False], 'import_secret': _fixed_secret(b'control 3'),
         'history': ['get_key'], 'rng': 3},
    ]}


def db_control(ctx):
    """Positive control: without the encryption variable the same scanner must find the keys in the file."""
    r = check_db(ctx, CONTROL_CASE, control=True)
    if r is None:
        raise HarnessError('database control run created no wallet')
    hits, info = r
    kinds = set(h.kind for h in hits if h.where.startswith('file:database'))
    cellkinds = set(h.kind for h in hits if h.where.startswith('cell:keys.'))
    if info['plain_rows'] < 5 or 'raw' not in kinds or 'xprv' not in kinds or 'raw' not in cellkinds:
        raise HarnessError('scanner is blind: unencrypted control database not recognised as leaking '
                           '(plain_rows=%d file kinds=%s cell kinds=%s)' % (info['plain_rows'], sorted(kinds),
                                                                            sorted(cellkinds)))
    ctx.klass('db.control_plaintext_found')
    ctx.note('db_control', {'plain_rows': info['plain_rows'], 'hit_kinds': sorted(kinds)})


# =================================================================================================
# entry points
# =================================================================================================

def replay(ctx, case):
    if 'probe' in case and 'kind' not in case:
        # replay file written for a reproducing finding probe: re-run its minimal case with only that finding closed
        fid = case['probe']
        saved = ctx.findings
        ctx.findings = dict((f, {}) for f in ALL_FINDINGS if f != fid)
        try:
            for pfid, pcase, _what in _probe_list():
                if pfid == fid:
                    replay(ctx, pcase)
        finally:
            ctx.findings = saved
        return
    kind = case['kind']
    if kind == 'key':
        check_key(ctx, case)
    elif kind == 'tx':
        check_tx(ctx, case)
    elif kind == 'wallet':
        check_wallet(ctx, case)
    elif kind == 'db':
        check_db(ctx, case)
    else:
        raise HarnessError('unknown case kind %r' % kind)


PROBE_WALLET = {'kind': 'wallet', 'spec': {
    'wtype': 'hd', 'network': TESTNET, 'witness_type': 'segwit', 'seeds': ['01' * 16, '02' * 16, '03' * 16],
    'private': [True, False, False], 'import_secret': _fixed_secret(b'probe wallet'), 'history': ['get_key'],
    'rng': 0}}


def _probe_list():
    return [
        (F_WIF, {'kind': 'key', 'cls': 'Key', 'secret': _fixed_secret(b'probe key'), 'fmt': 'int', 'network': 'bitcoin',
                 'compressed': True, 'history': ['wif']},
         'k = Key(secret); k.wif(); k.public() keeps the private WIF in _wif (also in pickle.dumps / deepcopy of '
         'the public object); same for HDKey after wif_key()/info()/as_dict(include_private=True)'),
        (F_WKREPR, PROBE_WALLET,
         'repr() of a private WalletKey (wallet.main_key, wallet.get_key(), wallet.key(id)) prints the extended '
         'private key / private WIF stored in its wif attribute'),
        (F_DBKREPR, PROBE_WALLET,
         'repr() of the DbKey rows returned by Wallet.keys() prints the extended private key / private WIF'),
    ]


def probes(ctx):
    saved = ctx.findings
    plist = _probe_list()
    try:
        for fid, case, what in plist:
            # run with every finding of this module treated as open and see whether the predicate of `fid` fires
            ctx.findings = dict((f, {}) for f in ALL_FINDINGS)
            before = dict(ctx.known_hits)
            try:
                replay(ctx, case)
            except Discrepancy:
                pass
            ctx.probe(fid, ctx.known_hits.get(fid, 0) > before.get(fid, 0), what)
            ctx.known_hits = before
    finally:
        ctx.findings = saved


def run(ctx):
    scanner_selftest()
    from hypothesis import strategies as st
    ctx.run_given('key', key_strategy(ctx), prop_key(ctx), ctx.scale(100, 1800))
    ctx.run_given('tx', tx_strategy(ctx), prop_tx(ctx), ctx.scale(20, 300))
    wcase = st.fixed_dictionaries({'kind': st.just('wallet'), 'spec': wallet_spec_strategy(ctx)})
    ctx.run_given('wallet', wcase, prop_wallet(ctx), ctx.scale(3, 30), shrink=False)
    if ctx.shard == 0:
        db_control(ctx)
    if ctx.tier == 'quick':
        ndb = 1
    else:
        ndb = 6
    ctx.run_given('db', db_strategy(ctx), prop_db(ctx), ndb, shrink=False)
