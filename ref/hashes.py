"""Hash primitives of the reference models (hashlib/hmac only; nothing from bitcoinlib)."""
import hashlib
import hmac


def sha256(b):
    return hashlib.sha256(b).digest()


def dsha256(b):
    return hashlib.sha256(hashlib.sha256(b).digest()).digest()


def _ripemd160_py(msg):
    # Pure-Python RIPEMD-160 (fallback when OpenSSL has it disabled)
    def rol(x, n):
        return ((x << n) | (x >> (32 - n))) & 0xffffffff
    r1 = [0, 1, 2, 3, 4, 5, 6, 7, 8, 9, 10, 11, 12, 13, 14, 15, 7, 4, 13, 1, 10, 6, 15, 3, 12, 0, 9, 5, 2, 14, 11, 8,
          3, 10, 14, 4, 9, 15, 8, 1, 2, 7, 0, 6, 13, 11, 5, 12, 1, 9, 11, 10, 0, 8, 12, 4, 13, 3, 7, 15, 14, 5, 6, 2,
          4, 0, 5, 9, 7, 12, 2, 10, 14, 1, 3, 8, 11, 6, 15, 13]
    r2 = [5, 14, 7, 0, 9, 2, 11, 4, 13, 6, 15, 8, 1, 10, 3, 12, 6, 11, 3, 7, 0, 13, 5, 10, 14, 15, 8, 12, 4, 9, 1, 2,
          15, 5, 1, 3, 7, 14, 6, 9, 11, 8, 12, 2, 10, 0, 4, 13, 8, 6, 4, 1, 3, 11, 15, 0, 5, 12, 2, 13, 9, 7, 10, 14,
          12, 15, 10, 4, 1, 5, 8, 7, 6, 2, 13, 14, 0, 3, 9, 11]
    s1 = [11, 14, 15, 12, 5, 8, 7, 9, 11, 13, 14, 15, 6, 7, 9, 8, 7, 6, 8, 13, 11, 9, 7, 15, 7, 12, 15, 9, 11, 7, 13, 12,
          11, 13, 6, 7, 14, 9, 13, 15, 14, 8, 13, 6, 5, 12, 7, 5, 11, 12, 14, 15, 14, 15, 9, 8, 9, 14, 5, 6, 8, 6, 5, 12,
          9, 15, 5, 11, 6, 8, 13, 12, 5, 12, 13, 14, 11, 8, 5, 6]
    s2 = [8, 9, 9, 11, 13, 15, 15, 5, 7, 7, 8, 11, 14, 14, 12, 6, 9, 13, 15, 7, 12, 8, 9, 11, 7, 7, 12, 7, 6, 15, 13, 11,
          9, 7, 15, 11, 8, 6, 6, 14, 12, 13, 5, 14, 13, 13, 7, 5, 15, 5, 8, 11, 14, 14, 6, 14, 6, 9, 12, 9, 12, 5, 15, 8,
          8, 5, 12, 9, 12, 5, 14, 6, 8, 13, 6, 5, 15, 13, 11, 11]
    k1 = [0x00000000, 0x5A827999, 0x6ED9EBA1, 0x8F1BBCDC, 0xA953FD4E]
    k2 = [0x50A28BE6, 0x5C4DD124, 0x6D703EF3, 0x7A6D76E9, 0x00000000]

    def f(j, x, y, z):
        if j < 16:
            return x ^ y ^ z
        if j < 32:
            return (x & y) | (~x & 0xffffffff & z)
        if j < 48:
            return (x | (~y & 0xffffffff)) ^ z
        if j < 64:
            return (x & z) | (y & (~z & 0xffffffff))
        return x ^ (y | (~z & 0xffffffff))

    h = [0x67452301, 0xEFCDAB89, 0x98BADCFE, 0x10325476, 0xC3D2E1F0]
    ml = len(msg)
    msg = msg + b'\x80' + b'\x00' * ((55 - ml) % 64) + (ml * 8).to_bytes(8, 'little')
    for off in range(0, len(msg), 64):
        x = [int.from_bytes(msg[off + 4 * i: off + 4 * i + 4], 'little') for i in range(16)]
        a1, b1, c1, d1, e1 = h
        a2, b2, c2, d2, e2 = h
        for j in range(80):
            t = (rol((a1 + f(j, b1, c1, d1) + x[r1[j]] + k1[j // 16]) & 0xffffffff, s1[j]) + e1) & 0xffffffff
            a1, e1, d1, c1, b1 = e1, d1, rol(c1, 10), b1, t
            t = (rol((a2 + f(79 - j, b2, c2, d2) + x[r2[j]] + k2[j // 16]) & 0xffffffff, s2[j]) + e2) & 0xffffffff
            a2, e2, d2, c2, b2 = e2, d2, rol(c2, 10), b2, t
        t = (h[1] + c1 + d2) & 0xffffffff
        h[1] = (h[2] + d1 + e2) & 0xffffffff
        h[2] = (h[3] + e1 + a2) & 0xffffffff
        h[3] = (h[4] + a1 + b2) & 0xffffffff
        h[4] = (h[0] + b1 + c2) & 0xffffffff
        h[0] = t
    return b''.join(v.to_bytes(4, 'little') for v in h)


try:
    hashlib.new('ripemd160', b'')
    _HAVE_RMD = True
except Exception:  # pragma: no cover
    _HAVE_RMD = False


def ripemd160(b):
    if _HAVE_RMD:
        return hashlib.new('ripemd160', b).digest()
    return _ripemd160_py(b)


def hash160(b):
    return ripemd160(sha256(b))


def sha1(b):
    return hashlib.sha1(b).digest()


def hmac_sha512(key, msg):
    return hmac.new(key, msg, hashlib.sha512).digest()


def hmac_sha256(key, msg):
    return hmac.new(key, msg, hashlib.sha256).digest()


def pbkdf2_sha512(password, salt, iterations, dklen=64):
    return hashlib.pbkdf2_hmac('sha512', password, salt, iterations, dklen)


def scrypt(password, salt, n, r, p, dklen):
    return hashlib.scrypt(password, salt=salt, n=n, r=r, p=p, dklen=dklen, maxmem=256 * 1024 * 1024)


def tagged_hash(tag, msg):
    t = sha256(tag.encode())
    return sha256(t + t + msg)
