"""Reference BIP39 over pinned copies of the nine bundled word lists (ref/wordlists)."""
import os
import unicodedata

from .hashes import pbkdf2_sha512, sha256

LANGS = ['chinese_simplified', 'chinese_traditional', 'dutch', 'english', 'french', 'italian', 'japanese',
         'portuguese', 'spanish']
_cache = {}
_DIR = os.path.join(os.path.dirname(os.path.abspath(__file__)), 'wordlists')


def wordlist(lang):
    """Pinned copy of the bundled list (taken from the baseline commit), read independently."""
    if lang not in _cache:
        with open(os.path.join(_DIR, lang + '.txt'), 'rb') as f:
            data = f.read()
        _cache[lang] = [w.strip() for w in data.decode('utf8').split('\n') if w.strip()]
        assert len(_cache[lang]) == 2048 and len(set(_cache[lang])) == 2048
    return _cache[lang]


def entropy_to_words(entropy, lang):
    if len(entropy) not in (16, 20, 24, 28, 32):
        raise ValueError('entropy length')
    wl = wordlist(lang)
    ent = len(entropy) * 8
    cs = ent // 32
    bits = int.from_bytes(entropy, 'big') << cs | (sha256(entropy)[0] >> (8 - cs))
    n = (ent + cs) // 11
    idx = [(bits >> (11 * (n - 1 - i))) & 0x7ff for i in range(n)]
    return [wl[i] for i in idx]


def sentence(words, lang):
    return ('　' if lang == 'japanese' else ' ').join(words)


def words_to_entropy(words, lang):
    """Returns entropy bytes; raises ValueError for unknown words, bad length or bad checksum."""
    wl = wordlist(lang)
    index = {w: i for i, w in enumerate(wl)}
    if len(words) not in (12, 15, 18, 21, 24):
        raise ValueError('word count')
    bits = 0
    for w in words:
        if w not in index:
            raise ValueError('unknown word')
        bits = (bits << 11) | index[w]
    total = len(words) * 11
    cs = total // 33
    ent = total - cs
    entropy = (bits >> cs).to_bytes(ent // 8, 'big')
    if (sha256(entropy)[0] >> (8 - cs)) != (bits & ((1 << cs) - 1)):
        raise ValueError('checksum')
    return entropy


def seed(sentence_text, passphrase=''):
    m = unicodedata.normalize('NFKD', sentence_text)
    p = unicodedata.normalize('NFKD', passphrase)
    return pbkdf2_sha512(m.encode('utf8'), b'mnemonic' + p.encode('utf8'), 2048, 64)
