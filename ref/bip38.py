"""Reference BIP38 (both modes), written from the BIP text. AES-256-ECB comes from pycryptodome
(shared primitive, named in the trusted base)."""
import unicodedata

from Crypto.Cipher import AES

from . import ec
from .base58 import check_encode, check_decode
from .hashes import dsha256, scrypt, hash160


def _norm(pw):
    if isinstance(pw, bytes):
        return pw
    return unicodedata.normalize('NFC', pw).encode('utf8')


def _xor(a, b):
    return bytes(x ^ y for x, y in zip(a, b))


def _addr(pub_bytes, addr_prefix=b'\x00'):
    return check_encode(addr_prefix + hash160(pub_bytes))


def encrypt_nonec(secret, compressed, passphrase, addr_prefix=b'\x00'):
    pt = ec.pubkey(secret)
    pub = ec.ser_compressed(pt) if compressed else ec.ser_uncompressed(pt)
    addresshash = dsha256(_addr(pub, addr_prefix).encode())[:4]
    d = scrypt(_norm(passphrase), addresshash, 16384, 8, 8, 64)
    dh1, dh2 = d[:32], d[32:]
    aes = AES.new(dh2, AES.MODE_ECB)
    k = secret.to_bytes(32, 'big')
    eh1 = aes.encrypt(_xor(k[:16], dh1[:16]))
    eh2 = aes.encrypt(_xor(k[16:], dh1[16:]))
    flag = 0xc0 | (0x20 if compressed else 0)
    return check_encode(b'\x01\x42' + bytes([flag]) + addresshash + eh1 + eh2)


class Bip38Error(ValueError):
    pass


def decrypt(enc, passphrase, addr_prefix=b'\x00'):
    """-> (secret int, compressed bool). Raises Bip38Error on malformed input or wrong passphrase."""
    try:
        raw = check_decode(enc)
    except ValueError as e:
        raise Bip38Error('bad base58check: %s' % e)
    if len(raw) != 39 or raw[0] != 0x01:
        raise Bip38Error('bad length/prefix')
    flag = raw[2]
    compressed = bool(flag & 0x20)
    if raw[1] == 0x42:
        if flag & 0xc0 != 0xc0:
            raise Bip38Error('bad flag')
        addresshash = raw[3:7]
        d = scrypt(_norm(passphrase), addresshash, 16384, 8, 8, 64)
        dh1, dh2 = d[:32], d[32:]
        aes = AES.new(dh2, AES.MODE_ECB)
        k = _xor(aes.decrypt(raw[7:23]), dh1[:16]) + _xor(aes.decrypt(raw[23:39]), dh1[16:])
        secret = int.from_bytes(k, 'big')
    elif raw[1] == 0x43:
        has_lot = bool(flag & 0x04)
        addresshash = raw[3:7]
        ownerentropy = raw[7:15]
        eh1h1 = raw[15:23]
        eh2 = raw[23:39]
        ownersalt = ownerentropy[:4] if has_lot else ownerentropy
        prefactor = scrypt(_norm(passphrase), ownersalt, 16384, 8, 8, 32)
        passfactor = dsha256(prefactor + ownerentropy) if has_lot else prefactor
        pf = int.from_bytes(passfactor, 'big')
        if not ec.valid_secret(pf):
            raise Bip38Error('bad passfactor')
        passpoint = ec.ser_compressed(ec.mul(pf))
        d = scrypt(passpoint, addresshash + ownerentropy, 1024, 1, 1, 64)
        dh1, dh2 = d[:32], d[32:]
        aes = AES.new(dh2, AES.MODE_ECB)
        p2 = _xor(aes.decrypt(eh2), dh1[16:])
        eh1h2 = p2[:8]
        seedb2 = p2[8:]
        p1 = _xor(aes.decrypt(eh1h1 + eh1h2), dh1[:16])
        seedb = p1 + seedb2
        factorb = int.from_bytes(dsha256(seedb), 'big')
        secret = (pf * factorb) % ec.N
    else:
        raise Bip38Error('bad type')
    if not ec.valid_secret(secret):
        raise Bip38Error('bad secret')
    pt = ec.pubkey(secret)
    pub = ec.ser_compressed(pt) if compressed else ec.ser_uncompressed(pt)
    if dsha256(_addr(pub, addr_prefix).encode())[:4] != addresshash:
        raise Bip38Error('address hash mismatch (wrong passphrase)')
    return secret, compressed


def intermediate_code(passphrase, ownersalt, lot=None, sequence=None):
    """ownersalt: 8 bytes without lot/sequence, 4 bytes with."""
    if lot is not None:
        ownerentropy = ownersalt[:4] + (lot * 4096 + sequence).to_bytes(4, 'big')
        prefactor = scrypt(_norm(passphrase), ownersalt[:4], 16384, 8, 8, 32)
        passfactor = dsha256(prefactor + ownerentropy)
        magic = bytes.fromhex('2CE9B3E1FF39E251')
    else:
        ownerentropy = ownersalt
        passfactor = scrypt(_norm(passphrase), ownersalt, 16384, 8, 8, 32)
        magic = bytes.fromhex('2CE9B3E1FF39E253')
    passpoint = ec.ser_compressed(ec.mul(int.from_bytes(passfactor, 'big')))
    return check_encode(magic + ownerentropy + passpoint)


def create_from_intermediate(intermediate, seedb, compressed, addr_prefix=b'\x00'):
    """-> (encrypted key string, address, generated secret is *not* known to this party)."""
    raw = check_decode(intermediate)
    if len(raw) != 49:
        raise Bip38Error('bad intermediate')
    magic, ownerentropy, passpoint = raw[:8], raw[8:16], raw[16:49]
    has_lot = magic[7] == 0x51
    flag = (0x20 if compressed else 0) | (0x04 if has_lot else 0)
    factorb = int.from_bytes(dsha256(seedb), 'big')
    pp = ec.parse_pubkey(passpoint)
    gen = ec.mul(factorb, pp)
    pub = ec.ser_compressed(gen) if compressed else ec.ser_uncompressed(gen)
    address = _addr(pub, addr_prefix)
    addresshash = dsha256(address.encode())[:4]
    d = scrypt(passpoint, addresshash + ownerentropy, 1024, 1, 1, 64)
    dh1, dh2 = d[:32], d[32:]
    aes = AES.new(dh2, AES.MODE_ECB)
    eh1 = aes.encrypt(_xor(seedb[:16], dh1[:16]))
    eh2 = aes.encrypt(_xor(eh1[8:16] + seedb[16:24], dh1[16:]))
    enc = check_encode(b'\x01\x43' + bytes([flag]) + addresshash + ownerentropy + eh1[:8] + eh2)
    return enc, address


# ---- added for C15 -------------------------------------------------------------------------------

def encrypt_nonec_for_address(secret, compressed, passphrase, address_text):
    """Non-EC-multiplied encryption with the address hash taken over an explicitly given address string
    (used to recognise encryptions made over a non-P2PKH address; the standard form is encrypt_nonec)."""
    addresshash = dsha256(address_text.encode())[:4]
    d = scrypt(_norm(passphrase), addresshash, 16384, 8, 8, 64)
    dh1, dh2 = d[:32], d[32:]
    aes = AES.new(dh2, AES.MODE_ECB)
    k = secret.to_bytes(32, 'big')
    eh1 = aes.encrypt(_xor(k[:16], dh1[:16]))
    eh2 = aes.encrypt(_xor(k[16:], dh1[16:]))
    flag = 0xc0 | (0x20 if compressed else 0)
    return check_encode(b'\x01\x42' + bytes([flag]) + addresshash + eh1 + eh2)


def owner_entropy_of_intermediate(intermediate):
    """8 owner-entropy bytes of an intermediate passphrase code."""
    raw = check_decode(intermediate)
    if len(raw) != 49:
        raise Bip38Error('bad intermediate')
    return raw[8:16]
