"""Reference BIP32 (CKDpriv / CKDpub / serialisation)."""
from . import ec
from .hashes import hmac_sha512, hash160
from .base58 import check_encode, check_decode

HARD = 0x80000000


class XKey(object):
    def __init__(self, secret, point, chain, depth=0, parent_fp=b'\x00\x00\x00\x00', child=0):
        self.secret = secret      # int or None
        self.point = point        # (x, y)
        self.chain = chain
        self.depth = depth
        self.parent_fp = parent_fp
        self.child = child

    @property
    def pub(self):
        return ec.ser_compressed(self.point)

    def fingerprint(self):
        return hash160(self.pub)[:4]

    def neuter(self):
        return XKey(None, self.point, self.chain, self.depth, self.parent_fp, self.child)

    def serialize(self, version, private=None):
        if private is None:
            private = self.secret is not None
        if private:
            if self.secret is None:
                raise ValueError('no private key')
            keydata = b'\x00' + self.secret.to_bytes(32, 'big')
        else:
            keydata = self.pub
        return (version + bytes([self.depth & 0xff]) + self.parent_fp + self.child.to_bytes(4, 'big') +
                self.chain + keydata)

    def xkey(self, version, private=None):
        return check_encode(self.serialize(version, private))


def master(seed):
    i = hmac_sha512(b'Bitcoin seed', seed)
    il = int.from_bytes(i[:32], 'big')
    if il == 0 or il >= ec.N:
        raise ValueError('invalid master')
    return XKey(il, ec.pubkey(il), i[32:])


def ckd_priv(k, index):
    if k.secret is None:
        raise ValueError('private derivation from public key')
    if index >= HARD:
        data = b'\x00' + k.secret.to_bytes(32, 'big') + index.to_bytes(4, 'big')
    else:
        data = k.pub + index.to_bytes(4, 'big')
    i = hmac_sha512(k.chain, data)
    il = int.from_bytes(i[:32], 'big')
    if il >= ec.N:
        raise ValueError('invalid child')
    s = (il + k.secret) % ec.N
    if s == 0:
        raise ValueError('invalid child')
    return XKey(s, ec.pubkey(s), i[32:], k.depth + 1, k.fingerprint(), index)


def ckd_pub(k, index):
    if index >= HARD:
        raise ValueError('hardened derivation from public key')
    i = hmac_sha512(k.chain, k.pub + index.to_bytes(4, 'big'))
    il = int.from_bytes(i[:32], 'big')
    if il >= ec.N:
        raise ValueError('invalid child')
    pt = ec.add(ec.mul(il, ec.G), k.point)
    if pt is None:
        raise ValueError('invalid child')
    return XKey(None, pt, i[32:], k.depth + 1, k.fingerprint(), index)


def derive(k, path):
    """path: list of ints (hardened = index | HARD)."""
    for idx in path:
        k = ckd_priv(k, idx) if k.secret is not None else ckd_pub(k, idx)
    return k


def parse_xkey(s):
    """Returns (version bytes, XKey) or raises ValueError (strict: checksum, 78 bytes, key validity)."""
    raw = check_decode(s)
    if len(raw) != 78:
        raise ValueError('bad length')
    version = raw[:4]
    depth = raw[4]
    fp = raw[5:9]
    child = int.from_bytes(raw[9:13], 'big')
    chain = raw[13:45]
    kd = raw[45:]
    if kd[0] == 0:
        sec = int.from_bytes(kd[1:], 'big')
        if not ec.valid_secret(sec):
            raise ValueError('bad secret')
        return version, XKey(sec, ec.pubkey(sec), chain, depth, fp, child)
    pt = ec.parse_pubkey(kd)
    if pt is None or kd[0] not in (2, 3):
        raise ValueError('bad pubkey')
    return version, XKey(None, pt, chain, depth, fp, child)
