"""Reference secp256k1 arithmetic and ECDSA on plain integers (Python int / pow only)."""
from .hashes import hmac_sha256

P = 0xFFFFFFFFFFFFFFFFFFFFFFFFFFFFFFFFFFFFFFFFFFFFFFFFFFFFFFFEFFFFFC2F
N = 0xFFFFFFFFFFFFFFFFFFFFFFFFFFFFFFFEBAAEDCE6AF48A03BBFD25E8CD0364141
GX = 0x79BE667EF9DCBBAC55A06295CE870B07029BFCDB2DCE28D959F2815B16F81798
GY = 0x483ADA7726A3C4655DA4FBFC0E1108A8FD17B448A68554199C47D08FFB10D4B8
G = (GX, GY)
INF = None


def on_curve(pt):
    if pt is None:
        return True
    x, y = pt
    return 0 <= x < P and 0 <= y < P and (y * y - x * x * x - 7) % P == 0


def _jac_double(p):
    x, y, z = p
    if y == 0 or z == 0:
        return (0, 1, 0)
    ysq = (y * y) % P
    s = (4 * x * ysq) % P
    m = (3 * x * x) % P
    nx = (m * m - 2 * s) % P
    ny = (m * (s - nx) - 8 * ysq * ysq) % P
    nz = (2 * y * z) % P
    return (nx, ny, nz)


def _jac_add(p, q):
    if p[2] == 0:
        return q
    if q[2] == 0:
        return p
    x1, y1, z1 = p
    x2, y2, z2 = q
    z1z1 = (z1 * z1) % P
    z2z2 = (z2 * z2) % P
    u1 = (x1 * z2z2) % P
    u2 = (x2 * z1z1) % P
    s1 = (y1 * z2 * z2z2) % P
    s2 = (y2 * z1 * z1z1) % P
    if u1 == u2:
        if s1 != s2:
            return (0, 1, 0)
        return _jac_double(p)
    h = (u2 - u1) % P
    r = (s2 - s1) % P
    h2 = (h * h) % P
    h3 = (h * h2) % P
    u1h2 = (u1 * h2) % P
    nx = (r * r - h3 - 2 * u1h2) % P
    ny = (r * (u1h2 - nx) - s1 * h3) % P
    nz = (h * z1 * z2) % P
    return (nx, ny, nz)


def _to_jac(pt):
    return (0, 1, 0) if pt is None else (pt[0], pt[1], 1)


def _from_jac(p):
    x, y, z = p
    if z == 0:
        return None
    zi = pow(z, P - 2, P)
    zi2 = (zi * zi) % P
    return ((x * zi2) % P, (y * zi2 * zi) % P)


def add(p, q):
    return _from_jac(_jac_add(_to_jac(p), _to_jac(q)))


def mul(k, pt=G):
    k %= N
    acc = (0, 1, 0)
    base = _to_jac(pt)
    while k:
        if k & 1:
            acc = _jac_add(acc, base)
        base = _jac_double(base)
        k >>= 1
    return _from_jac(acc)


def mul2(a, p, b, q):
    """a*p + b*q"""
    return add(mul(a, p), mul(b, q))


def neg(pt):
    return None if pt is None else (pt[0], (-pt[1]) % P)


def lift_x(x, odd):
    """Decompress: returns (x, y) or None when x is not the abscissa of a curve point."""
    if not 0 <= x < P:
        return None
    y2 = (pow(x, 3, P) + 7) % P
    y = pow(y2, (P + 1) // 4, P)
    if (y * y) % P != y2:
        return None
    if (y & 1) != (1 if odd else 0):
        y = P - y
    return (x, y)


def ser_compressed(pt):
    return bytes([2 + (pt[1] & 1)]) + pt[0].to_bytes(32, 'big')


def ser_uncompressed(pt):
    return b'\x04' + pt[0].to_bytes(32, 'big') + pt[1].to_bytes(32, 'big')


def parse_pubkey(b):
    """Returns a point or None (strict: valid encodings of curve points only, no hybrid keys)."""
    if len(b) == 33 and b[0] in (2, 3):
        return lift_x(int.from_bytes(b[1:], 'big'), b[0] == 3)
    if len(b) == 65 and b[0] == 4:
        pt = (int.from_bytes(b[1:33], 'big'), int.from_bytes(b[33:], 'big'))
        return pt if (pt[0] < P and pt[1] < P and on_curve(pt)) else None
    return None


def valid_secret(d):
    return 1 <= d < N


def pubkey(d):
    return mul(d, G)


# ---- ECDSA ----------------------------------------------------------------------------------------

def verify(z, r, s, q):
    """Standard ECDSA verification of digest integer z (already reduced to 256 bits)."""
    if q is None or not on_curve(q):
        return False
    if not (1 <= r < N and 1 <= s < N):
        return False
    w = pow(s, N - 2, N)
    u1 = (z * w) % N
    u2 = (r * w) % N
    pt = mul2(u1, G, u2, q)
    if pt is None:
        return False
    return pt[0] % N == r


def sign_with_k(z, d, k, low_s=True):
    pt = mul(k, G)
    r = pt[0] % N
    s = (pow(k, N - 2, N) * (z + r * d)) % N
    if r == 0 or s == 0:
        raise ValueError('bad k')
    if low_s and s > N // 2:
        s = N - s
    return r, s


def rfc6979_k(z_bytes, d):
    """RFC 6979 nonce with SHA-256 for a 32-byte message hash."""
    x = d.to_bytes(32, 'big')
    h1 = (int.from_bytes(z_bytes, 'big') % N).to_bytes(32, 'big')
    v = b'\x01' * 32
    k = b'\x00' * 32
    k = hmac_sha256(k, v + b'\x00' + x + h1)
    v = hmac_sha256(k, v)
    k = hmac_sha256(k, v + b'\x01' + x + h1)
    v = hmac_sha256(k, v)
    while True:
        v = hmac_sha256(k, v)
        cand = int.from_bytes(v, 'big')
        if 1 <= cand < N:
            return cand
        k = hmac_sha256(k, v + b'\x00')
        v = hmac_sha256(k, v)


def sign(z_bytes, d):
    z = int.from_bytes(z_bytes, 'big')
    return sign_with_k(z, d, rfc6979_k(z_bytes, d))


def recover_nonce_candidates(z, r, s, d):
    """k = s^-1 (z + r d) mod n, and the value for the s-negated twin."""
    k1 = (pow(s, N - 2, N) * (z + r * d)) % N
    return k1, (N - k1) % N


# ---- DER ------------------------------------------------------------------------------------------

def der_encode(r, s):
    def enc_int(v):
        b = v.to_bytes((v.bit_length() + 7) // 8 or 1, 'big')
        if b[0] & 0x80:
            b = b'\x00' + b
        return b'\x02' + bytes([len(b)]) + b
    body = enc_int(r) + enc_int(s)
    return b'\x30' + bytes([len(body)]) + body


def is_strict_der(sig):
    """BIP66 IsValidSignatureEncoding on the DER part *without* the hash-type byte."""
    n = len(sig)
    if n < 8 or n > 72:
        return False
    if sig[0] != 0x30:
        return False
    if sig[1] != n - 2:
        return False
    len_r = sig[3]
    if 5 + len_r >= n:
        return False
    len_s = sig[5 + len_r]
    if len_r + len_s + 6 != n:
        return False
    if sig[2] != 0x02:
        return False
    if len_r == 0:
        return False
    if sig[4] & 0x80:
        return False
    if len_r > 1 and sig[4] == 0 and not (sig[5] & 0x80):
        return False
    if sig[len_r + 4] != 0x02:
        return False
    if len_s == 0:
        return False
    if sig[len_r + 6] & 0x80:
        return False
    if len_s > 1 and sig[len_r + 6] == 0 and not (sig[len_r + 7] & 0x80):
        return False
    return True


def der_decode_strict(sig):
    if not is_strict_der(sig):
        return None
    len_r = sig[3]
    r = int.from_bytes(sig[4:4 + len_r], 'big')
    len_s = sig[5 + len_r]
    s = int.from_bytes(sig[6 + len_r:6 + len_r + len_s], 'big')
    return r, s


def der_decode_lenient(sig):
    """Lenient reader (like libsecp256k1's lax parser, simplified): returns (r, s) or None."""
    try:
        pos = 0
        if sig[pos] != 0x30:
            return None
        pos += 1
        ln = sig[pos]
        pos += 1
        if ln & 0x80:
            pos += ln & 0x7f
        out = []
        for _ in range(2):
            if sig[pos] != 0x02:
                return None
            pos += 1
            ln = sig[pos]
            pos += 1
            if ln & 0x80:
                nb = ln & 0x7f
                ln = int.from_bytes(sig[pos:pos + nb], 'big')
                pos += nb
            if pos + ln > len(sig):
                return None
            out.append(int.from_bytes(sig[pos:pos + ln], 'big'))
            pos += ln
        return out[0], out[1]
    except IndexError:
        return None
