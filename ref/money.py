"""Exact amount arithmetic (Fraction)."""
from fractions import Fraction

# denominator symbol -> value, as documented in bitcoinlib.config.config.NETWORK_DENOMINATORS
DENOMINATORS = {
    'P': Fraction(10) ** 15, 'T': Fraction(10) ** 12, 'G': Fraction(10) ** 9, 'M': Fraction(10) ** 6,
    'k': Fraction(10) ** 3, 'h': Fraction(10) ** 2, 'da': Fraction(10), '': Fraction(1),
    'd': Fraction(1, 10), 'c': Fraction(1, 100), 'm': Fraction(1, 1000), 'µ': Fraction(1, 10 ** 6),
    'n': Fraction(1, 10 ** 9), 'fin': Fraction(1, 10 ** 10), 'sat': Fraction(1, 10 ** 8),
    'msat': Fraction(1, 10 ** 11), 'p': Fraction(1, 10 ** 12), 'f': Fraction(1, 10 ** 15),
    'a': Fraction(1, 10 ** 18),
}
UNIT = Fraction(1, 10 ** 8)


def text_for(n_units, den_symbol, decimals=None):
    """Exact decimal text of n smallest units expressed in denominator den_symbol, or None if it is not
    a terminating decimal (never happens for powers of ten)."""
    q = Fraction(n_units) * UNIT / DENOMINATORS[den_symbol]
    # all denominators are powers of ten -> terminating
    num, den = q.numerator, q.denominator
    k = 0
    while den != 1:
        num *= 10
        g = _gcd(num, den)
        num //= g
        den //= g
        k += 1
        if k > 40:
            return None
    s = str(num)
    if k:
        s = s.rjust(k + 1, '0')
        s = s[:-k] + '.' + s[-k:]
    return s


def _gcd(a, b):
    while b:
        a, b = b, a % b
    return a


def units_of(text, den_symbol):
    """Exact number of smallest units of a decimal text in the given denominator (Fraction)."""
    return Fraction(text) * DENOMINATORS[den_symbol] / UNIT


# ---- added for C17 -------------------------------------------------------------------------------
# Unit table derived from the *meaning* of each symbol (not from the library's table):
#   SI prefixes (BIPM SI brochure, 9th ed., table 7): Y 10^24, Z 10^21, E 10^18, P 10^15, T 10^12, G 10^9, M 10^6,
#   k 10^3, h 10^2, da 10^1, d 10^-1, c 10^-2, m 10^-3, µ 10^-6, n 10^-9
#   bitcoin units (https://en.bitcoin.it/wiki/Units): satoshi = 10^-8 BTC, finney = 10 satoshi = 10^-7 BTC,
#   millisatoshi = 10^-3 sat = 10^-11 BTC (Lightning), microsatoshi = 10^-6 sat = 10^-14 BTC
# NB the older DENOMINATORS table above has 'fin' = 10^-10, which is not the finney; it is kept untouched for the
# self-test that uses it, the C17 check uses UNIT_EXP only.
UNIT_EXP = {
    'Y': 24, 'Z': 21, 'E': 18, 'P': 15, 'T': 12, 'G': 9, 'M': 6, 'k': 3, 'h': 2, 'da': 1, '': 0,
    'd': -1, 'c': -2, 'm': -3, 'µ': -6, 'n': -9,
    'sat': -8, 'fin': -7, 'msat': -11, 'µsat': -14,
}
SMALLEST_EXP = -8            # every network of the pinned table has denominator 10^-8
MAX_UNITS = 21 * 10 ** 14    # 21 million coins in smallest units


def den_value(symbol):
    """Exact value of one <symbol>coin in coins."""
    e = UNIT_EXP[symbol]
    return Fraction(10) ** e if e >= 0 else Fraction(1, 10 ** -e)


def decimal_text(n_units, symbol, decimals=None, smallest_exp=SMALLEST_EXP):
    """Exact decimal text of n_units smallest units expressed in denominator `symbol`.
    decimals=None: shortest form (no trailing zeros, no trailing point); decimals=d: exactly d decimals, or
    None when d decimals cannot express the amount exactly. Integer/string arithmetic only."""
    neg = n_units < 0
    n = -n_units if neg else n_units
    k = UNIT_EXP[symbol] - smallest_exp          # amount = n / 10^k  (k may be negative)
    if k <= 0:
        ip, fp = str(n * 10 ** (-k)), ''
    else:
        s = str(n).rjust(k + 1, '0')
        ip, fp = s[:-k], s[-k:].rstrip('0')
    if decimals is not None:
        if len(fp) > decimals:
            return None
        fp = fp.ljust(decimals, '0')
    out = ip + ('.' + fp if fp else '')
    return '-' + out if neg and n else out


def units_from_text(number_text, symbol, smallest_exp=SMALLEST_EXP):
    """Exact number of smallest units (Fraction) meant by '<number_text> <symbol>'."""
    return Fraction(number_text) * den_value(symbol) / (Fraction(10) ** smallest_exp)


def needed_decimals(symbol, smallest_exp=SMALLEST_EXP):
    """Decimals needed to express one smallest unit in this denominator (0 for sub-unit denominators)."""
    return max(0, UNIT_EXP[symbol] - smallest_exp)
