"""Exact amount arithmetic (Fraction)."""
from fractions import Fraction

# denominator symbol -> value, as documented in bitcoinlib.config.config.NETWORK_DENOMINATORS
DENOMINATORS = {
    'P': Fraction(10) ** 15, 'T': Fraction(10) ** 12, 'G': Fraction(10) ** 9, 'M': Fraction(10) ** 6,
    'k': Fraction(10) ** 3, 'h': Fraction(10) ** 2, 'da': Fraction(10), '': Fraction(1),
    'd': Fraction(1, 10), 'c': Fraction(1, 100), 'm': Fraction(1, 1000), 'µ': Fraction(1, 10 ** 6),
    'n': Fraction(1, 10 ** 9), 'fin': Fraction(1, 10 ** 10), 'sat': Fraction(1, 10 ** 8),
    'msat': Fraction(1, 10 ** 11), 'p': Fraction(1, 10 ** 12), 'f': Fraction(1, 10 ** 15),
    'a': Fraction(1, 10 ** 18),
}
UNIT = Fraction(1, 10 ** 8)


def text_for(n_units, den_symbol, decimals=None):
    """Exact decimal text of n smallest units expressed in denominator den_symbol, or None if it is not
    a terminating decimal (never happens for powers of ten)."""
    q = Fraction(n_units) * UNIT / DENOMINATORS[den_symbol]
    # all denominators are powers of ten -> terminating
    num, den = q.numerator, q.denominator
    k = 0
    while den != 1:
        num *= 10
        g = _gcd(num, den)
        num //= g
        den //= g
        k += 1
        if k > 40:
            return None
    s = str(num)
    if k:
        s = s.rjust(k + 1, '0')
        s = s[:-k] + '.' + s[-k:]
    return s


def _gcd(a, b):
    while b:
        a, b = b, a % b
    return a


def units_of(text, den_symbol):
    """Exact number of smallest units of a decimal text in the given denominator (Fraction)."""
    return Fraction(text) * DENOMINATORS[den_symbol] / UNIT
