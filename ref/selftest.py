"""Self-tests of the reference models against published specification vectors.
Run in setup_cmd: a wrong oracle must show up as a harness error (exit 2), not as a library violation."""
import sys

from . import ec, base58, bech32, bip32, bip39, bip38, wire, hashes, interp, sighash, address, money


def check(cond, what):
    if not cond:
        raise AssertionError('reference self-test failed: ' + what)


def t_hashes():
    check(hashes.ripemd160(b'').hex() == '9c1185a5c5e9fc54612808977ee8f548b2258d31', 'ripemd160 empty')
    check(hashes._ripemd160_py(b'abc').hex() == '8eb208f7e05d987a9b044a8e98c6b087f15a0bfc', 'ripemd160 py abc')
    check(hashes._ripemd160_py(b'a' * 1000) == hashes.ripemd160(b'a' * 1000) or not hashes._HAVE_RMD, 'rmd long')
    check(hashes.hash160(bytes.fromhex('0279BE667EF9DCBBAC55A06295CE870B07029BFCDB2DCE28D959F2815B16F81798')).hex()
          == '751e76e8199196d454941c45d1b3a323f1433bd6', 'hash160 G')


def t_ec():
    check(ec.on_curve(ec.G), 'G on curve')
    check(ec.mul(ec.N) is None, 'nG = inf')
    check(ec.mul(2) == (0xC6047F9441ED7D6D3045406E95C07CD85C778E4B8CEF3CA7ABAC09B95C709EE5,
                        0x1AE168FEA63DC339A3C58419466CEAEEF7F632653266D0E1236431A950CFE52A), '2G')
    check(ec.mul(ec.N - 1) == ec.neg(ec.G), '(n-1)G = -G')
    check(ec.lift_x(ec.GX, False) == ec.G, 'lift_x')
    check(ec.lift_x(5, False) is None, 'x=5 not on curve')
    # RFC6979-style deterministic signature: key=1, msg sha256("Satoshi Nakamoto") (well-known test vector)
    z = hashes.sha256(b'Satoshi Nakamoto')
    r, s = ec.sign(z, 1)
    check(r == 0x934b1ea10a4b3c1757e2b0c017d0b6143ce3c9a7e6a4a49860d7a6ab210ee3d8, 'rfc6979 r')
    check(s == 0x2442ce9d2b916064108014783e923ec36b49743e2ffa1c4496f01a512aafd9e5, 'rfc6979 s')
    check(ec.verify(int.from_bytes(z, 'big'), r, s, ec.G), 'verify')
    check(not ec.verify(int.from_bytes(z, 'big') ^ 1, r, s, ec.G), 'verify neg')
    der = ec.der_encode(r, s)
    check(ec.is_strict_der(der) and ec.der_decode_strict(der) == (r, s), 'der')
    check(not ec.is_strict_der(der + b'\x00'), 'der trailing')


def t_base58_bech32():
    check(base58.check_encode(b'\x00' + bytes.fromhex('751e76e8199196d454941c45d1b3a323f1433bd6')) ==
          '1BgGZ9tcN4rm9KBzDn7KprQz87SZ26SAMH', 'p2pkh of G')
    check(base58.check_decode('1BgGZ9tcN4rm9KBzDn7KprQz87SZ26SAMH')[1:].hex() ==
          '751e76e8199196d454941c45d1b3a323f1433bd6', 'decode')
    check(not base58.is_valid_check('1BgGZ9tcN4rm9KBzDn7KprQz87SZ26SAMh'), 'bad checksum')
    check(base58.b58decode('11') == b'\x00\x00', 'leading ones')
    # BIP173 / BIP350 vectors
    v, p = bech32.segwit_decode('bc', 'BC1QW508D6QEJXTDG4Y5R3ZARVARY0C5XW7KV8F3T4')
    check(v == 0 and p.hex() == '751e76e8199196d454941c45d1b3a323f1433bd6', 'bip173 p2wpkh')
    v, p = bech32.segwit_decode('tb', 'tb1qrp33g0q5c5txsp9arysrx4k6zdkfs4nce4xj0gdcccefvpysxf3q0sl5k7')
    check(v == 0 and p.hex() == '1863143c14c5166804bd19203356da136c985678cd4d27a1b8c6329604903262', 'bip173 p2wsh')
    v, p = bech32.segwit_decode('bc', 'bc1p0xlxvlhemja6c4dqv22uapctqupfhlxm9h8z3k2e72q4k9hcz7vqzk5jj0')
    check(v == 1 and p.hex() == '79be667ef9dcbbac55a06295ce870b07029bfcdb2dce28d959f2815b16f81798', 'bip350 p2tr')
    check(bech32.segwit_decode('bc', 'bc1p0xlxvlhemja6c4dqv22uapctqupfhlxm9h8z3k2e72q4k9hcz7vqh2y7hd')[0] is None,
          'bip350: v1 with bech32 checksum invalid')
    check(bech32.segwit_decode('bc', 'bc1qw508d6qejxtdg4y5r3zarvary0c5xw7kemeawh')[0] is None,
          'bip350: v0 with bech32m checksum invalid')
    check(bech32.segwit_encode('bc', 0, bytes.fromhex('751e76e8199196d454941c45d1b3a323f1433bd6')) ==
          'bc1qw508d6qejxtdg4y5r3zarvary0c5xw7kv8f3t4', 'encode')
    check(bech32.segwit_decode('bc', 'bc1qw508d6qejxtdg4y5r3zarvary0c5xw7kv8f3T4')[0] is None, 'mixed case')


def t_bip32():
    m = bip32.master(bytes.fromhex('000102030405060708090a0b0c0d0e0f'))
    xprv = bytes.fromhex('0488ADE4')
    xpub = bytes.fromhex('0488B21E')
    check(m.xkey(xprv) == 'xprv9s21ZrQH143K3QTDL4LXw2F7HEK3wJUD2nW2nRk4stbPy6cq3jPPqjiChkVvvNKmPGJxWUtg6LnF5kejMRNNU3TGtRBeJgk33yuGBxrMPHi', 'tv1 m')
    c = bip32.ckd_priv(m, bip32.HARD)
    check(c.xkey(xprv) == 'xprv9uHRZZhk6KAJC1avXpDAp4MDc3sQKNxDiPvvkX8Br5ngLNv1TxvUxt4cV1rGL5hj6KCesnDYUhd7oWgT11eZG7XnxHrnYeSvkzY7d2bhkJ7', "tv1 m/0'")
    check(c.xkey(xpub, False) == 'xpub68Gmy5EdvgibQVfPdqkBBCHxA5htiqg55crXYuXoQRKfDBFA1WEjWgP6LHhwBZeNK1VTsfTFUHCdrfp1bgwQ9xv5ski8PX9rL2dZXvgGDnw', "tv1 M/0'")
    d = bip32.derive(m, [bip32.HARD, 1, bip32.HARD + 2, 2, 1000000000])
    check(d.xkey(xprv) == 'xprvA41z7zogVVwxVSgdKUHDy1SKmdb533PjDz7J6N6mV6uS3ze1ai8FHa8kmHScGpWmj4WggLyQjgPie1rFSruoUihUZREPSL39UNdE3BBDu76', 'tv1 deep')
    # public derivation commutes
    c1 = bip32.ckd_priv(c, 1)
    check(bip32.ckd_pub(c.neuter(), 1).point == c1.point, 'ckd_pub commutes')
    # TV3 (leading zeros retained)
    m3 = bip32.master(bytes.fromhex('4b381541583be4423346c643850da4b320e46a87ae3d2a4e6da11eba819cd4acba45d239319ac14f863b8d5ab5a0d0c64d2e8a1e7d1457df2e5a3c51c73235be'))
    check(m3.xkey(xprv) == 'xprv9s21ZrQH143K25QhxbucbDDuQ4naNntJRi4KUfWT7xo4EKsHt2QJDu7KXp1A3u7Bi1j8ph3EGsZ9Xvz9dGuVrtHHs7pXeTzjuxBrCmmhgC6', 'tv3 m')
    check(bip32.ckd_priv(m3, bip32.HARD).xkey(xprv) == 'xprv9uPDJpEQgRQfDcW7BkF7eTya6RPxXeJCqCJGHuCJ4GiRVLzkTXBAJMu2qaMWPrS7AANYqdq6vcBcBUdJCVVFceUvJFjaPdGZ2y9WACViL4L', "tv3 m/0'")
    v, k = bip32.parse_xkey(m.xkey(xprv))
    check(v == xprv and k.secret == m.secret and k.chain == m.chain, 'parse xkey')


def t_bip39():
    e = bytes(16)
    w = bip39.entropy_to_words(e, 'english')
    check(' '.join(w) == 'abandon abandon abandon abandon abandon abandon abandon abandon abandon abandon abandon about',
          'bip39 zero entropy')
    check(bip39.seed(' '.join(w), 'TREZOR').hex() ==
          'c55257c360c07c72029aebc1b53c05ed0362ada38ead3e3e9efa3708e53495531f09a6987599d18264c1e1c92f2cf141630c7a3c4ab7c81b2f001698e7463b04',
          'bip39 seed')
    e = bytes.fromhex('7f' * 16)
    w = bip39.entropy_to_words(e, 'english')
    check(' '.join(w) == 'legal winner thank year wave sausage worth useful legal winner thank yellow', 'bip39 7f')
    check(bip39.words_to_entropy(w, 'english') == e, 'bip39 back')
    try:
        bip39.words_to_entropy(w[:-1] + ['year'], 'english')
        check(False, 'bad checksum accepted')
    except ValueError:
        pass
    e = bytes.fromhex('ff' * 32)
    w = bip39.entropy_to_words(e, 'english')
    check(' '.join(w) == 'zoo ' * 23 + 'vote', 'bip39 ff*32')


def t_bip38():
    sec, comp = bip38.decrypt('6PRVWUbkzzsbcVac2qwfssoUJAN1Xhrg6bNk8J7Nzm5H7kxEbn2Nh2ZoGg', 'TestingOneTwoThree')
    check(address.wif(sec, 'bitcoin', comp) == '5KN7MzqK5wt2TP1fQCYyHBtDrXdJuXbUzm4A9rKAteGu3Qi5CVR', 'bip38 v1')
    check(bip38.encrypt_nonec(sec, comp, 'TestingOneTwoThree') ==
          '6PRVWUbkzzsbcVac2qwfssoUJAN1Xhrg6bNk8J7Nzm5H7kxEbn2Nh2ZoGg', 'bip38 v1 enc')
    sec, comp = bip38.decrypt('6PYNKZ1EAgYgmQfmNVamxyXVWHzK5s6DGhwP4J5o44cvXdoY7sRzhtpUeo', 'TestingOneTwoThree')
    check(address.wif(sec, 'bitcoin', comp) == 'L44B5gGEpqEDRS9vVPz7QT35jcBG2r3CZwSwQ4fCewXAhAhqGVpP', 'bip38 v2')
    sec, comp = bip38.decrypt('6PfQu77ygVyJLZjfvMLyhLMQbYnu5uguoJJ4kMCLqWwPEdfpwANVS76gTX', 'TestingOneTwoThree')
    check(address.wif(sec, 'bitcoin', comp) == '5K4caxezwjGCGfnoPTZ8tMcJBLB7Jvyjv4xxeacadhq8nLisLR2', 'bip38 ec')
    sec, comp = bip38.decrypt('6PgNBNNzDkKdhkT6uJntUXwwzQV8Rr2tZcbkDcuC9DZRsS6AtHts4Ypo1j', 'MOLON LABE')
    check(address.wif(sec, 'bitcoin', comp) == '5JLdxTtcTHcfYcmJsNVy1v2PMDx432JPoYcBTVVRHpPaxUrdtf8', 'bip38 ec lot')
    try:
        bip38.decrypt('6PRVWUbkzzsbcVac2qwfssoUJAN1Xhrg6bNk8J7Nzm5H7kxEbn2Nh2ZoGg', 'wrong')
        check(False, 'wrong passphrase accepted')
    except bip38.Bip38Error:
        pass
    # intermediate -> create -> decrypt round trip inside the reference
    ic = bip38.intermediate_code('pw', bytes(range(8)))
    enc, addr = bip38.create_from_intermediate(ic, bytes(range(24)), True)
    sec, comp = bip38.decrypt(enc, 'pw')
    check(address.key_address(ec.ser_compressed(ec.pubkey(sec)), 'bitcoin', 'p2pkh') == addr, 'bip38 ec roundtrip')
    ic = bip38.intermediate_code('pw', bytes(range(4)), lot=100, sequence=7)
    enc, addr = bip38.create_from_intermediate(ic, bytes(range(24)), False)
    sec, comp = bip38.decrypt(enc, 'pw')
    check(address.key_address(ec.ser_uncompressed(ec.pubkey(sec)), 'bitcoin', 'p2pkh') == addr and not comp,
          'bip38 ec lot roundtrip')


def t_wire():
    check(wire.compact_size(252) == b'\xfc' and wire.compact_size(253) == b'\xfd\xfd\x00', 'cs 252/253')
    check(wire.compact_size(0xffff) == b'\xfd\xff\xff' and wire.compact_size(0x10000) == b'\xfe\x00\x00\x01\x00', 'cs 64k')
    check(wire.compact_size(0xffffffff) == b'\xfe\xff\xff\xff\xff', 'cs 4g')
    check(wire.scriptnum_encode(-1) == b'\x81' and wire.scriptnum_encode(128) == b'\x80\x00' and
          wire.scriptnum_encode(-128) == b'\x80\x80' and wire.scriptnum_encode(255) == b'\xff\x00', 'scriptnum')
    for v in list(range(-70000, 70000, 7)) + [2 ** 31, -2 ** 31, 2 ** 31 - 1]:
        check(wire.scriptnum_decode(wire.scriptnum_encode(v)) == v, 'scriptnum rt %d' % v)
    check(wire.scriptnum_decode(b'\x80') == 0 and wire.scriptnum_decode(b'\x00\x80') == 0, 'negative zero')
    # the genesis coinbase transaction
    raw = bytes.fromhex(
        '01000000010000000000000000000000000000000000000000000000000000000000000000ffffffff4d04ffff001d0104455468652054696d65732030332f4a616e2f32303039204368616e63656c6c6f72206f6e206272696e6b206f66207365636f6e64206261696c6f757420666f722062616e6b73ffffffff0100f2052a01000000434104678afdb0fe5548271967f1a67130b7105cd6a828e03909a67962e0ea1f61deb649f6bc3f4cef38c4f35504e51ec112de5c384df7ba0b8d578a4c702b6bf11d5fac00000000')
    t = wire.Tx.parse(raw)
    check(t.serialize() == raw, 'genesis tx round trip')
    check(t.txid().hex() == '4a5e1e4baab89f3a32518a88c31bc87f618f76673e2cc77ab2127b7afdeda33b', 'genesis txid')
    check(wire.merkle_root([t.txid()[::-1]])[::-1] == t.txid(), 'merkle single')
    h = wire.BlockHeader(1, b'\x00' * 32, t.txid()[::-1], 1231006505, 0x1d00ffff, 2083236893)
    check(h.hash().hex() == '000000000019d6689c085ae165831e934ff763ae46a2a6c172b3f1b60a8ce26f', 'genesis hash')
    check(wire.set_compact(0x1d00ffff)[0] == 0xffff << (8 * (0x1d - 3)), 'set_compact')


def t_interp_sighash():
    # BIP143 native P2WPKH example
    raw_unsigned = bytes.fromhex(
        '0100000002fff7f7881a8099afa6940d42d1e7f6362bec38171ea3edf433541db4e4ad969f0000000000eeffffff'
        'ef51e1b804cc89d182d279655c3aa89e815b1b309fe287d9b2b55d57b90ec68a0100000000ffffffff02202cb206'
        '000000001976a9148280b37df378db99f66f85c95a783a76ac7a6d5988ac9093510d000000001976a9143bde42db'
        'ee7e4dbe6a21b2d50ce2f0167faa815988ac11000000')
    t = wire.Tx.parse(raw_unsigned)
    pub = bytes.fromhex('025476c2e83188368da1ff3e292e7acafcdb3566bb0ad253f62fc70f07aeee6357')
    d = sighash.bip143_sighash(t, 1, b'\x76\xa9\x14' + hashes.hash160(pub) + b'\x88\xac', 600000000, 1)
    check(d.hex() == 'c37af31116d1b27caf68aae9e3ac82f1477929014d5b917657d0eb49478cb670', 'bip143 p2wpkh sighash')
    bsig = bytes.fromhex('304402203609e17b84f6a7d30c80bfa610b5b4542f32a8a0d5447a12fb1366d7f01cc44a0220573a954c'
                         '4518331561406f90300e8f3358f51928d43c212a8caed02de67eebee')
    r, s = ec.der_decode_strict(bsig)
    check(ec.verify(int.from_bytes(d, 'big'), r, s, ec.parse_pubkey(pub)), 'bip143 example signature verifies')
    # sign the genesis-like legacy spend with the reference and verify through the full interpreter
    for kind in ('p2pkh', 'p2wpkh', 'p2sh-p2wpkh', 'p2sh-ms', 'p2wsh-ms', 'p2sh-p2wsh-ms', 'p2pk'):
        _roundtrip_spend(kind)
    # interpreter basics
    ok, st, _ = interp.eval_items([interp.OP_1, interp.OP_2, interp.OP_ADD, interp.OP_1 + 2, interp.OP_EQUAL])
    check(ok, '1+2=3')
    ok, st, _ = interp.eval_items([b'\x02', b'\x05', interp.OP_SUB])
    check(st == [b'\x83'] and ok, '2 5 SUB = -3')
    ok, st, _ = interp.eval_items([b'\x80'])
    check(not ok, 'negative zero is false')
    ok, st, _ = interp.eval_items([interp.OP_1, interp.OP_2, interp.OP_1 + 2, interp.OP_ROT])
    check(st == [b'\x02', b'\x03', b'\x01'], 'ROT')
    ok, st, _ = interp.eval_items([interp.OP_1, interp.OP_2, interp.OP_TUCK])
    check(st == [b'\x02', b'\x01', b'\x02'], 'TUCK')
    ok, st, _ = interp.eval_items([interp.OP_1, interp.OP_2, interp.OP_1 + 2, interp.OP_1 + 3, interp.OP_2SWAP])
    check(st == [b'\x03', b'\x04', b'\x01', b'\x02'], '2SWAP')
    ok, st, _ = interp.eval_items([b'\x05', interp.OP_1, b'\x0a', interp.OP_WITHIN])
    check(ok, '5 within [1,10)')
    ok, st, _ = interp.eval_items([interp.OP_0, interp.OP_IF, interp.OP_RETURN, interp.OP_ELSE, interp.OP_1,
                                   interp.OP_ENDIF])
    check(ok, 'if/else')
    ok, st, _ = interp.eval_items([interp.OP_1, interp.OP_IF, interp.OP_1])
    check(not ok, 'unbalanced if')
    ok, st, _ = interp.eval_items([interp.OP_1, interp.OP_2, interp.OP_1 + 2, interp.OP_1, interp.OP_PICK])
    check(st[-1] == b'\x02', 'PICK 1')


def _roundtrip_spend(kind):
    from .address import script_p2pkh, script_p2sh, script_p2wpkh, script_p2wsh, script_multisig, script_p2pk
    d1, d2, d3 = 0x1111, 0x2222, 0x3333
    pubs = [ec.ser_compressed(ec.pubkey(d)) for d in (d1, d2, d3)]
    amount = 123456789
    tx = wire.Tx(2, [wire.TxIn(b'\xaa' * 32, 1, b'', 0xfffffffd)], [wire.TxOut(1000, script_p2pkh(b'\x11' * 20))], 17)

    def sig(d, digest):
        r, s = ec.sign(digest, d)
        return ec.der_encode(r, s) + b'\x01'
    ms = script_multisig(2, pubs)
    if kind == 'p2pkh':
        spk = script_p2pkh(hashes.hash160(pubs[0]))
        dg = sighash.legacy_sighash(tx, 0, spk, 1)
        tx.vin[0].script_sig = wire.script_build([sig(d1, dg), pubs[0]])
    elif kind == 'p2pk':
        spk = script_p2pk(pubs[0])
        dg = sighash.legacy_sighash(tx, 0, spk, 1)
        tx.vin[0].script_sig = wire.script_build([sig(d1, dg)])
    elif kind == 'p2wpkh':
        spk = script_p2wpkh(hashes.hash160(pubs[0]))
        dg = sighash.bip143_sighash(tx, 0, script_p2pkh(hashes.hash160(pubs[0])), amount, 1)
        tx.vin[0].witness = [sig(d1, dg), pubs[0]]
    elif kind == 'p2sh-p2wpkh':
        redeem = script_p2wpkh(hashes.hash160(pubs[0]))
        spk = script_p2sh(hashes.hash160(redeem))
        dg = sighash.bip143_sighash(tx, 0, script_p2pkh(hashes.hash160(pubs[0])), amount, 1)
        tx.vin[0].witness = [sig(d1, dg), pubs[0]]
        tx.vin[0].script_sig = wire.script_build([redeem])
    elif kind == 'p2sh-ms':
        spk = script_p2sh(hashes.hash160(ms))
        dg = sighash.legacy_sighash(tx, 0, ms, 1)
        tx.vin[0].script_sig = wire.script_build([0, sig(d1, dg), sig(d3, dg), ms])
    elif kind == 'p2wsh-ms':
        spk = script_p2wsh(hashes.sha256(ms))
        dg = sighash.bip143_sighash(tx, 0, ms, amount, 1)
        tx.vin[0].witness = [b'', sig(d2, dg), sig(d3, dg), ms]
    else:
        redeem = script_p2wsh(hashes.sha256(ms))
        spk = script_p2sh(hashes.hash160(redeem))
        dg = sighash.bip143_sighash(tx, 0, ms, amount, 1)
        tx.vin[0].witness = [b'', sig(d1, dg), sig(d2, dg), ms]
        tx.vin[0].script_sig = wire.script_build([redeem])
    ok, why = interp.verify_input(tx, 0, spk, amount)
    check(ok, 'reference spend %s verifies (%s)' % (kind, why))
    # tamper: output value
    tx.vout[0].value += 1
    ok, why = interp.verify_input(tx, 0, spk, amount)
    check(not ok, 'reference spend %s rejects tampered output' % kind)
    tx.vout[0].value -= 1
    if kind not in ('p2pkh', 'p2pk', 'p2sh-ms'):
        ok, why = interp.verify_input(tx, 0, spk, amount + 1)
        check(not ok, 'reference spend %s rejects wrong amount' % kind)


def t_money():
    check(money.text_for(123456789, '') == '1.23456789', 'money text')
    check(money.text_for(100000000, '') == '1', 'money text int')
    check(money.text_for(1, 'm') == '0.00001', 'money m')
    check(money.units_of('20457139967440.33', 'µ') == 2045713996744033, 'money µ')


def main():
    tests = [t_hashes, t_ec, t_base58_bech32, t_bip32, t_bip39, t_bip38, t_wire, t_interp_sighash, t_money]
    for t in tests:
        t()
    print('reference self-tests passed (%d groups)' % len(tests))
    return 0


if __name__ == '__main__':
    try:
        sys.exit(main())
    except AssertionError as e:
        sys.stderr.write('HARNESS-ERROR %s\n' % e)
        sys.exit(2)
