"""Reference Base58 / Base58Check (strict, canonical)."""
from .hashes import dsha256

ALPHABET = '123456789ABCDEFGHJKLMNPQRSTUVWXYZabcdefghijkmnopqrstuvwxyz'
_INDEX = {c: i for i, c in enumerate(ALPHABET)}


def b58encode(b):
    n = int.from_bytes(b, 'big')
    out = ''
    while n:
        n, r = divmod(n, 58)
        out = ALPHABET[r] + out
    pad = len(b) - len(b.lstrip(b'\x00'))
    return '1' * pad + out


def b58decode(s):
    """Canonical decode: every leading '1' is exactly one zero byte. Raises ValueError on bad chars."""
    if not isinstance(s, str):
        raise ValueError('not a string')
    n = 0
    for c in s:
        if c not in _INDEX:
            raise ValueError('invalid base58 character %r' % c)
        n = n * 58 + _INDEX[c]
    pad = len(s) - len(s.lstrip('1'))
    body = n.to_bytes((n.bit_length() + 7) // 8, 'big') if n else b''
    return b'\x00' * pad + body


def check_encode(payload):
    return b58encode(payload + dsha256(payload)[:4])


def check_decode(s):
    """Returns payload (without checksum) or raises ValueError."""
    raw = b58decode(s)
    if len(raw) < 4:
        raise ValueError('too short')
    payload, chk = raw[:-4], raw[-4:]
    if dsha256(payload)[:4] != chk:
        raise ValueError('bad checksum')
    return payload


def is_valid_check(s):
    try:
        check_decode(s)
        return True
    except ValueError:
        return False
