"""Reference signature hashes: legacy SignatureHash and BIP143 (written from interpreter.cpp / BIP143)."""
import struct

from .hashes import dsha256
from .wire import compact_size, var_bytes, script_iter, push_data, OP_PUSHDATA4

SIGHASH_ALL, SIGHASH_NONE, SIGHASH_SINGLE, SIGHASH_ANYONECANPAY = 1, 2, 3, 0x80
OP_CODESEPARATOR = 0xab


def _reserialize(script, drop_codesep=True, delete=None):
    """Rebuild a script op by op, dropping OP_CODESEPARATOR and occurrences of `delete` (a serialised
    push) -- FindAndDelete semantics operate on op boundaries."""
    out = b''
    i = 0
    n = len(script)
    # walk op boundaries manually to keep the exact original encoding of each op
    while i < n:
        start = i
        op = script[i]
        i += 1
        if op <= OP_PUSHDATA4:
            if op < 0x4c:
                size = op
            elif op == 0x4c:
                if i + 1 > n:
                    return out + script[start:]
                size = script[i]
                i += 1
            elif op == 0x4d:
                if i + 2 > n:
                    return out + script[start:]
                size = int.from_bytes(script[i:i + 2], 'little')
                i += 2
            else:
                if i + 4 > n:
                    return out + script[start:]
                size = int.from_bytes(script[i:i + 4], 'little')
                i += 4
            if i + size > n:
                return out + script[start:]
            i += size
        chunk = script[start:i]
        if drop_codesep and op == OP_CODESEPARATOR:
            continue
        if delete is not None and chunk == delete:
            continue
        out += chunk
    return out


def find_and_delete(script, sig):
    return _reserialize(script, drop_codesep=False, delete=push_data(sig))


def legacy_sighash(tx, idx, script_code, hashtype, _append=None):
    """tx: ref.wire.Tx. script_code: the subscript (already after last executed CODESEPARATOR).
    Returns the 32-byte digest. (_append: hash type value written at the end instead of `hashtype` - only used to
    describe a non-consensus digest exactly, never by an oracle.)"""
    if idx >= len(tx.vin):
        return (1).to_bytes(32, 'little')
    script_code = _reserialize(script_code, drop_codesep=True)
    base = hashtype & 0x1f
    if base == SIGHASH_SINGLE and idx >= len(tx.vout):
        return (1).to_bytes(32, 'little')
    anyone = bool(hashtype & SIGHASH_ANYONECANPAY)
    out = struct.pack('<I', tx.version & 0xffffffff)
    ins = [idx] if anyone else list(range(len(tx.vin)))
    out += compact_size(len(ins))
    for j in ins:
        i = tx.vin[j]
        out += i.outpoint()
        out += var_bytes(script_code) if j == idx else b'\x00'
        if j != idx and base in (SIGHASH_NONE, SIGHASH_SINGLE):
            out += struct.pack('<I', 0)
        else:
            out += struct.pack('<I', i.sequence)
    if base == SIGHASH_NONE:
        out += compact_size(0)
    elif base == SIGHASH_SINGLE:
        out += compact_size(idx + 1)
        for j in range(idx):
            out += struct.pack('<q', -1) + b'\x00'
        out += tx.vout[idx].serialize()
    else:
        out += compact_size(len(tx.vout))
        for o in tx.vout:
            out += o.serialize()
    out += struct.pack('<I', tx.locktime)
    out += struct.pack('<I', (hashtype if _append is None else _append) & 0xffffffff)
    return dsha256(out)


def bip143_sighash(tx, idx, script_code, amount, hashtype):
    base = hashtype & 0x1f
    anyone = bool(hashtype & SIGHASH_ANYONECANPAY)
    hash_prevouts = hash_sequence = hash_outputs = b'\x00' * 32
    if not anyone:
        hash_prevouts = dsha256(b''.join(i.outpoint() for i in tx.vin))
    if not anyone and base not in (SIGHASH_SINGLE, SIGHASH_NONE):
        hash_sequence = dsha256(b''.join(struct.pack('<I', i.sequence) for i in tx.vin))
    if base not in (SIGHASH_SINGLE, SIGHASH_NONE):
        hash_outputs = dsha256(b''.join(o.serialize() for o in tx.vout))
    elif base == SIGHASH_SINGLE and idx < len(tx.vout):
        hash_outputs = dsha256(tx.vout[idx].serialize())
    i = tx.vin[idx]
    pre = (struct.pack('<I', tx.version & 0xffffffff) + hash_prevouts + hash_sequence + i.outpoint() +
           var_bytes(script_code) + struct.pack('<q', amount) + struct.pack('<I', i.sequence) + hash_outputs +
           struct.pack('<I', tx.locktime) + struct.pack('<I', hashtype & 0xffffffff))
    return dsha256(pre)
