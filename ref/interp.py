"""Reference script interpreter with *consensus* rules (written from Bitcoin Core interpreter.cpp).

Flags modelled as always on (consensus on today's main chain): P2SH, DERSIG, CLTV, CSV, WITNESS,
NULLDUMMY. Policy-only rules (MINIMALDATA, LOW_S, CLEANSTACK for legacy, ...) are off.
Taproot spends are not modelled (witness v1+ outputs are anyone-can-spend here, as for pre-taproot nodes).
"""
from . import ec
from .hashes import sha256, dsha256, hash160, ripemd160, sha1
from .sighash import legacy_sighash, bip143_sighash, find_and_delete
from .wire import script_iter, script_build, scriptnum_decode, scriptnum_encode

MAX_ELEM = 520
MAX_OPS = 201
MAX_STACK = 1000
MAX_SCRIPT = 10000

OP = dict(
    OP_0=0x00, OP_PUSHDATA1=0x4c, OP_PUSHDATA2=0x4d, OP_PUSHDATA4=0x4e, OP_1NEGATE=0x4f, OP_RESERVED=0x50,
    OP_1=0x51, OP_16=0x60, OP_NOP=0x61, OP_VER=0x62, OP_IF=0x63, OP_NOTIF=0x64, OP_VERIF=0x65, OP_VERNOTIF=0x66,
    OP_ELSE=0x67, OP_ENDIF=0x68, OP_VERIFY=0x69, OP_RETURN=0x6a, OP_TOALTSTACK=0x6b, OP_FROMALTSTACK=0x6c,
    OP_2DROP=0x6d, OP_2DUP=0x6e, OP_3DUP=0x6f, OP_2OVER=0x70, OP_2ROT=0x71, OP_2SWAP=0x72, OP_IFDUP=0x73,
    OP_DEPTH=0x74, OP_DROP=0x75, OP_DUP=0x76, OP_NIP=0x77, OP_OVER=0x78, OP_PICK=0x79, OP_ROLL=0x7a, OP_ROT=0x7b,
    OP_SWAP=0x7c, OP_TUCK=0x7d, OP_CAT=0x7e, OP_SUBSTR=0x7f, OP_LEFT=0x80, OP_RIGHT=0x81, OP_SIZE=0x82,
    OP_INVERT=0x83, OP_AND=0x84, OP_OR=0x85, OP_XOR=0x86, OP_EQUAL=0x87, OP_EQUALVERIFY=0x88, OP_RESERVED1=0x89,
    OP_RESERVED2=0x8a, OP_1ADD=0x8b, OP_1SUB=0x8c, OP_2MUL=0x8d, OP_2DIV=0x8e, OP_NEGATE=0x8f, OP_ABS=0x90,
    OP_NOT=0x91, OP_0NOTEQUAL=0x92, OP_ADD=0x93, OP_SUB=0x94, OP_MUL=0x95, OP_DIV=0x96, OP_MOD=0x97, OP_LSHIFT=0x98,
    OP_RSHIFT=0x99, OP_BOOLAND=0x9a, OP_BOOLOR=0x9b, OP_NUMEQUAL=0x9c, OP_NUMEQUALVERIFY=0x9d,
    OP_NUMNOTEQUAL=0x9e, OP_LESSTHAN=0x9f, OP_GREATERTHAN=0xa0, OP_LESSTHANOREQUAL=0xa1,
    OP_GREATERTHANOREQUAL=0xa2, OP_MIN=0xa3, OP_MAX=0xa4, OP_WITHIN=0xa5, OP_RIPEMD160=0xa6, OP_SHA1=0xa7,
    OP_SHA256=0xa8, OP_HASH160=0xa9, OP_HASH256=0xaa, OP_CODESEPARATOR=0xab, OP_CHECKSIG=0xac,
    OP_CHECKSIGVERIFY=0xad, OP_CHECKMULTISIG=0xae, OP_CHECKMULTISIGVERIFY=0xaf, OP_NOP1=0xb0,
    OP_CHECKLOCKTIMEVERIFY=0xb1, OP_CHECKSEQUENCEVERIFY=0xb2, OP_NOP4=0xb3, OP_NOP10=0xb9)
for _i in range(2, 16):
    OP['OP_%d' % _i] = 0x50 + _i
globals().update(OP)
NAMES = {v: k for k, v in OP.items()}

DISABLED = {OP_CAT, OP_SUBSTR, OP_LEFT, OP_RIGHT, OP_INVERT, OP_AND, OP_OR, OP_XOR, OP_2MUL, OP_2DIV, OP_MUL,
            OP_DIV, OP_MOD, OP_LSHIFT, OP_RSHIFT}

SIGVERSION_BASE, SIGVERSION_WITNESS_V0 = 0, 1
LOCKTIME_THRESHOLD = 500000000
SEQ_DISABLE = 1 << 31
SEQ_TYPE = 1 << 22
SEQ_MASK = 0xffff


class ScriptFail(Exception):
    pass


def cast_to_bool(b):
    for i, c in enumerate(b):
        if c != 0:
            if i == len(b) - 1 and c == 0x80:
                return False
            return True
    return False


def _num(b, max_size=4):
    if len(b) > max_size:
        raise ScriptFail('script number overflow')
    return scriptnum_decode(b)


def valid_sig_encoding_with_hashtype(sig):
    """BIP66 IsValidSignatureEncoding (incl. hash-type byte)."""
    if len(sig) < 9 or len(sig) > 73:
        return False
    return ec.is_strict_der(sig[:-1])


class BaseChecker(object):
    def check_sig(self, sig, pub, script_code, sigversion):
        return False

    def check_locktime(self, n):
        return False

    def check_sequence(self, n):
        return False


class DigestChecker(BaseChecker):
    """Checks signatures against a fixed 32-byte digest (what Script.evaluate(message=...) is given)."""

    def __init__(self, digest, locktime=None, sequence=None, tx_version=2):
        self.digest = digest
        self.locktime = locktime
        self.sequence = sequence
        self.tx_version = tx_version

    def check_sig(self, sig, pub, script_code, sigversion):
        if not sig:
            return False
        pt = ec.parse_pubkey(pub)
        if pt is None:
            return False
        rs = ec.der_decode_strict(sig[:-1])
        if rs is None:
            return False
        return ec.verify(int.from_bytes(self.digest, 'big'), rs[0], rs[1], pt)


class TxChecker(BaseChecker):
    def __init__(self, tx, idx, amount):
        self.tx = tx
        self.idx = idx
        self.amount = amount

    def check_sig(self, sig, pub, script_code, sigversion):
        if not sig:
            return False
        pt = _parse_pub_consensus(pub)
        if pt is None:
            return False
        hashtype = sig[-1]
        rs = ec.der_decode_strict(sig[:-1])
        if rs is None:
            return False
        if sigversion == SIGVERSION_BASE:
            digest = legacy_sighash(self.tx, self.idx, script_code, hashtype)
        else:
            digest = bip143_sighash(self.tx, self.idx, script_code, self.amount, hashtype)
        return ec.verify(int.from_bytes(digest, 'big'), rs[0], rs[1], pt)

    def check_locktime(self, n):
        tl = self.tx.locktime
        if not ((tl < LOCKTIME_THRESHOLD and n < LOCKTIME_THRESHOLD) or
                (tl >= LOCKTIME_THRESHOLD and n >= LOCKTIME_THRESHOLD)):
            return False
        if n > tl:
            return False
        if self.tx.vin[self.idx].sequence == 0xffffffff:
            return False
        return True

    def check_sequence(self, n):
        seq = self.tx.vin[self.idx].sequence
        if (self.tx.version & 0xffffffff) < 2:
            return False
        if seq & SEQ_DISABLE:
            return False
        mask = SEQ_TYPE | SEQ_MASK
        a = seq & mask
        b = n & mask
        if not ((a < SEQ_TYPE and b < SEQ_TYPE) or (a >= SEQ_TYPE and b >= SEQ_TYPE)):
            return False
        return b <= a


def _parse_pub_consensus(pub):
    pt = ec.parse_pubkey(pub)
    if pt is not None:
        return pt
    # consensus also accepts hybrid encodings (06/07) of valid points
    if len(pub) == 65 and pub[0] in (6, 7):
        x = int.from_bytes(pub[1:33], 'big')
        y = int.from_bytes(pub[33:], 'big')
        if ec.on_curve((x, y)) and (y & 1) == (pub[0] & 1):
            return (x, y)
    return None


def parse_ops(script):
    """-> list of (opcode, data|None); raises ScriptFail for truncated pushes."""
    try:
        return list(script_iter(script))
    except ValueError:
        raise ScriptFail('bad opcode / truncated push')


def eval_script(stack, script, checker, sigversion=SIGVERSION_BASE):
    """Executes `script` (bytes) on `stack` (list of bytes, mutated). Raises ScriptFail on failure."""
    if len(script) > MAX_SCRIPT:
        raise ScriptFail('script size')
    # Core parses lazily: a truncated push only fails when reached. Reproduce by parsing incrementally.
    ops = []
    try:
        for op in script_iter(script):
            ops.append(op + (None,))
        truncated_at = None
    except ValueError:
        truncated_at = len(ops)
    # record byte offsets for OP_CODESEPARATOR handling
    offsets = []
    pos = 0
    for (op, data, _) in ops:
        offsets.append(pos)
        pos += len(script_build([op])) if data is None else _push_len(op, data)
    altstack = []
    vf_exec = []
    n_ops = 0
    codesep_pos = 0   # byte offset where script code begins
    i = 0
    total = len(ops)
    while True:
        if i >= total:
            if truncated_at is not None and i == truncated_at:
                raise ScriptFail('bad opcode (truncated)')
            break
        op, data, _ = ops[i]
        end_off = offsets[i + 1] if i + 1 < total else (len(script) if truncated_at is None else None)
        i += 1
        f_exec = all(vf_exec)
        if data is not None and len(data) > MAX_ELEM:
            raise ScriptFail('push size')
        if op > OP_16:
            n_ops += 1
            if n_ops > MAX_OPS:
                raise ScriptFail('op count')
        if op in DISABLED:
            raise ScriptFail('disabled opcode')
        if f_exec and data is not None:
            stack.append(data)
        elif f_exec or (OP_IF <= op <= OP_ENDIF):
            if op == OP_1NEGATE or OP_1 <= op <= OP_16:
                stack.append(scriptnum_encode(op - (OP_1 - 1)))
            elif op == OP_NOP:
                pass
            elif op == OP_CHECKLOCKTIMEVERIFY:
                if len(stack) < 1:
                    raise ScriptFail('stack')
                n = _num(stack[-1], 5)
                if n < 0:
                    raise ScriptFail('negative locktime')
                if not checker.check_locktime(n):
                    raise ScriptFail('unsatisfied locktime')
            elif op == OP_CHECKSEQUENCEVERIFY:
                if len(stack) < 1:
                    raise ScriptFail('stack')
                n = _num(stack[-1], 5)
                if n < 0:
                    raise ScriptFail('negative sequence')
                if not (n & SEQ_DISABLE):
                    if not checker.check_sequence(n):
                        raise ScriptFail('unsatisfied sequence')
            elif op in (OP_NOP1, 0xb3, 0xb4, 0xb5, 0xb6, 0xb7, 0xb8, 0xb9):
                pass
            elif op in (OP_IF, OP_NOTIF):
                val = False
                if f_exec:
                    if len(stack) < 1:
                        raise ScriptFail('unbalanced conditional')
                    v = stack.pop()
                    val = cast_to_bool(v)
                    if op == OP_NOTIF:
                        val = not val
                vf_exec.append(val)
            elif op == OP_ELSE:
                if not vf_exec:
                    raise ScriptFail('unbalanced conditional')
                vf_exec[-1] = not vf_exec[-1]
            elif op == OP_ENDIF:
                if not vf_exec:
                    raise ScriptFail('unbalanced conditional')
                vf_exec.pop()
            elif op == OP_VERIFY:
                if len(stack) < 1:
                    raise ScriptFail('stack')
                if not cast_to_bool(stack[-1]):
                    raise ScriptFail('verify')
                stack.pop()
            elif op == OP_RETURN:
                raise ScriptFail('op_return')
            elif op == OP_TOALTSTACK:
                if len(stack) < 1:
                    raise ScriptFail('stack')
                altstack.append(stack.pop())
            elif op == OP_FROMALTSTACK:
                if len(altstack) < 1:
                    raise ScriptFail('altstack')
                stack.append(altstack.pop())
            elif op == OP_2DROP:
                if len(stack) < 2:
                    raise ScriptFail('stack')
                stack.pop()
                stack.pop()
            elif op == OP_2DUP:
                if len(stack) < 2:
                    raise ScriptFail('stack')
                stack.extend([stack[-2], stack[-1]])
            elif op == OP_3DUP:
                if len(stack) < 3:
                    raise ScriptFail('stack')
                stack.extend([stack[-3], stack[-2], stack[-1]])
            elif op == OP_2OVER:
                if len(stack) < 4:
                    raise ScriptFail('stack')
                stack.extend([stack[-4], stack[-3]])
            elif op == OP_2ROT:
                if len(stack) < 6:
                    raise ScriptFail('stack')
                a, b = stack[-6], stack[-5]
                del stack[-6:-4]
                stack.extend([a, b])
            elif op == OP_2SWAP:
                if len(stack) < 4:
                    raise ScriptFail('stack')
                stack[-4], stack[-3], stack[-2], stack[-1] = stack[-2], stack[-1], stack[-4], stack[-3]
            elif op == OP_IFDUP:
                if len(stack) < 1:
                    raise ScriptFail('stack')
                if cast_to_bool(stack[-1]):
                    stack.append(stack[-1])
            elif op == OP_DEPTH:
                stack.append(scriptnum_encode(len(stack)))
            elif op == OP_DROP:
                if len(stack) < 1:
                    raise ScriptFail('stack')
                stack.pop()
            elif op == OP_DUP:
                if len(stack) < 1:
                    raise ScriptFail('stack')
                stack.append(stack[-1])
            elif op == OP_NIP:
                if len(stack) < 2:
                    raise ScriptFail('stack')
                del stack[-2]
            elif op == OP_OVER:
                if len(stack) < 2:
                    raise ScriptFail('stack')
                stack.append(stack[-2])
            elif op in (OP_PICK, OP_ROLL):
                if len(stack) < 2:
                    raise ScriptFail('stack')
                n = _num(stack[-1])
                stack.pop()
                if n < 0 or n >= len(stack):
                    raise ScriptFail('stack')
                v = stack[-n - 1]
                if op == OP_ROLL:
                    del stack[-n - 1]
                stack.append(v)
            elif op == OP_ROT:
                if len(stack) < 3:
                    raise ScriptFail('stack')
                stack[-3], stack[-2], stack[-1] = stack[-2], stack[-1], stack[-3]
            elif op == OP_SWAP:
                if len(stack) < 2:
                    raise ScriptFail('stack')
                stack[-2], stack[-1] = stack[-1], stack[-2]
            elif op == OP_TUCK:
                if len(stack) < 2:
                    raise ScriptFail('stack')
                stack.insert(-2, stack[-1])
            elif op == OP_SIZE:
                if len(stack) < 1:
                    raise ScriptFail('stack')
                stack.append(scriptnum_encode(len(stack[-1])))
            elif op in (OP_EQUAL, OP_EQUALVERIFY):
                if len(stack) < 2:
                    raise ScriptFail('stack')
                b = stack.pop()
                a = stack.pop()
                eq = a == b
                stack.append(b'\x01' if eq else b'')
                if op == OP_EQUALVERIFY:
                    if eq:
                        stack.pop()
                    else:
                        raise ScriptFail('equalverify')
            elif op in (OP_1ADD, OP_1SUB, OP_NEGATE, OP_ABS, OP_NOT, OP_0NOTEQUAL):
                if len(stack) < 1:
                    raise ScriptFail('stack')
                n = _num(stack[-1])
                if op == OP_1ADD:
                    n += 1
                elif op == OP_1SUB:
                    n -= 1
                elif op == OP_NEGATE:
                    n = -n
                elif op == OP_ABS:
                    n = abs(n)
                elif op == OP_NOT:
                    n = int(n == 0)
                else:
                    n = int(n != 0)
                stack.pop()
                stack.append(scriptnum_encode(n))
            elif op in (OP_ADD, OP_SUB, OP_BOOLAND, OP_BOOLOR, OP_NUMEQUAL, OP_NUMEQUALVERIFY, OP_NUMNOTEQUAL,
                        OP_LESSTHAN, OP_GREATERTHAN, OP_LESSTHANOREQUAL, OP_GREATERTHANOREQUAL, OP_MIN, OP_MAX):
                if len(stack) < 2:
                    raise ScriptFail('stack')
                a = _num(stack[-2])
                b = _num(stack[-1])
                if op == OP_ADD:
                    r = a + b
                elif op == OP_SUB:
                    r = a - b
                elif op == OP_BOOLAND:
                    r = int(a != 0 and b != 0)
                elif op == OP_BOOLOR:
                    r = int(a != 0 or b != 0)
                elif op in (OP_NUMEQUAL, OP_NUMEQUALVERIFY):
                    r = int(a == b)
                elif op == OP_NUMNOTEQUAL:
                    r = int(a != b)
                elif op == OP_LESSTHAN:
                    r = int(a < b)
                elif op == OP_GREATERTHAN:
                    r = int(a > b)
                elif op == OP_LESSTHANOREQUAL:
                    r = int(a <= b)
                elif op == OP_GREATERTHANOREQUAL:
                    r = int(a >= b)
                elif op == OP_MIN:
                    r = min(a, b)
                else:
                    r = max(a, b)
                stack.pop()
                stack.pop()
                stack.append(scriptnum_encode(r))
                if op == OP_NUMEQUALVERIFY:
                    if cast_to_bool(stack[-1]):
                        stack.pop()
                    else:
                        raise ScriptFail('numequalverify')
            elif op == OP_WITHIN:
                if len(stack) < 3:
                    raise ScriptFail('stack')
                x = _num(stack[-3])
                lo = _num(stack[-2])
                hi = _num(stack[-1])
                del stack[-3:]
                stack.append(b'\x01' if lo <= x < hi else b'')
            elif op in (OP_RIPEMD160, OP_SHA1, OP_SHA256, OP_HASH160, OP_HASH256):
                if len(stack) < 1:
                    raise ScriptFail('stack')
                v = stack.pop()
                f = {OP_RIPEMD160: ripemd160, OP_SHA1: sha1, OP_SHA256: sha256, OP_HASH160: hash160,
                     OP_HASH256: dsha256}[op]
                stack.append(f(v))
            elif op == OP_CODESEPARATOR:
                if end_off is not None:
                    codesep_pos = end_off
            elif op in (OP_CHECKSIG, OP_CHECKSIGVERIFY):
                if len(stack) < 2:
                    raise ScriptFail('stack')
                sig = stack[-2]
                pub = stack[-1]
                script_code = script[codesep_pos:]
                if sigversion == SIGVERSION_BASE:
                    script_code = find_and_delete(script_code, sig)
                if sig and not valid_sig_encoding_with_hashtype(sig):
                    raise ScriptFail('sig der')
                ok = checker.check_sig(sig, pub, script_code, sigversion)
                stack.pop()
                stack.pop()
                stack.append(b'\x01' if ok else b'')
                if op == OP_CHECKSIGVERIFY:
                    if ok:
                        stack.pop()
                    else:
                        raise ScriptFail('checksigverify')
            elif op in (OP_CHECKMULTISIG, OP_CHECKMULTISIGVERIFY):
                k = 1
                if len(stack) < k:
                    raise ScriptFail('stack')
                n_keys = _num(stack[-k])
                if n_keys < 0 or n_keys > 20:
                    raise ScriptFail('pubkey count')
                n_ops += n_keys
                if n_ops > MAX_OPS:
                    raise ScriptFail('op count')
                k += 1
                ikey = k
                k += n_keys
                if len(stack) < k:
                    raise ScriptFail('stack')
                n_sigs = _num(stack[-k])
                if n_sigs < 0 or n_sigs > n_keys:
                    raise ScriptFail('sig count')
                k += 1
                isig = k
                k += n_sigs
                if len(stack) < k:
                    raise ScriptFail('stack')
                script_code = script[codesep_pos:]
                if sigversion == SIGVERSION_BASE:
                    for j in range(n_sigs):
                        script_code = find_and_delete(script_code, stack[-isig - j])
                ok = True
                ns, nk = n_sigs, n_keys
                while ok and ns > 0:
                    sig = stack[-isig]
                    pub = stack[-ikey]
                    if sig and not valid_sig_encoding_with_hashtype(sig):
                        raise ScriptFail('sig der')
                    if checker.check_sig(sig, pub, script_code, sigversion):
                        isig += 1
                        ns -= 1
                    ikey += 1
                    nk -= 1
                    if ns > nk:
                        ok = False
                # pop everything + dummy
                if len(stack) < k:
                    raise ScriptFail('stack')
                dummy = stack[-k]
                if dummy != b'':
                    raise ScriptFail('nulldummy')
                del stack[-k:]
                stack.append(b'\x01' if ok else b'')
                if op == OP_CHECKMULTISIGVERIFY:
                    if ok:
                        stack.pop()
                    else:
                        raise ScriptFail('checkmultisigverify')
            else:
                # OP_RESERVED, OP_VER, OP_VERIF, OP_VERNOTIF, OP_RESERVED1/2, unknown
                raise ScriptFail('bad opcode %#x' % op)
        if len(stack) + len(altstack) > MAX_STACK:
            raise ScriptFail('stack size')
    if vf_exec:
        raise ScriptFail('unbalanced conditional')
    return stack


def _push_len(op, data):
    n = len(data)
    if op < 0x4c:
        return 1 + n
    if op == 0x4c:
        return 2 + n
    if op == 0x4d:
        return 3 + n
    return 5 + n


def eval_items(items, checker=None, initial_stack=None):
    """Evaluate a list of items (int opcode | bytes data) like one script. Returns (ok, final_stack):
    ok is the consensus verdict 'script succeeded and left a true value on top'."""
    checker = checker or BaseChecker()
    stack = list(initial_stack or [])
    script = script_build(items)
    try:
        eval_script(stack, script, checker)
    except ScriptFail as e:
        return False, stack, str(e)
    if not stack:
        return False, stack, 'empty stack'
    if not cast_to_bool(stack[-1]):
        return False, stack, 'false on top'
    return True, stack, ''


def is_p2sh(spk):
    return len(spk) == 23 and spk[0] == 0xa9 and spk[1] == 0x14 and spk[22] == 0x87


def witness_program(spk):
    if len(spk) < 4 or len(spk) > 42:
        return None
    if spk[0] != 0 and not (0x51 <= spk[0] <= 0x60):
        return None
    if spk[1] + 2 != len(spk):
        return None
    return (0 if spk[0] == 0 else spk[0] - 0x50), spk[2:]


def is_push_only(script):
    try:
        for op, data in script_iter(script):
            if op > OP_16:
                return False
        return True
    except ValueError:
        return False


def _verify_witness_program(witness, version, program, checker):
    if version == 0:
        if len(program) == 32:
            if not witness:
                raise ScriptFail('witness program witness empty')
            wscript = witness[-1]
            stack = list(witness[:-1])
            if sha256(wscript) != program:
                raise ScriptFail('witness program mismatch')
        elif len(program) == 20:
            if len(witness) != 2:
                raise ScriptFail('witness program mismatch')
            wscript = b'\x76\xa9\x14' + program + b'\x88\xac'
            stack = list(witness)
        else:
            raise ScriptFail('witness program wrong length')
        for e in stack:
            if len(e) > MAX_ELEM:
                raise ScriptFail('push size')
        eval_script(stack, wscript, checker, SIGVERSION_WITNESS_V0)
        if len(stack) != 1:
            raise ScriptFail('cleanstack')
        if not cast_to_bool(stack[-1]):
            raise ScriptFail('eval false')
    else:
        # future versions / taproot: not modelled -> anyone can spend
        return


def verify_script(script_sig, spk, witness, checker):
    """VerifyScript with consensus flags. Raises ScriptFail or returns None."""
    witness = witness or []
    stack = []
    eval_script(stack, script_sig, checker)
    stack_copy = list(stack)
    eval_script(stack, spk, checker)
    if not stack or not cast_to_bool(stack[-1]):
        raise ScriptFail('eval false')
    had_witness = False
    wp = witness_program(spk)
    if wp is not None:
        had_witness = True
        if script_sig != b'':
            raise ScriptFail('witness malleated')
        _verify_witness_program(witness, wp[0], wp[1], checker)
        stack = stack[:1]
    if is_p2sh(spk):
        if not is_push_only(script_sig):
            raise ScriptFail('sig pushonly')
        stack = stack_copy
        if not stack:
            raise ScriptFail('p2sh empty')
        redeem = stack.pop()
        eval_script(stack, redeem, checker)
        if not stack or not cast_to_bool(stack[-1]):
            raise ScriptFail('eval false')
        wp = witness_program(redeem)
        if wp is not None:
            had_witness = True
            from .wire import push_data
            if script_sig != push_data(redeem):
                raise ScriptFail('witness malleated p2sh')
            _verify_witness_program(witness, wp[0], wp[1], checker)
            stack = stack[:1]
    if not had_witness and witness:
        raise ScriptFail('witness unexpected')


def verify_input(tx, idx, spk, amount):
    """True iff input idx of tx (ref.wire.Tx) validly spends an output with script spk and value amount."""
    try:
        verify_script(tx.vin[idx].script_sig, spk, tx.vin[idx].witness, TxChecker(tx, idx, amount))
        return True, ''
    except ScriptFail as e:
        return False, str(e)
