"""Reference wire formats: CompactSize, CScriptNum, minimal pushes, transactions (BIP144), blocks.

Written from the protocol documentation / Bitcoin Core serialize.h, script.h; imports nothing from
bitcoinlib.
"""
import io
import struct

from .hashes import dsha256

# ---- CompactSize ------------------------------------------------------------------------------


def compact_size(n):
    if n < 0 or n > 0xffffffffffffffff:
        raise ValueError('compact size out of range')
    if n < 253:
        return bytes([n])
    if n <= 0xffff:
        return b'\xfd' + struct.pack('<H', n)
    if n <= 0xffffffff:
        return b'\xfe' + struct.pack('<I', n)
    return b'\xff' + struct.pack('<Q', n)


def read_compact_size(stream):
    b = stream.read(1)
    if len(b) != 1:
        raise ValueError('eof')
    n = b[0]
    if n < 253:
        return n
    size = {253: 2, 254: 4, 255: 8}[n]
    d = stream.read(size)
    if len(d) != size:
        raise ValueError('eof')
    return int.from_bytes(d, 'little')


def compact_size_len(n):
    return len(compact_size(n))


def var_bytes(b):
    return compact_size(len(b)) + b


def read_var_bytes(stream):
    n = read_compact_size(stream)
    d = stream.read(n)
    if len(d) != n:
        raise ValueError('eof')
    return d


# ---- CScriptNum -------------------------------------------------------------------------------

def scriptnum_encode(v):
    if v == 0:
        return b''
    neg = v < 0
    a = abs(v)
    out = bytearray()
    while a:
        out.append(a & 0xff)
        a >>= 8
    if out[-1] & 0x80:
        out.append(0x80 if neg else 0x00)
    elif neg:
        out[-1] |= 0x80
    return bytes(out)


def scriptnum_decode(b):
    """CScriptNum::set_vch (no size limit / minimality check here)."""
    if len(b) == 0:
        return 0
    v = int.from_bytes(b, 'little')
    if b[-1] & 0x80:
        return -(v & ~(0x80 << (8 * (len(b) - 1))))
    return v


def scriptnum_is_minimal(b):
    if len(b) == 0:
        return True
    if b[-1] & 0x7f == 0:
        if len(b) <= 1 or (b[-2] & 0x80) == 0:
            return False
    return True


# ---- pushes -----------------------------------------------------------------------------------

OP_PUSHDATA1, OP_PUSHDATA2, OP_PUSHDATA4 = 0x4c, 0x4d, 0x4e


def push_data(d):
    """Length-prefix push in the shortest push opcode form (no OP_n substitution)."""
    n = len(d)
    if n <= 75:
        return bytes([n]) + d
    if n <= 0xff:
        return bytes([OP_PUSHDATA1, n]) + d
    if n <= 0xffff:
        return bytes([OP_PUSHDATA2]) + struct.pack('<H', n) + d
    return bytes([OP_PUSHDATA4]) + struct.pack('<I', n) + d


def script_build(items):
    """items: ints (opcodes) or bytes (data, pushed with the shortest length-prefix form)."""
    out = b''
    for it in items:
        if isinstance(it, int):
            out += bytes([it])
        else:
            out += push_data(it)
    return out


def script_iter(script):
    """Yield (opcode, data or None) like CScript::GetOp; raises ValueError on truncated pushes."""
    i = 0
    n = len(script)
    while i < n:
        op = script[i]
        i += 1
        if op <= OP_PUSHDATA4:
            if op < OP_PUSHDATA1:
                size = op
            elif op == OP_PUSHDATA1:
                if i + 1 > n:
                    raise ValueError('truncated')
                size = script[i]
                i += 1
            elif op == OP_PUSHDATA2:
                if i + 2 > n:
                    raise ValueError('truncated')
                size = int.from_bytes(script[i:i + 2], 'little')
                i += 2
            else:
                if i + 4 > n:
                    raise ValueError('truncated')
                size = int.from_bytes(script[i:i + 4], 'little')
                i += 4
            if i + size > n:
                raise ValueError('truncated')
            yield op, script[i:i + size]
            i += size
        else:
            yield op, None


def script_is_push_wellformed(script):
    try:
        for _ in script_iter(script):
            pass
        return True
    except ValueError:
        return False


# ---- transactions -----------------------------------------------------------------------------

class TxIn(object):
    def __init__(self, prev_hash, prev_n, script_sig=b'', sequence=0xffffffff, witness=None):
        self.prev_hash = prev_hash        # 32 bytes as serialised (internal byte order)
        self.prev_n = prev_n
        self.script_sig = script_sig
        self.sequence = sequence
        self.witness = list(witness) if witness else []

    def outpoint(self):
        return self.prev_hash + struct.pack('<I', self.prev_n)


class TxOut(object):
    def __init__(self, value, script):
        self.value = value
        self.script = script

    def serialize(self):
        return struct.pack('<q', self.value) + var_bytes(self.script)


class Tx(object):
    def __init__(self, version=1, vin=None, vout=None, locktime=0):
        self.version = version
        self.vin = vin or []
        self.vout = vout or []
        self.locktime = locktime

    def has_witness(self):
        return any(i.witness for i in self.vin)

    def serialize(self, with_witness=True, force_witness=False):
        w = (with_witness and self.has_witness()) or force_witness
        out = struct.pack('<I', self.version & 0xffffffff)
        if w:
            out += b'\x00\x01'
        out += compact_size(len(self.vin))
        for i in self.vin:
            out += i.outpoint() + var_bytes(i.script_sig) + struct.pack('<I', i.sequence)
        out += compact_size(len(self.vout))
        for o in self.vout:
            out += o.serialize()
        if w:
            for i in self.vin:
                out += compact_size(len(i.witness))
                for item in i.witness:
                    out += var_bytes(item)
        out += struct.pack('<I', self.locktime)
        return out

    def txid(self):
        return dsha256(self.serialize(with_witness=False))[::-1]

    def wtxid(self):
        return dsha256(self.serialize())[::-1]

    @classmethod
    def read(cls, stream):
        def rd(n):
            d = stream.read(n)
            if len(d) != n:
                raise ValueError('eof')
            return d
        version = struct.unpack('<I', rd(4))[0]
        n_in = read_compact_size(stream)
        flag = 0
        if n_in == 0:
            flag = rd(1)[0]
            if flag != 1:
                raise ValueError('bad segwit flag')
            n_in = read_compact_size(stream)
        vin = []
        for _ in range(n_in):
            h = rd(32)
            n = struct.unpack('<I', rd(4))[0]
            ss = read_var_bytes(stream)
            seq = struct.unpack('<I', rd(4))[0]
            vin.append(TxIn(h, n, ss, seq))
        n_out = read_compact_size(stream)
        vout = []
        for _ in range(n_out):
            v = struct.unpack('<q', rd(8))[0]
            s = read_var_bytes(stream)
            vout.append(TxOut(v, s))
        if flag:
            for i in vin:
                cnt = read_compact_size(stream)
                i.witness = [read_var_bytes(stream) for _ in range(cnt)]
        locktime = struct.unpack('<I', rd(4))[0]
        t = cls(version, vin, vout, locktime)
        t.segwit_flag = bool(flag)
        return t

    @classmethod
    def parse(cls, raw):
        s = io.BytesIO(raw)
        t = cls.read(s)
        if s.read(1):
            raise ValueError('trailing bytes')
        return t

    def vsize(self):
        base = len(self.serialize(with_witness=False))
        total = len(self.serialize())
        weight = base * 3 + total
        return (weight + 3) // 4


# ---- blocks -----------------------------------------------------------------------------------

def merkle_root(txids_internal):
    """txids in internal byte order (as hashed); returns root in internal byte order."""
    if not txids_internal:
        return b'\x00' * 32
    layer = list(txids_internal)
    while len(layer) > 1:
        if len(layer) % 2:
            layer.append(layer[-1])
        layer = [dsha256(layer[i] + layer[i + 1]) for i in range(0, len(layer), 2)]
    return layer[0]


def set_compact(bits):
    """arith_uint256::SetCompact -> (target, negative, overflow)."""
    size = bits >> 24
    word = bits & 0x007fffff
    if size <= 3:
        word >>= 8 * (3 - size)
        target = word
    else:
        target = word << (8 * (size - 3))
    negative = word != 0 and (bits & 0x00800000) != 0
    overflow = word != 0 and ((size > 34) or (word > 0xff and size > 33) or (word > 0xffff and size > 32))
    return target, negative, overflow


class BlockHeader(object):
    def __init__(self, version, prev_hash, merkle, time, bits, nonce):
        self.version = version
        self.prev_hash = prev_hash    # internal order (as serialised)
        self.merkle = merkle          # internal order
        self.time = time
        self.bits = bits
        self.nonce = nonce

    def serialize(self):
        return (struct.pack('<I', self.version & 0xffffffff) + self.prev_hash + self.merkle +
                struct.pack('<III', self.time, self.bits, self.nonce))

    def hash(self):
        return dsha256(self.serialize())[::-1]


def block_serialize(header, txs):
    return header.serialize() + compact_size(len(txs)) + b''.join(t.serialize() for t in txs)
