"""Reference Bech32 / Bech32m, transcribed from the BIP173 / BIP350 reference implementation."""
CHARSET = "qpzry9x8gf2tvdw0s3jn54khce6mua7l"
BECH32_CONST = 1
BECH32M_CONST = 0x2bc830a3


def polymod(values):
    gen = [0x3b6a57b2, 0x26508e6d, 0x1ea119fa, 0x3d4233dd, 0x2a1462b3]
    chk = 1
    for v in values:
        b = chk >> 25
        chk = (chk & 0x1ffffff) << 5 ^ v
        for i in range(5):
            chk ^= gen[i] if ((b >> i) & 1) else 0
    return chk


def hrp_expand(hrp):
    return [ord(x) >> 5 for x in hrp] + [0] + [ord(x) & 31 for x in hrp]


def create_checksum(hrp, data, const):
    values = hrp_expand(hrp) + data
    pm = polymod(values + [0, 0, 0, 0, 0, 0]) ^ const
    return [(pm >> 5 * (5 - i)) & 31 for i in range(6)]


def bech32_encode(hrp, data, const):
    combined = data + create_checksum(hrp, data, const)
    return hrp + '1' + ''.join(CHARSET[d] for d in combined)


def bech32_decode(bech):
    """Returns (hrp, data, const) or (None, None, None). BIP173 rules incl. the 90-char limit."""
    if not isinstance(bech, str):
        return None, None, None
    if any(ord(x) < 33 or ord(x) > 126 for x in bech) or (bech.lower() != bech and bech.upper() != bech):
        return None, None, None
    bech = bech.lower()
    pos = bech.rfind('1')
    if pos < 1 or pos + 7 > len(bech) or len(bech) > 90:
        return None, None, None
    if not all(x in CHARSET for x in bech[pos + 1:]):
        return None, None, None
    hrp = bech[:pos]
    data = [CHARSET.find(x) for x in bech[pos + 1:]]
    const = polymod(hrp_expand(hrp) + data)
    if const not in (BECH32_CONST, BECH32M_CONST):
        return None, None, None
    return hrp, data[:-6], const


def convertbits(data, frombits, tobits, pad=True):
    acc = 0
    bits = 0
    ret = []
    maxv = (1 << tobits) - 1
    max_acc = (1 << (frombits + tobits - 1)) - 1
    for value in data:
        if value < 0 or (value >> frombits):
            return None
        acc = ((acc << frombits) | value) & max_acc
        bits += frombits
        while bits >= tobits:
            bits -= tobits
            ret.append((acc >> bits) & maxv)
    if pad:
        if bits:
            ret.append((acc << (tobits - bits)) & maxv)
    elif bits >= frombits or ((acc << (tobits - bits)) & maxv):
        return None
    return ret


def segwit_decode(hrp, addr):
    """Returns (witver, program bytes) or (None, None) -- BIP173/BIP350 segwit address rules."""
    hrpgot, data, const = bech32_decode(addr)
    if hrpgot is None or hrpgot != hrp.lower():
        return None, None
    if not data:
        return None, None
    decoded = convertbits(data[1:], 5, 8, False)
    if decoded is None or len(decoded) < 2 or len(decoded) > 40:
        return None, None
    if data[0] > 16:
        return None, None
    if data[0] == 0 and len(decoded) not in (20, 32):
        return None, None
    if (data[0] == 0 and const != BECH32_CONST) or (data[0] != 0 and const != BECH32M_CONST):
        return None, None
    return data[0], bytes(decoded)


def segwit_encode(hrp, witver, witprog):
    const = BECH32_CONST if witver == 0 else BECH32M_CONST
    ret = bech32_encode(hrp, [witver] + convertbits(list(witprog), 8, 5), const)
    return ret


def segwit_encode_raw(hrp, witver, witprog, const):
    """Encode with an arbitrary checksum constant (for negative tests)."""
    return bech32_encode(hrp, [witver] + convertbits(list(witprog), 8, 5), const)
