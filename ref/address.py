"""Reference address encoders, standard script templates and the pinned network table."""
import json
import os

from . import base58, bech32
from .hashes import hash160, sha256

_PIN = os.path.join(os.path.dirname(os.path.abspath(__file__)), 'networks_pinned.json')
with open(_PIN) as _f:
    NETWORKS = json.load(_f)
NETWORK_NAMES = list(NETWORKS.keys())


def net(name):
    return NETWORKS[name]


def prefix_p2pkh(name):
    return bytes.fromhex(NETWORKS[name]['prefix_address'])


def prefix_p2sh(name):
    return bytes.fromhex(NETWORKS[name]['prefix_address_p2sh'])


def prefix_wif(name):
    return bytes.fromhex(NETWORKS[name]['prefix_wif'])


def hrp(name):
    return NETWORKS[name]['prefix_bech32']


def xkey_versions(name):
    """list of dicts: version(bytes), text, private(bool), multisig(bool), witness_type, script_type"""
    out = []
    for v, text, kind, multisig, wt, st in NETWORKS[name]['prefixes_wif']:
        out.append({'version': bytes.fromhex(v), 'text': text, 'private': kind == 'private',
                    'multisig': multisig, 'witness_type': wt, 'script_type': st})
    return out


def xkey_version(name, private, witness_type='legacy', multisig=False):
    for e in xkey_versions(name):
        if e['private'] == private and e['witness_type'] == witness_type and e['multisig'] == multisig:
            return e['version']
    return None


# ---- scripts ------------------------------------------------------------------------------------

def script_p2pkh(h):
    return b'\x76\xa9\x14' + h + b'\x88\xac'


def script_p2sh(h):
    return b'\xa9\x14' + h + b'\x87'


def script_witness(version, program):
    op = 0 if version == 0 else 0x50 + version
    return bytes([op, len(program)]) + program


def script_p2wpkh(h):
    return script_witness(0, h)


def script_p2wsh(h):
    return script_witness(0, h)


def script_p2tr(x):
    return script_witness(1, x)


def script_p2pk(pub):
    return bytes([len(pub)]) + pub + b'\xac'


def script_multisig(m, pubs):
    out = bytes([0x50 + m])
    for p in pubs:
        out += bytes([len(p)]) + p
    return out + bytes([0x50 + len(pubs), 0xae])


def script_for(kind, payload):
    return {'p2pkh': script_p2pkh, 'p2sh': script_p2sh, 'p2wpkh': script_p2wpkh, 'p2wsh': script_p2wsh,
            'p2tr': script_p2tr}[kind](payload)


# ---- addresses ----------------------------------------------------------------------------------

def addr_p2pkh(h, network):
    return base58.check_encode(prefix_p2pkh(network) + h)


def addr_p2sh(h, network):
    return base58.check_encode(prefix_p2sh(network) + h)


def addr_witness(version, program, network):
    return bech32.segwit_encode(hrp(network), version, program)


def address_for(kind, payload, network):
    if kind == 'p2pkh':
        return addr_p2pkh(payload, network)
    if kind == 'p2sh':
        return addr_p2sh(payload, network)
    if kind in ('p2wpkh', 'p2wsh'):
        return addr_witness(0, payload, network)
    if kind == 'p2tr':
        return addr_witness(1, payload, network)
    raise ValueError(kind)


def key_address(pub_bytes, network, kind):
    """Address of a single public key: p2pkh | p2sh_p2wpkh | p2wpkh."""
    h = hash160(pub_bytes)
    if kind == 'p2pkh':
        return addr_p2pkh(h, network)
    if kind == 'p2wpkh':
        return addr_witness(0, h, network)
    if kind == 'p2sh_p2wpkh':
        return addr_p2sh(hash160(script_p2wpkh(h)), network)
    raise ValueError(kind)


def script_address(script, network, kind):
    """Address of a redeem/witness script: p2sh | p2wsh | p2sh_p2wsh."""
    if kind == 'p2sh':
        return addr_p2sh(hash160(script), network)
    if kind == 'p2wsh':
        return addr_witness(0, sha256(script), network)
    if kind == 'p2sh_p2wsh':
        return addr_p2sh(hash160(script_p2wsh(sha256(script))), network)
    raise ValueError(kind)


def wif(secret, network, compressed=True):
    payload = prefix_wif(network) + secret.to_bytes(32, 'big') + (b'\x01' if compressed else b'')
    return base58.check_encode(payload)


def decode_base58_address(addr):
    """-> (prefix byte(s), 20-byte hash); assumes single-byte prefixes as in the pinned table."""
    payload = base58.check_decode(addr)
    if len(payload) != 21:
        raise ValueError('bad length')
    return payload[:1], payload[1:]


def networks_with_base58_prefix(prefix):
    """-> list of (network, 'p2pkh'|'p2sh')"""
    out = []
    for n in NETWORK_NAMES:
        if prefix_p2pkh(n) == prefix:
            out.append((n, 'p2pkh'))
        if prefix_p2sh(n) == prefix:
            out.append((n, 'p2sh'))
    return out


def networks_with_hrp(h):
    return [n for n in NETWORK_NAMES if hrp(n) == h]
