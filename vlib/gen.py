"""Shared Hypothesis strategies (all randomness of a check flows through these)."""
from hypothesis import strategies as st

from ref import ec
from ref.address import NETWORK_NAMES

N = ec.N
P = ec.P


def secrets():
    """Valid secp256k1 secrets, biased to boundary classes."""
    return st.one_of(
        st.integers(1, N - 1),
        st.integers(1, 1000),
        st.integers(1, 1000).map(lambda k: N - k),
        st.integers(0, 255).map(lambda b: 1 << b).filter(lambda v: 1 <= v < N),
        st.lists(st.integers(0, 255), min_size=1, max_size=4, unique=True).map(
            lambda bits: sum(1 << b for b in bits)).filter(lambda v: 1 <= v < N),
        st.integers(1, (1 << 200) - 1),                      # leading zero bytes
        st.integers(0, (1 << 64) - 1).map(lambda v: (N - 1) ^ v).filter(lambda v: 1 <= v < N),
        # last / first byte values that flag bytes and prefixes use (01 = "compressed" suffix of WIF payloads,
        # 00, 80 = WIF version, 02/03/04 = public key prefixes)
        st.tuples(st.integers(1, (N >> 8) - 1), st.sampled_from([0x01, 0x01, 0x00, 0x80])).map(lambda t: t[0] << 8 | t[1]),
        st.tuples(st.integers(0, (1 << 248) - 1), st.sampled_from([0x01, 0x02, 0x03, 0x04, 0x80])).map(
            lambda t: t[1] << 248 | t[0]).filter(lambda v: 1 <= v < N),
    )


def secret_class(d):
    if d <= 1000:
        return 'small'
    if d >= N - 1000:
        return 'near_n'
    if d < (1 << 248):
        return 'leading_zero_bytes'
    if bin(d).count('1') <= 4:
        return 'sparse'
    return 'uniform'


def non_secrets():
    """Scalars that are not private keys: 0 is excluded on purpose (falsy argument = 'generate a key')."""
    return st.one_of(st.just(N), st.integers(1, 1000).map(lambda k: N + k), st.just((1 << 256) - 1),
                     st.integers(N, (1 << 256) - 1))


def networks():
    return st.sampled_from(NETWORK_NAMES)


def hexbytes(min_size=0, max_size=None):
    return st.binary(min_size=min_size, max_size=max_size).map(bytes.hex)


def digests():
    return st.one_of(
        st.binary(min_size=32, max_size=32),
        st.sampled_from([bytes(32), bytes(31) + b'\x01', b'\xff' * 32, (N - 1).to_bytes(32, 'big'),
                         N.to_bytes(32, 'big'), (N + 1).to_bytes(32, 'big')]),
        st.binary(min_size=1, max_size=8).map(lambda b: bytes(32 - len(b)) + b),
    )


def u32_boundary():
    return st.one_of(st.sampled_from([0, 1, 0xfffe, 0xffff, 0x10000, 0x7fffffff, 0x80000000, 0xfffffffd,
                                      0xfffffffe, 0xffffffff]), st.integers(0, 0xffffffff))
