"""Known findings: read-only at run time.

known_findings.json = {"findings": [ {"property": "C19", "id": "...", "status": "open"|"fixed",
                                       "what": "...", "trigger": "...", "commit": "..."} ]}
Only entries with status "open" suppress anything; "fixed" entries are a log.
"""
import json
import os

_PATH = os.path.join(os.path.dirname(os.path.dirname(os.path.abspath(__file__))), 'known_findings.json')


def load_all():
    if not os.path.exists(_PATH):
        return []
    with open(_PATH) as f:
        return json.load(f).get('findings', [])


def load_findings(prop_id):
    return {e['id']: e for e in load_all() if e.get('property') == prop_id and e.get('status') == 'open'}
