"""Known findings: read-only at run time.

known_findings.json = {"findings": [ {"property": "C19", "id": "...", "status": "open"|"fixed",
                                       "what": "...", "trigger": "...", "commit": "..."} ]}
Only entries with status "open" suppress anything; "fixed" entries are a log.
"""
import json
import os

_PATH = os.path.join(os.path.dirname(os.path.dirname(os.path.abspath(__file__))), 'known_findings.json')


def load_all():
    if not os.path.exists(_PATH):
        return []
    with open(_PATH) as f:
        return json.load(f).get('findings', [])


def load_findings(prop_id):
    return {e['id']: e for e in load_all() if e.get('property') == prop_id and e.get('status') == 'open'}


_base_load_findings = load_findings


def load_findings(prop_id):  # noqa: F811
    """VERIF_EXTRA_FINDINGS=id1,id2 (development aid only, never set by registered commands) treats the
    given ids as open findings so that the search continues behind a not-yet-triaged defect."""
    out = _base_load_findings(prop_id)
    extra = os.environ.get('VERIF_EXTRA_FINDINGS', '')
    for fid in [x.strip() for x in extra.split(',') if x.strip()]:
        if fid.startswith(prop_id):
            out.setdefault(fid, {'id': fid, 'property': prop_id, 'status': 'open', 'what': 'development'})
    # VERIF_DROP_FINDINGS=id1,id2 (development aid only): treat the given open findings as closed, to see whether a
    # candidate repair of the library really removes every case their predicates match
    for fid in [x.strip() for x in os.environ.get('VERIF_DROP_FINDINGS', '').split(',') if x.strip()]:
        out.pop(fid, None)
    return out
