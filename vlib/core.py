"""Core types shared by the runner and the property modules."""
import hashlib
import json
import time

MAX_SAMPLES = 12


class Discrepancy(Exception):
    """The oracle and the library disagree on a case (not a harness error)."""

    def __init__(self, bucket, message, case):
        Exception.__init__(self, '%s: %s' % (bucket, message))
        self.bucket = bucket
        self.message = message
        self.case = case


class HarnessError(Exception):
    pass


def h64(obj):
    if not isinstance(obj, (bytes, bytearray)):
        obj = json.dumps(obj, sort_keys=True, default=str).encode()
    return hashlib.blake2b(obj, digest_size=8).digest()


class Ctx(object):
    """Per-shard context handed to a property module's run(ctx)."""

    def __init__(self, prop_id, tier, shard, nshards, base_seed, findings, deadline):
        self.prop_id = prop_id
        self.tier = tier
        self.shard = shard
        self.nshards = nshards
        self.base_seed = base_seed
        self.findings = findings          # {finding_id: entry} open known findings for this property
        self.deadline = deadline
        self.evaluations = 0
        self.nontrivial = set()
        self.classes = {}
        self.samples = []
        self.violations = {}              # bucket -> dict(case, message)
        self.known_hits = {}
        self.excluded = {}
        self.refusals = {}
        self.probes = {}                  # finding_id -> (reproduces, what)
        self.notes = {}
        self.budget_exhausted = False
        self.exhaustive_parts = {}
        self.suppressed = set()
        self.fallback_samples = []

    # ---- seeds -------------------------------------------------------------------------------
    def seed_for(self, name):
        d = hashlib.sha256(('%d|%s|%d|%s' % (self.base_seed, self.prop_id, self.shard, name)).encode()).digest()
        return int.from_bytes(d[:8], 'big')

    def thorough(self):
        return self.tier == 'thorough'

    def scale(self, quick, thorough):
        return thorough if self.tier == 'thorough' else quick

    def time_left(self):
        return self.deadline - time.time()

    def out_of_time(self):
        if time.time() > self.deadline:
            self.budget_exhausted = True
            return True
        return False

    # ---- counters ----------------------------------------------------------------------------
    def count(self, n=1):
        self.evaluations += n

    def nt(self, key):
        self.nontrivial.add(h64(key))

    def klass(self, name, n=1):
        self.classes[name] = self.classes.get(name, 0) + n

    def exclude(self, name, n=1):
        self.excluded[name] = self.excluded.get(name, 0) + n

    def refusal(self, name, n=1):
        self.refusals[name] = self.refusals.get(name, 0) + n

    def sample(self, case, force=False):
        if len(self.samples) < MAX_SAMPLES or force:
            self.samples.append(case)

    def note(self, key, value):
        self.notes[key] = value

    def exhaustive(self, part, done=True):
        self.exhaustive_parts[part] = bool(done)

    # ---- findings ----------------------------------------------------------------------------
    def known_active(self, fid):
        return fid in self.findings

    def disc(self, bucket, message, case, kf=None):
        """Report a discrepancy. If it falls under the predicate of an *open* known finding `kf`
        it is counted and the case goes on; otherwise Discrepancy is raised."""
        if kf is not None and kf in self.findings:
            self.known_hits[kf] = self.known_hits.get(kf, 0) + 1
            return
        raise Discrepancy(bucket, message, case)

    def violation(self, bucket, message, case):
        if bucket not in self.violations:
            self.violations[bucket] = {'case': case, 'message': message}

    def probe(self, fid, reproduces, what):
        self.probes[fid] = (bool(reproduces), what)

    def guard(self, fn, case, bucket_prefix='direct'):
        """Run fn(case) outside Hypothesis; a Discrepancy becomes a recorded violation (first per bucket)."""
        self.evaluations += 1
        if len(self.fallback_samples) < 2:
            self.fallback_samples.append(case)
        try:
            fn(case)
            return True
        except Discrepancy as d:
            if d.bucket not in self.suppressed:
                self.violation(d.bucket, d.message, d.case)
            return False

    # ---- hypothesis driver -------------------------------------------------------------------
    def run_given(self, name, strategy, prop_fn, max_examples, shrink=None, max_buckets=12, stateful=None):
        """Drive prop_fn(case) with Hypothesis. prop_fn raises Discrepancy on a violation.
        After a failure the bucket is suppressed (counted) and the search continues, so that one
        shallow defect does not hide the others."""
        import hypothesis
        from hypothesis import given, settings, HealthCheck, Phase
        if shrink is None:
            shrink = self.tier == 'thorough'
        phases = [Phase.explicit, Phase.generate] + ([Phase.shrink] if shrink else [])
        rounds = 0
        remaining = max_examples
        # the budget is a case count; it is spent in up to four Hypothesis runs so that the wall-clock safety net
        # (WALL_CAP -> budget_exhausted, inconclusive but passing) can take effect between them
        chunk = max(25, -(-max_examples // 4))
        part = 0
        while rounds <= max_buckets and remaining > 0:
            if self.out_of_time():
                break
            last = {}
            counter = [0]
            this_run = min(chunk, remaining)
            part += 1

            def make(_last, _counter):
                def wrapped(case):
                    _counter[0] += 1
                    self.evaluations += 1
                    if len(self.fallback_samples) < 2:
                        self.fallback_samples.append(case)
                    try:
                        prop_fn(case)
                    except Discrepancy as d:
                        if d.bucket in self.suppressed:
                            self.klass('suppressed:' + d.bucket)
                            return
                        _last['d'] = d
                        raise
                return wrapped
            wrapped = make(last, counter)

            st = settings(max_examples=this_run, database=None, deadline=None, phases=phases,
                          report_multiple_bugs=False, derandomize=False, print_blob=False,
                          suppress_health_check=[HealthCheck.too_slow, HealthCheck.data_too_large,
                                                 HealthCheck.large_base_example],
                          verbosity=hypothesis.Verbosity.quiet)
            test = hypothesis.seed(self.seed_for('%s/%d/%d' % (name, rounds, part)))(st(given(strategy)(wrapped)))
            try:
                test()
                remaining = max(0, remaining - max(counter[0], this_run))
                continue
            except Discrepancy:
                d = last['d']
                self.violation(d.bucket, d.message, d.case)
                self.suppressed.add(d.bucket)
                rounds += 1
                remaining = max(0, remaining - counter[0])
            except hypothesis.errors.Unsatisfiable:
                raise HarnessError('generator for %s unsatisfiable' % name)
            except BaseException as e:
                # Hypothesis wraps a failure that did not reproduce on its immediate re-run (FlakyFailure, an
                # exception group). The oracle did observe the discrepancy against the real library, so it is
                # reported (marked as not reproduced), not turned into a harness error.
                if 'Flaky' in type(e).__name__ and 'd' in last:
                    d = last['d']
                    self.violation(d.bucket, d.message + ' [observed once; did not reproduce on immediate re-run]',
                                   d.case)
                    self.suppressed.add(d.bucket)
                    self.klass('flaky_failure')
                    rounds += 1
                    remaining = max(0, remaining - counter[0])
                else:
                    raise
            if self.out_of_time():
                break


