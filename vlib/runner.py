"""Check runner: shards a property over processes, merges evidence, handles replay and exit codes.

  ./check Cxx [--tier quick|thorough] [--replay FILE] [--shards N]

exit 0  property held on everything explored (known findings are printed as KNOWN-FINDING lines)
exit 1  + "VIOLATION property=<id> replay=<path>" for a violation not listed in known_findings.json
exit 2  harness error (import failure, crashed shard, internal assertion) -- never a violation
"""
import argparse
import glob
import hashlib
import importlib
import json
import os
import pickle
import subprocess
import sys
import time
import traceback

from . import env
from .findings import load_findings

PROPS = {
    'C01': 'props.c01_sighash', 'C02': 'props.c02_verify', 'C03': 'props.c03_bip32',
    'C04': 'props.c04_keyaddr', 'C05': 'props.c05_addrscript', 'C06': 'props.c06_roundtrip',
    'C07': 'props.c07_wallet_tx', 'C08': 'props.c08_ledger', 'C09': 'props.c09_paths',
    'C10': 'props.c10_multisig', 'C11': 'props.c11_checksums', 'C12': 'props.c12_export_import',
    'C13': 'props.c13_ecdsa', 'C14': 'props.c14_bip39', 'C15': 'props.c15_bip38',
    'C16': 'props.c16_noleak', 'C17': 'props.c17_amounts', 'C18': 'props.c18_wire',
    'C19': 'props.c19_interp', 'C20': 'props.c20_service',
}

from .core import Ctx, Discrepancy, HarnessError, MAX_SAMPLES, h64


# -------------------------------------------------------------------------------------------------

def _load_module(prop_id):
    if prop_id not in PROPS:
        raise HarnessError('unknown property %s' % prop_id)
    return importlib.import_module(PROPS[prop_id])


def _tier_cap(mod, tier):
    caps = getattr(mod, 'WALL_CAP', {'quick': 600, 'thorough': 3600})
    cap = caps[tier]
    if tier == 'quick':
        cap = min(cap, int(os.environ.get('VERIF_QUICK_CAP', '420')))
    return cap


def shard_main(args):
    env.activate('%s-s%d' % (args.prop, args.shard))
    findings = load_findings(args.prop)
    mod = _load_module(args.prop)
    deadline = time.time() + _tier_cap(mod, args.tier)
    ctx = Ctx(args.prop, args.tier, args.shard, args.shards, env.seed_int(), findings, deadline)
    res = {'ok': True}
    try:
        # regression tier: committed replay files must hold on the tree (dealt round-robin to the shards, the
        # known-finding probes run on the last shard)
        paths = sorted(glob.glob(os.path.join(env.VERIF_DIR, 'replays', args.prop, '*.json')))
        if True:
            for path in [p for k, p in enumerate(paths) if k % args.shards == args.shard]:
                with open(path) as f:
                    rep = json.load(f)
                if rep.get('kind') == 'finding-probe':
                    continue
                ctx.klass('regression_replays')
                ctx.count()
                try:
                    mod.replay(ctx, rep['case'])
                except Discrepancy as d:
                    ctx.violation('replay:' + os.path.basename(path) + ':' + d.bucket, d.message, rep['case'])
            if hasattr(mod, 'probes') and args.shard == args.shards - 1:
                mod.probes(ctx)
        mod.run(ctx)
    except Discrepancy as d:
        # a Discrepancy escaping run() unguarded still is a verdict of the oracle, not a crash
        ctx.violation(d.bucket, d.message, d.case)
    except Exception:
        res['ok'] = False
        res['error'] = traceback.format_exc()
    if not ctx.samples:
        ctx.samples = list(ctx.fallback_samples)
    for k in ('evaluations', 'nontrivial', 'classes', 'samples', 'violations', 'known_hits', 'excluded',
              'refusals', 'probes', 'notes', 'budget_exhausted', 'exhaustive_parts'):
        res[k] = getattr(ctx, k)
    res['seed'] = ctx.seed_for('shard')
    with open(args.out, 'wb') as f:
        pickle.dump(res, f)
    return 0 if res['ok'] else 2


def replay_main(args):
    env.activate('%s-replay' % args.prop)
    findings = {} if args.no_known else load_findings(args.prop)
    mod = _load_module(args.prop)
    ctx = Ctx(args.prop, 'quick', 0, 1, env.seed_int(), findings, time.time() + 3600)
    with open(args.replay) as f:
        rep = json.load(f)
    try:
        mod.replay(ctx, rep['case'])
    except Discrepancy as d:
        print('replay: %s: %s' % (d.bucket, d.message))
        print('VIOLATION property=%s replay=%s' % (args.prop, os.path.abspath(args.replay)))
        return 1
    print('replay: property held on %s' % args.replay)
    return 0


def _merge_counts(dst, src):
    for k, v in src.items():
        dst[k] = dst.get(k, 0) + v


def parent_main(args):
    t0 = time.time()
    prop = args.prop
    tier = args.tier
    mod_name = PROPS.get(prop)
    if not mod_name:
        print('unknown property %s' % prop)
        return 2
    # static metadata is read without importing bitcoinlib in the parent: import module lazily in a child
    meta = _module_meta(prop)
    if meta is None:
        return 2
    nshards = args.shards or meta.get('SHARDS', {}).get(tier, 16)
    work = os.path.join(env.WORK_ROOT, 'run-%s-%d' % (prop, os.getpid()))
    os.makedirs(work, exist_ok=True)
    procs = []
    cenv = dict(os.environ)
    cenv['PYTHONHASHSEED'] = cenv.get('VERIF_HASHSEED', '0')
    cenv['VERIF_SEED'] = str(env.seed_int())
    cenv['PYTHONPATH'] = env.VERIF_DIR + (os.pathsep + cenv['PYTHONPATH'] if cenv.get('PYTHONPATH') else '')
    for k in range(nshards):
        out = os.path.join(work, 'shard%d.pkl' % k)
        log = open(os.path.join(work, 'shard%d.log' % k), 'wb')
        p = subprocess.Popen([sys.executable, '-m', 'vlib.runner', prop, '--tier', tier, '--shard', str(k),
                              '--shards', str(nshards), '--out', out],
                             cwd=env.VERIF_DIR, env=cenv, stdout=log, stderr=subprocess.STDOUT)
        procs.append((k, p, out, log))
    cap = meta['WALL_CAP'][tier] + 120
    results = []
    harness_errors = []
    for k, p, out, log in procs:
        try:
            p.wait(timeout=max(1, cap - (time.time() - t0)))
        except subprocess.TimeoutExpired:
            p.kill()
            p.wait()
            harness_errors.append('shard %d exceeded wall cap' % k)
        log.close()
        if os.path.exists(out):
            with open(out, 'rb') as f:
                r = pickle.load(f)
            results.append(r)
            if not r['ok']:
                harness_errors.append('shard %d: %s' % (k, r.get('error')))
        else:
            with open(os.path.join(work, 'shard%d.log' % k), 'rb') as f:
                tail = f.read()[-3000:].decode('utf8', 'replace')
            harness_errors.append('shard %d produced no result (rc=%s): %s' % (k, p.returncode, tail))

    # ---- merge ---------------------------------------------------------------------------------
    evaluations = 0
    nontrivial = set()
    classes, known_hits, excluded, refusals, notes, exhaustive_parts = {}, {}, {}, {}, {}, {}
    samples = []
    violations = {}
    probes = {}
    shard_seeds = []
    budget_exhausted = False
    for r in results:
        evaluations += r['evaluations']
        nontrivial |= r['nontrivial']
        _merge_counts(classes, r['classes'])
        _merge_counts(known_hits, r['known_hits'])
        _merge_counts(excluded, r['excluded'])
        _merge_counts(refusals, r['refusals'])
        notes.update(r['notes'])
        for part, done in r['exhaustive_parts'].items():
            exhaustive_parts[part] = exhaustive_parts.get(part, True) and done
        for s in r['samples']:
            if len(samples) < MAX_SAMPLES:
                samples.append(s)
        for b, v in r['violations'].items():
            if b not in violations or len(json.dumps(v['case'], default=str)) < len(json.dumps(violations[b]['case'], default=str)):
                violations[b] = v
        probes.update(r['probes'])
        shard_seeds.append(r['seed'])
        budget_exhausted = budget_exhausted or r['budget_exhausted']

    rc = 0
    if harness_errors:
        seen = set()
        for e in harness_errors:
            key = e.split(':', 1)[-1]
            if key in seen:
                continue
            seen.add(key)
            sys.stderr.write('HARNESS-ERROR %s\n' % e)
        rc = 2

    findings = load_findings(prop)
    for fid, (reproduces, what) in sorted(probes.items()):
        if reproduces and fid in findings:
            print('KNOWN-FINDING: property=%s %s: %s' % (prop, fid, what))
        elif reproduces and fid not in findings:
            # a probe reproduces but the finding is not (or no longer) listed as open
            violations.setdefault('probe:' + fid, {'case': {'probe': fid}, 'message': what})

    replay_paths = []
    if violations:
        rdir = os.path.join(env.VERIF_DIR, 'replays', prop, 'found')
        os.makedirs(rdir, exist_ok=True)
        for b, v in sorted(violations.items()):
            name = hashlib.sha1(b.encode()).hexdigest()[:12] + '.json'
            path = os.path.join(rdir, name)
            with open(path, 'w') as f:
                json.dump({'property': prop, 'bucket': b, 'message': v['message'], 'case': v['case'],
                           'seed': env.seed_int(), 'tier': tier}, f, indent=1, sort_keys=True, default=str)
            replay_paths.append(path)
            print('violation bucket=%s: %s' % (b, v['message'][:600]))
            print('VIOLATION property=%s replay=%s' % (prop, path))
        if rc == 0:
            rc = 1

    wall = time.time() - t0
    exhaustive = bool(exhaustive_parts) and all(exhaustive_parts.values()) and meta.get('EXHAUSTIVE_ALL', False)
    evidence = {
        'property_id': prop,
        'tier': tier,
        'seed': env.seed_int(),
        'level': meta['LEVEL'],
        'coverage': {
            'evaluations': evaluations,
            'distinct_nontrivial': len(nontrivial),
            'rule': meta['RULE'],
            'samples': samples,
            'classes': dict(sorted(classes.items())),
            'known_finding_hits': known_hits,
            'known_findings_reproduced': sorted(f for f, (r, _) in probes.items() if r and f in findings),
            'excluded_by_construction': excluded,
            'refusals': refusals,
            'exhaustive': exhaustive,
            'exhaustive_parts': exhaustive_parts,
            'budget_exhausted': budget_exhausted,
            'shards': len(results),
            'shard_seeds': shard_seeds,
            'notes': notes,
            'technique': meta.get('TECHNIQUE', ''),
            'harness_errors': len(harness_errors),
        },
        'assumptions': meta.get('ASSUMPTIONS', []),
        'wall_s': round(wall, 2),
        'violations': len(violations),
    }
    # evidence describes /repo itself: runs against another tree (sensitivity runs with VERIF_REPO) write elsewhere
    ev_dir = os.path.join(env.VERIF_DIR, 'evidence')
    if os.path.realpath(env.REPO_DIR) != os.path.realpath('/repo'):
        ev_dir = os.path.join(env.WORK_ROOT, 'evidence-other-tree')
        evidence['coverage']['notes']['tree'] = env.REPO_DIR
    if rc != 2:
        os.makedirs(ev_dir, exist_ok=True)
        with open(os.path.join(ev_dir, prop + '.json'), 'w') as f:
            json.dump(evidence, f, indent=1, sort_keys=False, default=str)
    import shutil
    if rc != 2 or not os.environ.get('VERIF_KEEP_WORK'):
        shutil.rmtree(work, ignore_errors=True)
    print('%s %s: evaluations=%d distinct_nontrivial=%d violations=%d known_hits=%s wall=%.1fs%s' % (
        prop, tier, evaluations, len(nontrivial), len(violations), known_hits, wall,
        ' (budget exhausted: inconclusive-but-passing parts)' if budget_exhausted else ''))
    return rc


def _module_meta(prop):
    """Read LEVEL/RULE/... constants of a props module by parsing literals only (the parent process
    never imports bitcoinlib)."""
    import ast
    path = os.path.join(env.VERIF_DIR, PROPS[prop].replace('.', '/') + '.py')
    try:
        with open(path) as f:
            tree = ast.parse(f.read())
    except Exception as e:
        sys.stderr.write('HARNESS-ERROR cannot read %s: %s\n' % (path, e))
        return None
    meta = {'WALL_CAP': {'quick': 600, 'thorough': 3600}}
    for node in tree.body:
        if isinstance(node, ast.Assign) and len(node.targets) == 1 and isinstance(node.targets[0], ast.Name):
            name = node.targets[0].id
            if name in ('LEVEL', 'RULE', 'TECHNIQUE', 'ASSUMPTIONS', 'SHARDS', 'WALL_CAP', 'EXHAUSTIVE_ALL'):
                try:
                    meta[name] = ast.literal_eval(node.value)
                except Exception as e:
                    sys.stderr.write('HARNESS-ERROR %s.%s is not a literal: %s\n' % (path, name, e))
                    return None
    for req in ('LEVEL', 'RULE'):
        if req not in meta:
            sys.stderr.write('HARNESS-ERROR %s lacks %s\n' % (path, req))
            return None
    return meta


def main(argv=None):
    ap = argparse.ArgumentParser()
    ap.add_argument('prop')
    ap.add_argument('--tier', default=os.environ.get('VERIF_TIER') or 'quick', choices=['quick', 'thorough'])
    ap.add_argument('--replay')
    ap.add_argument('--no-known', action='store_true', help='replay with known findings disabled')
    ap.add_argument('--shard', type=int)
    ap.add_argument('--shards', type=int)
    ap.add_argument('--out')
    args = ap.parse_args(argv)
    args.prop = args.prop.upper()
    try:
        if args.replay:
            return replay_main(args)
        if args.shard is not None:
            return shard_main(args)
        return parent_main(args)
    except HarnessError as e:
        sys.stderr.write('HARNESS-ERROR %s\n' % e)
        return 2
    except Exception:
        sys.stderr.write('HARNESS-ERROR %s\n' % traceback.format_exc())
        return 2


if __name__ == '__main__':
    sys.exit(main())
