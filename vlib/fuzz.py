"""Run an atheris target (fuzz/t_<name>.py) from a property module's thorough tier and merge what it found."""
import glob
import json
import os
import re
import shutil
import subprocess
import sys

from . import env


def available():
    try:
        sys.path.append(env.DEPS_DIR) if env.DEPS_DIR not in sys.path else None
        import atheris  # noqa
        return True
    except Exception:
        return False


def run_fuzz(ctx, target, runs, max_len=800, with_seed_corpus=None):
    """Coverage-guided campaign of `runs` executions in a subprocess. Violations found by the in-target oracle are
    recorded on ctx; counts go to the evidence classes. A missing atheris downgrades to 'skipped'."""
    if not available():
        ctx.klass('fuzz.%s.skipped_no_atheris' % target)
        return
    base = os.path.join(env.data_dir(), 'fuzz-%s-%d' % (target, ctx.shard))
    shutil.rmtree(base, ignore_errors=True)
    corpus = os.path.join(base, 'corpus')
    found = os.path.join(base, 'found')
    os.makedirs(corpus)
    os.makedirs(found)
    for n, blob in enumerate(with_seed_corpus or []):
        with open(os.path.join(corpus, 'seed%d' % n), 'wb') as f:
            f.write(blob)
    cenv = dict(os.environ)
    cenv['PYTHONPATH'] = os.pathsep.join([env.VERIF_DIR, env.DEPS_DIR, cenv.get('PYTHONPATH', '')])
    cenv['VERIF_REPO'] = env.REPO_DIR
    cenv.pop('BCL_DATA_DIR', None)
    seed = ctx.seed_for('fuzz-' + target) % (2 ** 31 - 1) + 1
    cmd = [sys.executable, '-m', 'fuzz.driver', target, '--found', found, '--', corpus, '-runs=%d' % runs,
           '-seed=%d' % seed, '-max_len=%d' % max_len, '-print_final_stats=1', '-timeout=60', '-verbosity=0']
    p = subprocess.run(cmd, cwd=env.VERIF_DIR, env=cenv, stdout=subprocess.PIPE, stderr=subprocess.STDOUT, text=True)
    m = re.search(r'stat::number_of_executed_units:\s*(\d+)', p.stdout)
    executed = int(m.group(1)) if m else 0
    m = re.search(r'stat::new_units_added:\s*(\d+)', p.stdout)
    new_units = int(m.group(1)) if m else 0
    stats = {}
    sp = os.path.join(found, 'stats.json')
    if os.path.exists(sp):
        stats = json.load(open(sp))
    if not executed:
        executed = stats.get('decoded', 0)
    ctx.count(executed)
    ctx.klass('fuzz.%s.executions' % target, executed)
    ctx.klass('fuzz.%s.corpus_units' % target, new_units)
    for fid, n in stats.get('known_hits', {}).items():
        ctx.known_hits[fid] = ctx.known_hits.get(fid, 0) + n
    n_found = 0
    for path in glob.glob(os.path.join(found, '*.json')):
        if path.endswith('stats.json'):
            continue
        rep = json.load(open(path))
        ctx.violation('fuzz:' + rep['bucket'], rep['message'], rep['case'])
        n_found += 1
    if p.returncode not in (0, 1) and not n_found:
        # libFuzzer exits 77/1 on a crash we provoked; anything else without an artefact is a harness problem
        tail = p.stdout[-600:]
        if 'Traceback' in tail or 'ERROR' in tail:
            raise RuntimeError('fuzz target %s failed: %s' % (target, tail))
    if executed:
        ctx.nt(('fuzz', target, ctx.shard, executed))
    shutil.rmtree(base, ignore_errors=True)
