"""Process isolation for checks.

Must be imported and `activate()`d *before* bitcoinlib is imported: bitcoinlib copies
data/networks.json and data/providers.json into BCL_DATA_DIR once and afterwards reads the
copy, so each check process gets a fresh directory (re-copied from the tree under test).
"""
import atexit
import os
import shutil
import sys

VERIF_DIR = os.path.dirname(os.path.dirname(os.path.abspath(__file__)))
REPO_DIR = os.environ.get('VERIF_REPO', '/repo')
WORK_ROOT = os.path.join(VERIF_DIR, '.work')
DEPS_DIR = os.path.join(VERIF_DIR, '.deps')

_active = None


def activate(tag):
    """Create a private data dir, point bitcoinlib at it and put the repo tree first on sys.path."""
    global _active
    if _active:
        return _active
    if 'bitcoinlib' in sys.modules:
        raise RuntimeError('env.activate() called after bitcoinlib was imported')
    d = os.path.join(WORK_ROOT, '%s-%d' % (tag, os.getpid()))
    shutil.rmtree(d, ignore_errors=True)
    os.makedirs(d, exist_ok=True)
    os.environ['BCL_DATA_DIR'] = d
    os.environ['BCL_DATABASE_DIR'] = os.path.join(d, 'database')
    os.environ.pop('BCL_CONFIG_FILE', None)
    if REPO_DIR not in sys.path[:1]:
        sys.path.insert(0, REPO_DIR)
    if os.path.isdir(DEPS_DIR) and DEPS_DIR not in sys.path:
        sys.path.append(DEPS_DIR)
    _active = d
    atexit.register(cleanup)
    return d


def cleanup():
    global _active
    if _active:
        shutil.rmtree(_active, ignore_errors=True)
        _active = None


def data_dir():
    return _active


def seed_int():
    try:
        return int(os.environ.get('VERIF_SEED', '1'))
    except ValueError:
        return 1
