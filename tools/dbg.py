"""dev helper: python tools/dbg.py Cxx replayfile -> drops into replay with traceback / prints"""
import sys, json, os
sys.path.insert(0, '/verif')
from vlib import env
env.activate('dbg')
