#!/venv/bin/python
"""Sensitivity: apply every mutants/<Cxx>_<name>.patch to a scratch worktree of /repo, run the quick check of
that property against it (VERIF_REPO) and record whether a VIOLATION is reported.

usage: run_mutants.py [Cxx ...]      -> rewrites mutants/RESULTS.md (merging with earlier results)
"""
import glob
import json
import os
import re
import subprocess
import sys
import time

V = os.path.dirname(os.path.dirname(os.path.abspath(__file__)))
RES_JSON = os.path.join(V, 'mutants', 'results.json')


def run(cmd, **kw):
    return subprocess.run(cmd, stdout=subprocess.PIPE, stderr=subprocess.STDOUT, text=True, **kw)


def main():
    want = [a.upper() for a in sys.argv[1:]]
    results = {}
    if os.path.exists(RES_JSON):
        results = json.load(open(RES_JSON))
    head = run(['git', '-C', '/repo', 'rev-parse', '--short', 'HEAD']).stdout.strip()
    for patch in sorted(glob.glob(os.path.join(V, 'mutants', '*.patch'))):
        name = os.path.basename(patch)[:-6]
        prop = name.split('_')[0].upper()
        if want and prop not in want:
            continue
        wt = '/tmp/mut_%s_%d' % (name, os.getpid())
        run(['git', '-C', '/repo', 'worktree', 'remove', '--force', wt])
        r = run(['git', '-C', '/repo', 'worktree', 'add', '-q', '--detach', wt, 'HEAD'])
        status, detail = 'error', ''
        t0 = time.time()
        try:
            a = run(['git', 'apply', '--recount', '-C1', patch], cwd=wt)
            if a.returncode != 0:
                a = run(['patch', '-p1', '--fuzz=3', '-i', patch], cwd=wt)
            if a.returncode != 0:
                status, detail = 'patch-does-not-apply', a.stdout[-300:]
            else:
                env = dict(os.environ, VERIF_REPO=wt)
                c = run([os.path.join(V, 'check'), prop, '--tier', 'quick'], cwd=V, env=env)
                viol = re.findall(r'^violation bucket=(\S+)', c.stdout, flags=re.M)
                if c.returncode == 1 and viol:
                    status, detail = 'killed', ', '.join(sorted(set(v.rstrip(':') for v in viol))[:4])
                elif c.returncode == 0:
                    status, detail = 'SURVIVED', c.stdout.strip().split('\n')[-1][:200]
                else:
                    status, detail = 'harness-error', c.stdout[-400:]
        finally:
            run(['git', '-C', '/repo', 'worktree', 'remove', '--force', wt])
            run(['rm', '-rf', os.path.join(V, 'replays', prop, 'found')])
        results[name] = {'property': prop, 'status': status, 'detail': detail, 'repo_head': head,
                         'seconds': round(time.time() - t0, 1)}
        print('%-60s %s  %s' % (name, status, detail[:120]))
        json.dump(results, open(RES_JSON, 'w'), indent=1, sort_keys=True)
    # markdown
    lines = ['# Sensitivity of the checks: deliberate breakages (mutants)', '',
             'Each patch under `mutants/` is a realistic edit that keeps the unit tests green. `tools/run_mutants.py` '
             'applies it to a scratch worktree of `/repo`, runs the *quick* tier of the property it targets with '
             '`VERIF_REPO=<worktree>` and records whether a VIOLATION was reported.', '',
             '| mutant | property | result | first buckets / note |', '|---|---|---|---|']
    notes = {}
    if os.path.exists(os.path.join(V, 'mutants', 'notes.json')):
        notes = json.load(open(os.path.join(V, 'mutants', 'notes.json')))
    for name in sorted(results):
        r = results[name]
        detail = r['detail'].replace('|', '/')[:160]
        status = r['status']
        if status == 'SURVIVED' and name in notes:
            status = 'survived (equivalent)'
            detail = notes[name]
        lines.append('| %s | %s | %s | %s |' % (name, r['property'], status, detail))
    killed = sum(1 for r in results.values() if r['status'] == 'killed')
    equiv = sum(1 for n, r in results.items() if r['status'] == 'SURVIVED' and n in notes)
    lines += ['', '%d of %d mutants killed; %d survivors are argued equivalent (see notes); %d other.' %
              (killed, len(results), equiv, len(results) - killed - equiv)]
    open(os.path.join(V, 'mutants', 'RESULTS.md'), 'w').write('\n'.join(lines) + '\n')


if __name__ == '__main__':
    main()
