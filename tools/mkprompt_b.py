#!/venv/bin/python
"""Prompt for a second (third, ...) independent breaking change of one property: the template of mkprompt.py with a
different worktree name and the list of mechanisms already used by earlier rounds (so that the new change is of a
different kind). usage: mkprompt_b.py C03 b > prompt.txt"""
import glob
import json
import os
import subprocess
import sys

V = os.path.dirname(os.path.dirname(os.path.abspath(__file__)))
pid, suffix = sys.argv[1], sys.argv[2]
base = subprocess.run([sys.executable, os.path.join(V, 'tools', 'mkprompt.py'), pid], stdout=subprocess.PIPE,
                      text=True, check=True).stdout
base = base.replace('/tmp/seed_' + pid, '/tmp/seed_' + pid + suffix).replace('demo_%s.py' % pid,
                                                                            'demo_%s%s.py' % (pid, suffix))
taken = []
for d in sorted(glob.glob(os.path.join(V, 'seeded', pid + '*'))):
    m = os.path.join(d, 'meta.json')
    if os.path.exists(m):
        taken.append(json.load(open(m)).get('summary', ''))
print(base)
print('Already taken by someone else, choose something DIFFERENT (another mechanism, another code path, another '
      'clause of the property): ' + '; '.join('"%s"' % t for t in taken if t) + '.')
