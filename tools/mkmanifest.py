#!/venv/bin/python
"""Regenerate /verif/MANIFEST.json from the table below; only properties whose module exists are claimed."""
import json
import os
import sys

V = os.path.dirname(os.path.dirname(os.path.abspath(__file__)))
sys.path.insert(0, V)
from vlib.runner import PROPS  # noqa

T = {
    'C01': ('differential (Hypothesis): library signature_hash vs reference legacy/BIP143 sighash on generated '
            'transaction plans; embedded signatures verified by a reference consensus interpreter',
            'Generated-input search: structured transaction plans (all standard input kinds, boundary values) built '
            'through the API and parsed from reference-built bytes; digest equality with an independent sighash '
            'implementation and end-to-end verification of the produced signatures with an independent interpreter.',
            'ref/sighash.py, ref/interp.py, ref/ec.py are correct (self-tested against BIP143 example signature and '
            'round-trip spends); only SIGHASH_ALL (the library signs nothing else)'),
    'C02': ('Hypothesis signing histories + single-field tamper operators; oracle = reference interpreter verdict',
            'Generated signing histories (subsets/orders of signers, several sign calls) and one tamper per case '
            'from a finite operator family; library verify() must agree with the verdict known by construction '
            'and cross-checked by the reference interpreter.',
            'tamper operators are a finite family; reference interpreter implements consensus (not policy) rules'),
    'C03': ('Hypothesis differential against reference BIP32 (CKDpriv/CKDpub), commutation and refusal clauses',
            'Generated seeds/paths/split points; every derived field and serialisation compared with an independent '
            'BIP32 implementation; hardened-from-public requests must raise.',
            'ref/bip32.py (self-tested on BIP32 TV1/TV3); the 2^-127 invalid-child branches are unreachable by search'),
    'C04': ('Hypothesis + boundary enumeration; oracle = reference secp256k1 arithmetic and address encoders',
            'Boundary-directed scalars and public encodings across the full network x script-type matrix compared '
            'with independent EC arithmetic, Base58Check/Bech32 encoders and the pinned prefix table; every '
            'non-key must be refused.',
            'ref/ec.py, ref/address.py, pinned networks table (baseline commit, cross-checked for public chains)'),
    'C05': ('exhaustive network x type x route matrix + Hypothesis payloads; oracle = reference templates/encoders',
            'Finite construction matrix enumerated exhaustively plus random payloads: forward, backward and both '
            'compositions against reference script templates and address encoders; cross-network acceptance iff '
            'the pinned tables share the prefix.',
            'reference script templates per BIP16/141/341; pinned networks table'),
    'C06': ('Hypothesis field-level transaction/block generator from a reference serialiser; round-trip + '
            'differential parse; atheris structure-aware fuzzing in the thorough tier',
            'Well-formed serialisations produced by an independent serialiser (non-standard scripts, CompactSize '
            'boundaries, witness shapes, coinbases) must re-serialise byte-identically with exact ids/fields; API '
            'built transactions are read back by the independent parser; blocks through both readers.',
            'ref/wire.py; strict=True may refuse non push-well-formed scripts (counted), strict=False must parse'),
    'C07': ('Hypothesis wallet/UTXO/request generator; validity predicate over every returned transaction',
            'Generated wallets, UTXO sets and spend requests (fees, change splits, sweep, bumpfee); every returned '
            'transaction must satisfy conservation, exact recipients, own change, distinct unspent inputs with '
            'required confirmations and fee-rate limits, checked on independently parsed bytes.',
            'SQLite back-end only; offline bitcoinlib_test provider; explicit fees on other networks'),
    'C08': ('Hypothesis RuleBasedStateMachine over wallet histories with reopen/second reader; ledger invariants',
            'Stateful generation of wallet operation histories; invariants I1-I5 (balance = sum utxos = sum key '
            'balances, no re-listing/re-selection of spent outputs, stored transactions reload identically, '
            'reopen/second reader agree) after every step.',
            'SQLite back-end; offline provider semantics of bitcoinlib_test'),
    'C09': ('Hypothesis stateful key-request histories + restore; oracle = reference BIP32 derivation of the '
            'documented path templates',
            'Generated key-request histories over accounts/changes/witness types; every key compared with '
            'independent derivation along the documented BIP44/49/84/48 path; gap/repeat/address-uniqueness '
            'invariants; restore from seed, mnemonic, xprv and account xpub must reproduce addresses.',
            'ref/bip32.py, ref/address.py; SQLite only'),
    'C10': ('Hypothesis ceremony generator (permuted cosigner wallets, hand-off media, signer orders); oracle = '
            'reference sorted-key script + reference interpreter against the funded script',
            'Generated m-of-n cosigner wallet sets and signing ceremonies; all wallets must agree with the '
            'reference redeem script/address; verified/pushed iff >= m distinct cosigners signed, judged by an '
            'independent interpreter against the funded script.',
            'n <= 5 (thorough 7); SQLite; offline provider'),
    'C11': ('exhaustive single-character mutation of sampled valid strings + Hypothesis multi-damage; differential '
            'against strict reference decoders; atheris in the thorough tier',
            'For sampled valid strings of every class every single-character substitution/insertion/deletion/'
            'transposition plus random damage is decoded by every claiming entry point: accepted iff the strict '
            'reference decoder accepts, payload and re-encoding identical.',
            'ref/base58.py, ref/bech32.py (BIP173/350 vectors), ref/bip32.py, ref/bip38.py'),
    'C12': ('exhaustive format x network x witness-type matrix + Hypothesis keys; export->import round trip with the '
            'reference decoding on the side',
            'Every export representation of generated keys is imported back (with and without hints) and all '
            'metadata compared with the exported key and with the reference decoding; private/public '
            'classification must never flip.',
            'pinned networks table; prefixes shared between networks/witness types are compared as sets'),
    'C13': ('Hypothesis boundary keys/digests; oracle = reference ECDSA verifier, BIP66 checker, nonce recovery',
            'Generated keys/digests/nonces: produced signatures checked with independent ECDSA, strict DER, low S, '
            'determinism and pairwise-distinct recovered nonces; verifier compared with standard ECDSA on valid, '
            'twin, out-of-range, re-encoded and wrong-key triples.',
            'ref/ec.py (RFC6979 vector); the 2^-53 float band of the low-S test is unreachable by search'),
    'C14': ('Hypothesis entropies x 9 word lists + exhaustive single-word substitution; oracle = reference BIP39',
            'Generated entropies in every bundled language against an independent BIP39 over pinned word lists; '
            'NFKD seeds with unicode passphrases; every single-word substitution of sampled sentences accepted '
            'iff the reference checksum says so.',
            'ref/bip39.py + pinned word lists (baseline commit); hashlib PBKDF2'),
    'C15': ('Hypothesis keys/passphrases both BIP38 modes; oracle = reference BIP38; freshness over call histories',
            'Generated keys, flags, networks and unicode passphrases: encrypt->decrypt round trip, equality with an '
            'independent BIP38, wrong passphrase must raise, repeated generation calls must be pairwise distinct.',
            'ref/bip38.py (BIP38 vectors); AES-256-ECB from pycryptodome shared'),
    'C16': ('Hypothesis call histories before taking public views; oracle = secret-encoding scanner over text, '
            'object graph, pickle/deepcopy and SQLite bytes',
            'Generated histories of cache-filling calls on private objects followed by every public view; a scanner '
            'searches every encoding of every involved secret in the views, object graphs, pickles and the '
            'encrypted database file.',
            'only encodings the scanner knows (raw, hex, int, WIF, extended private) can be found'),
    'C17': ('Hypothesis boundary/float-hostile amounts x denominators x networks; oracle = exact Fraction arithmetic',
            'Boundary-directed and float-hostile amounts for every denominator and currency code: parse, format '
            'and format->parse compared with exact rational arithmetic.',
            'ref/money.py; sampled (2*10^15 amounts per denominator cannot be enumerated)'),
    'C18': ('exhaustive enumeration of boundary domains + Hypothesis differential against ref/wire',
            'CompactSize 0..2^17 and all boundaries, script numbers +/-2^16 (2^20 thorough), every push length '
            '0..522 enumerated completely; random u64/script numbers and generated scripts (opcode/data item '
            'sequences) through every parse entry point against an independent wire implementation.',
            'ref/wire.py; OP_PUSHDATA4 items excluded'),
    'C19': ('exhaustive per-opcode stacks + Hypothesis grammar programs + reference-signed standard spends; '
            'differential against a reference consensus interpreter',
            'Every implemented opcode against all small stacks over a value alphabet, random structured programs '
            'with nested conditionals, and standard spends with real signatures; success/failure and final '
            'stack compared with an independent consensus interpreter.',
            'ref/interp.py (consensus flags, no policy rules); unimplemented opcodes may raise'),
    'C20': ('exhaustive fault-plan enumeration (providers x behaviours x orders x methods) + Hypothesis stateful '
            'cache sequences under a fake clock; oracle = explicit contract model',
            'Fault plans over fake providers (raise, generic exception, False, empty, malformed, ok) in every '
            'priority order and error limit; the returned value must be an answering provider\'s answer or an '
            'unexpired cached copy, and failure only when nobody answers or the limit is hit.',
            'faults are immediate exceptions/values (no real time-outs); SQLite cache'),
}

LEVEL = {'C18': 'exploration', 'C20': 'fault_enumeration'}

# properties whose check has been accepted (quiet on the unchanged tree, mutants killed)
READY = ['C%02d' % i for i in range(1, 21)]


def main():
    checks = []
    na = []
    for pid in sorted(PROPS):
        path = os.path.join(V, PROPS[pid].replace('.', '/') + '.py')
        tech, text, note = T[pid]
        if os.path.exists(path) and pid in READY:
            checks.append({
                'property_id': pid,
                'quick_cmd': './check %s --tier quick' % pid,
                'thorough_cmd': './check %s --tier thorough' % pid,
                'evidence_file': 'evidence/%s.json' % pid,
                'replay_cmd_template': './check %s --replay {path}' % pid,
                'engine': 'vlib',
                'level_claimed': {'category': LEVEL.get(pid, 'exploration'), 'text': text,
                                  'design_ref': 'DESIGN.md section 3, %s' % pid},
                'level_note': note,
                'technique': tech,
            })
        else:
            na.append({'property_id': pid, 'reason': 'check not built yet (work in progress; design in DESIGN.md '
                                                     'section 3) - the technique applies, nothing is claimed until '
                                                     'the check exists'})
    hooks_commits = []
    m = {
        'version': 1,
        'setup_cmd': './setup.sh',
        'hooks': {'guard': 'BITCOINLIB_VERIF', 'enable': 'none needed: no hook commits; checks import /repo working '
                  'tree directly with a private BCL_DATA_DIR', 'baseline_off_cmd':
                  'cd /repo && /venv/bin/python -m pytest -ra -q -p no:cacheprovider --timeout=900 '
                  '--continue-on-collection-errors',
                  'source_commits': hooks_commits, 'add_only': True},
        'engines': [{'name': 'vlib', 'path': 'vlib/runner.py', 'serves_properties': [c['property_id'] for c in checks],
                     'kind_free_text': 'Hypothesis / exhaustive-enumeration runner sharded over 16 processes with '
                                       'independent reference models in ref/ (property-based testing and fuzzing)'}],
        'checks': checks,
        'not_applicable': na,
        'notes': 'All checks: ./check <id> --tier quick|thorough; VERIF_SEED respected; exit 2 = harness error. '
                 'Known findings in known_findings.json (read-only at run time).',
    }
    with open(os.path.join(V, 'MANIFEST.json'), 'w') as f:
        json.dump(m, f, indent=1)
    print('claimed: %s' % ' '.join(c['property_id'] for c in checks))


if __name__ == '__main__':
    main()
