#!/venv/bin/python
"""Verify every independently written breaking change under seeded/<name>/ and run the checks against it.

For each seeded/<name>/{patch.diff, demo_*.py, meta.json}:
  1. fresh scratch worktree of /repo HEAD; copy the demo in; demo must PASS (exit 0) on the clean tree;
  2. apply patch.diff; demo must FAIL (exit != 0);
  3. run `./check <property> --tier quick` with VERIF_REPO=<worktree>; record whether it reports a VIOLATION
     (and, when it does not, optionally the thorough tier with --thorough);
  4. write the outcome into meta.json ("verification" block) and seeded/RESULTS.md.
usage: run_seeded.py [--thorough] [name ...]
"""
import glob
import json
import os
import re
import shutil
import subprocess
import sys
import time

V = os.path.dirname(os.path.dirname(os.path.abspath(__file__)))


def run(cmd, **kw):
    return subprocess.run(cmd, stdout=subprocess.PIPE, stderr=subprocess.STDOUT, text=True, **kw)


def _keep_regressions(prop, tag, limit=2):
    """Replay files written while the check ran against the broken tree become part of the seconds-long regression
    tier (replays/<prop>/*.json, executed first by every quick run) if they HOLD on /repo itself."""
    kept = []
    found = sorted(glob.glob(os.path.join(V, 'replays', prop, 'found', '*.json')), key=os.path.getsize)
    for path in found:
        if len(kept) >= limit:
            break
        rep = json.load(open(path))
        if rep.get('bucket', '').startswith('probe:') or 'probe' in (rep.get('case') or {}):
            continue
        c = run([os.path.join(V, 'check'), prop, '--replay', path], cwd=V)
        if c.returncode == 0:
            dst = os.path.join(V, 'replays', prop, 'reg_%s_%d.json' % (tag, len(kept)))
            rep['origin'] = tag
            json.dump(rep, open(dst, 'w'), indent=1, sort_keys=True, default=str)
            kept.append(os.path.basename(dst))
    return kept


def main():
    args = [a for a in sys.argv[1:] if not a.startswith('--')]
    thorough = '--thorough' in sys.argv
    rows = []
    for d in sorted(glob.glob(os.path.join(V, 'seeded', '*'))):
        if not os.path.isdir(d):
            continue
        name = os.path.basename(d)
        meta_path = os.path.join(d, 'meta.json')
        meta = json.load(open(meta_path)) if os.path.exists(meta_path) else {}
        if args and name not in args:
            if meta.get('verification'):
                rows.append((name, meta))
            continue
        prop = meta.get('property', name.split('_')[0].upper())
        demos = glob.glob(os.path.join(d, 'demo_*.py'))
        wt = '/tmp/seedrun_%s_%d' % (name, os.getpid())
        run(['git', '-C', '/repo', 'worktree', 'remove', '--force', wt])
        run(['git', '-C', '/repo', 'worktree', 'add', '-q', '--detach', wt, 'HEAD'])
        ver = {'repo_head': run(['git', '-C', '/repo', 'rev-parse', '--short', 'HEAD']).stdout.strip(),
               'at': time.strftime('%Y-%m-%d %H:%M:%S')}
        try:
            for demo in demos:
                shutil.copy(demo, wt)
            env = dict(os.environ)
            env.pop('BCL_DATA_DIR', None)
            demo_name = os.path.basename(demos[0]) if demos else None
            if demo_name:
                c = run(['/venv/bin/python', demo_name], cwd=wt, env=env)
                ver['demo_clean_exit'] = c.returncode
            a = run(['git', 'apply', '--recount', os.path.join(d, 'patch.diff')], cwd=wt)
            ver['patch_applies'] = a.returncode == 0
            if a.returncode != 0:
                ver['patch_error'] = a.stdout[-300:]
            elif demo_name:
                c = run(['/venv/bin/python', demo_name], cwd=wt, env=env)
                ver['demo_patched_exit'] = c.returncode
                ver['demo_patched_tail'] = c.stdout.strip().split('\n')[-3:]
            if ver['patch_applies']:
                env = dict(os.environ, VERIF_REPO=wt)
                for tier in (['quick', 'thorough'] if thorough else ['quick']):
                    t0 = time.time()
                    c = run([os.path.join(V, 'check'), prop, '--tier', tier], cwd=V, env=env)
                    viol = sorted(set(re.findall(r'^violation bucket=(\S+)', c.stdout, flags=re.M)))
                    ver['check_%s' % tier] = {'exit': c.returncode, 'buckets': [v.rstrip(':') for v in viol][:8],
                                              'seconds': round(time.time() - t0, 1)}
                    kept = _keep_regressions(prop, 'seeded_' + name)
                    if kept:
                        ver['regression_replays'] = kept
                    shutil.rmtree(os.path.join(V, 'replays', prop, 'found'), ignore_errors=True)
                    if c.returncode == 1:
                        break
                # a change that touches ground two properties share may be caught by the other property's check
                if ver.get('check_quick', {}).get('exit') != 1:
                    for other in meta.get('also_check', []):
                        c = run([os.path.join(V, 'check'), other, '--tier', 'quick'], cwd=V, env=env)
                        viol = sorted(set(re.findall(r'^violation bucket=(\S+)', c.stdout, flags=re.M)))
                        shutil.rmtree(os.path.join(V, 'replays', other, 'found'), ignore_errors=True)
                        if c.returncode == 1:
                            ver['check_quick'] = {'exit': 1, 'buckets': ['%s:%s' % (other, v.rstrip(':')) for v in viol][:6],
                                                  'by': other}
                            break
        finally:
            run(['git', '-C', '/repo', 'worktree', 'remove', '--force', wt])
        meta['verification'] = ver
        meta.setdefault('property', prop)
        json.dump(meta, open(meta_path, 'w'), indent=1)
        rows.append((name, meta))
        print(name, json.dumps(ver)[:400])
    lines = ['# Independently written breaking changes (seeded) and which check catches them', '',
             '| change | property | demo clean/patched exit | quick check | thorough check | needs |',
             '|---|---|---|---|---|---|']
    for name, meta in rows:
        v = meta.get('verification', {})
        q = v.get('check_quick', {})
        t = v.get('check_thorough', {})
        lines.append('| %s | %s | %s / %s | %s %s | %s %s | %s |' % (
            name, meta.get('property'), v.get('demo_clean_exit'), v.get('demo_patched_exit'),
            'CAUGHT' if q.get('exit') == 1 else ('missed' if q else '-'), ', '.join(q.get('buckets', [])[:3]),
            'CAUGHT' if t.get('exit') == 1 else ('missed' if t else '-'), ', '.join(t.get('buckets', [])[:3]),
            (meta.get('needs') or '')[:200].replace('|', '/')))
    open(os.path.join(V, 'seeded', 'RESULTS.md'), 'w').write('\n'.join(lines) + '\n')


if __name__ == '__main__':
    main()
