import json, sys
TPL = open('/verif/tools/seed_prompt.txt').read()
props = {json.loads(l)['id']: json.loads(l) for l in open('/verif/properties.jsonl')}
tests = {
 'C01': 'tests/test_transactions.py tests/test_script.py tests/test_keys.py',
 'C06': 'tests/test_transactions.py tests/test_blocks.py tests/test_script.py tests/test_encoding.py',
 'C07': 'tests/test_wallets.py tests/test_transactions.py', 'C08': 'tests/test_wallets.py tests/test_db.py',
 'C10': 'tests/test_wallets.py tests/test_transactions.py',
 'C02': 'tests/test_transactions.py tests/test_script.py tests/test_keys.py',
 'C03': 'tests/test_keys.py tests/test_wallets.py', 'C04': 'tests/test_keys.py tests/test_encoding.py tests/test_transactions.py',
 'C05': 'tests/test_transactions.py tests/test_script.py tests/test_keys.py', 'C09': 'tests/test_wallets.py tests/test_keys.py',
 'C11': 'tests/test_encoding.py tests/test_keys.py', 'C12': 'tests/test_keys.py tests/test_networks.py',
 'C13': 'tests/test_keys.py tests/test_transactions.py tests/test_script.py', 'C14': 'tests/test_mnemonic.py tests/test_keys.py',
 'C15': 'tests/test_keys.py', 'C16': 'tests/test_keys.py tests/test_wallets.py tests/test_security.py tests/test_db.py',
 'C17': 'tests/test_values.py tests/test_transactions.py', 'C18': 'tests/test_encoding.py tests/test_script.py tests/test_transactions.py',
 'C19': 'tests/test_script.py tests/test_transactions.py', 'C20': 'tests/test_services.py tests/test_wallets.py',
}
pid = sys.argv[1]
p = props[pid]
print(TPL.format(WT='/tmp/seed_' + pid, ID=pid, TITLE=p['title'], STATEMENT=p['statement'], TESTS=tests[pid]))
