#!/venv/bin/python
"""Store an independently written breaking change from its scratch worktree:
store_seed.py <name e.g. C04b> <property> <summary> <needs> [origin]  -> seeded/<name>/{patch.diff, demo_*.py, meta.json}"""
import glob
import json
import os
import shutil
import subprocess
import sys

V = os.path.dirname(os.path.dirname(os.path.abspath(__file__)))
name, prop, summary, needs = sys.argv[1:5]
origin = sys.argv[5] if len(sys.argv) > 5 else 'independent agent given only the property text (second round)'
wt = '/tmp/seed_' + name
d = os.path.join(V, 'seeded', name)
os.makedirs(d, exist_ok=True)
diff = subprocess.run(['git', '-C', wt, 'diff', '--', 'bitcoinlib'], stdout=subprocess.PIPE, text=True, check=True).stdout
assert diff.strip(), 'empty diff'
open(os.path.join(d, 'patch.diff'), 'w').write(diff)
demos = glob.glob(os.path.join(wt, 'demo_*.py'))
assert demos, 'no demo'
for f in demos:
    shutil.copy(f, d)
json.dump({'property': prop, 'summary': summary, 'needs': needs, 'origin': origin},
          open(os.path.join(d, 'meta.json'), 'w'), indent=1)
print('stored', d, len(diff.splitlines()), 'diff lines', [os.path.basename(f) for f in demos])
