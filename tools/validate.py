#!/opt/veriftools/pyvenv/bin/python
"""Validate MANIFEST.json and every evidence file against the schemas (uses the tooling venv's jsonschema)."""
import glob, json, sys, jsonschema
ok = True
def v(path, schema):
    global ok
    try:
        jsonschema.validate(json.load(open(path)), json.load(open(schema)))
        print('valid  ', path)
    except Exception as e:
        ok = False
        print('INVALID', path, str(e)[:300])
v('/verif/MANIFEST.json', '/root/.vp/MANIFEST.schema.json')
for p in sorted(glob.glob('/verif/evidence/*.json')):
    v(p, '/root/.vp/EVIDENCE.schema.json')
sys.exit(0 if ok else 1)
