#!/venv/bin/python
"""Run the repository's pinned baseline (guard off) in a tree and compare with BASELINE.json stable_pass.
usage: baseline.py [TREE=/repo] ; exit 0 iff every stable_pass test passed."""
import json, os, subprocess, sys, tempfile, shutil
import xml.etree.ElementTree as ET
tree = sys.argv[1] if len(sys.argv) > 1 else '/repo'
base = json.load(open('/root/.vp/BASELINE.json'))
stable = set(base['stable_pass'])
tmp = tempfile.mkdtemp(prefix='bl-')
junit = os.path.join(tmp, 'junit.xml')
env = dict(os.environ)
env['BCL_DATA_DIR'] = os.path.join(tmp, 'data')
os.makedirs(env['BCL_DATA_DIR'])
env.pop('BITCOINLIB_VERIF', None)
cmd = ['/venv/bin/python', '-m', 'pytest', '-ra', '-q', '-p', 'no:cacheprovider', '--timeout=900',
       '--continue-on-collection-errors', '--junitxml=' + junit]
p = subprocess.run(cmd, cwd=tree, env=env, stdout=subprocess.PIPE, stderr=subprocess.STDOUT)
passed = set()
failed = {}
for tc in ET.parse(junit).getroot().iter('testcase'):
    name = '%s::%s' % (tc.get('classname'), tc.get('name'))
    bad = [c for c in tc if c.tag in ('failure', 'error', 'skipped')]
    if not bad:
        passed.add(name)
    else:
        failed[name] = (bad[0].get('message') or '')[:300]
missing = sorted(stable - passed)
print('tree=%s passed=%d stable=%d missing=%d' % (tree, len(passed), len(stable), len(missing)))
for m in missing:
    print('MISSING', m, '|', failed.get(m, 'not run'))
shutil.rmtree(tmp, ignore_errors=True)
sys.exit(1 if missing else 0)
