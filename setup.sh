#!/bin/sh
# Offline, idempotent: make hypothesis (and atheris for the thorough fuzz tier) importable for /venv/bin/python,
# then run the reference models' self-tests (a wrong oracle must be a harness error, not a violation).
cd "$(dirname "$0")" || exit 2
export PIP_NO_INDEX=1
if ! PYTHONPATH="$(pwd)/.deps" /venv/bin/python -c "import hypothesis" 2>/dev/null; then
  /venv/bin/pip install -q --no-index --find-links /opt/veriftools/wheels --target "$(pwd)/.deps" hypothesis || exit 2
fi
if ! PYTHONPATH="$(pwd)/.deps" /venv/bin/python -c "import atheris" 2>/dev/null; then
  /venv/bin/pip install -q --no-index --find-links /opt/veriftools/wheels --target "$(pwd)/.deps" atheris \
    || echo "setup: atheris not installable; fuzz sub-checks of the thorough tier will be skipped"
fi
mkdir -p .work evidence
PYTHONPATH="$(pwd):$(pwd)/.deps" /venv/bin/python -m ref.selftest || exit 2
echo "setup ok"
